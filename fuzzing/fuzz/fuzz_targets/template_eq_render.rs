#![no_main]
//! E6 target for C16: bytes are decoded (`c16::fuzz::decode`) into the check's own case types and judged by the
//! check's own oracles inside the target.
use libfuzzer_sys::fuzz_target;

#[path = "common.rs"]
mod common;

fuzz_target!(|data: &[u8]| {
    common::run("C16", || c16::fuzz_entry(data));
});
