#![no_main]
//! E6 target for C13: bytes are decoded into an event of the value-shape grammar (`c13::fuzz::event`), emitted
//! through the real rolling-file and OTLP emitters over the in-process loopback pipeline and judged by the check's
//! own oracles inside the target. The pipeline keeps background threads and sockets alive between inputs: run it
//! without `-fork`; leak detection is switched off (detached worker threads own live allocations at exit).
use libfuzzer_sys::fuzz_target;

#[path = "common.rs"]
mod common;

/// read by the sanitizer runtime before `main`
#[no_mangle]
pub extern "C" fn __asan_default_options() -> *const std::os::raw::c_char {
    b"detect_leaks=0\0".as_ptr() as *const std::os::raw::c_char
}

fuzz_target!(|data: &[u8]| {
    c13::QUIET_CAUGHT_PANICS.store(true, std::sync::atomic::Ordering::Relaxed);
    common::run("C13", || c13::fuzz_entry(data));
});
