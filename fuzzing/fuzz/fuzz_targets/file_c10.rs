#![no_main]
//! E6 target for C10: bytes are decoded (`fsim::fuzz::decode`) into a file-worker history (configuration, clock,
//! pre-existing files, fault plan, steps), run with the real `emit_file` worker over the model filesystem and judged
//! by C10's oracle inside the target.
use libfuzzer_sys::fuzz_target;

#[path = "common.rs"]
mod common;

fuzz_target!(|data: &[u8]| {
    common::run("C10", || fsim::fuzz::entry(data, fsim::gen::Prop::C10));
});
