//! Shared by the targets with semantic oracles (included with `#[path]`, not a target itself).
//!
//! libfuzzer-sys installs a panic hook that aborts INSIDE the panic, so `catch_unwind` never sees it. The oracles
//! catch panics of the code under test themselves (`vcore::catch`) and judge them by signature -- a listed known
//! finding is stepped over, anything else becomes a `Fail` -- so the hook is replaced by one that only remembers the
//! panic. A verdict is reported here: the line `<ID> oracle failed: <signature>: <detail>` (tools/fuzz_campaign.sh
//! greps for it), then abort, which libFuzzer turns into a crash artifact.

use std::sync::{Mutex, Once};

static LAST_PANIC: Mutex<String> = Mutex::new(String::new());

fn install_hook() {
    static ONCE: Once = Once::new();
    ONCE.call_once(|| {
        std::panic::set_hook(Box::new(|info| {
            if let Ok(mut last) = LAST_PANIC.lock() {
                *last = info.to_string();
            }
        }));
    });
}

pub fn run(id: &str, entry: impl FnOnce() -> vcore::Res) {
    install_hook();
    match std::panic::catch_unwind(std::panic::AssertUnwindSafe(entry)) {
        Ok(Ok(())) => {}
        Ok(Err(fail)) => {
            eprintln!("{id} oracle failed: {}: {}", fail.sig, fail.msg.replace('\n', " "));
            std::process::abort();
        }
        Err(_) => {
            let last = LAST_PANIC.lock().map(|l| l.clone()).unwrap_or_default();
            eprintln!("{id} oracle failed: harness/uncaught-panic: {}", last.replace('\n', " "));
            std::process::abort();
        }
    }
}
