#![no_main]
//! E6 target for C09: bytes are decoded (`chan::fuzz::decode`) into an E2 channel history, run against the real
//! `emit_batcher` channel under the deterministic scheduler and judged by C09's oracle inside the target.
use libfuzzer_sys::fuzz_target;

#[path = "common.rs"]
mod common;

fuzz_target!(|data: &[u8]| {
    common::run("C09", || chan::fuzz::entry(data, chan::e2::Prop::C09));
});
