#![no_main]
//! E6 target for C15: any byte string through every parser with the recogniser oracles inside the target.
use libfuzzer_sys::fuzz_target;

fuzz_target!(|data: &[u8]| {
    if let Err(fail) = c15::fuzz_entry(data) {
        panic!("C15 oracle failed: {}: {}", fail.sig, fail.msg);
    }
});
