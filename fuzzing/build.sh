#!/usr/bin/env bash
# Build every libFuzzer target (called by ./check --setup). Offline; needs the nightly toolchain that is installed here.
set -u
cd "$(dirname "$0")" || exit 2
export CARGO_NET_OFFLINE=true
# cargo-fuzz builds with its own RUSTFLAGS (the harness .cargo/config.toml is not consulted): pass the hook guard explicitly
export RUSTFLAGS="--cfg emit_rs_emit_verif ${RUSTFLAGS:-}"
rc=0
for t in $(grep -A1 '^\[\[bin\]\]' fuzz/Cargo.toml | grep '^name' | sed 's/.*"\(.*\)".*/\1/'); do
  cargo +nightly fuzz build "$t" >"fuzz/$t.log.build" 2>&1 || { echo "fuzz build failed: $t" >&2; tail -5 "fuzz/$t.log.build" >&2; rc=2; }
done
exit $rc
