#!/usr/bin/env python3
"""Hand-made seed inputs for the structured libFuzzer targets (engine E6).

    python3 fuzzing/mkcorpus.py [/verif/corpus]

Writes corpus/<target>/h-<name> for template_eq_render (C16), level_path_map (C17), props_tree (C02) and a few
pseudo-random buffers r-NN for value_to_sinks (C13, whose grammar decoder also reads from the end of the input).
The encoders below are the inverses of the byte decoders `c16::fuzz`, `c17::fuzz`, `c02::fuzz` (harness/<cNN>/src/lib.rs):
every choice is one byte (taken modulo the size of the range by arbitrary::Unstructured::int_in_range), a 32-bit
index is one byte (spread over the 32 bits by the decoder), wide integers are little-endian (`arbitrary::<T>()`),
wide ranges are big-endian (`int_in_range`). Files not starting with h-/r- in the corpus directories are distilled
libFuzzer finds (`-merge=1` of an exploratory run) and are not produced here.
"""
import os
import struct
import sys

OUT = sys.argv[1] if len(sys.argv) > 1 else os.path.join(os.path.dirname(os.path.abspath(__file__)), "..", "corpus")


class W:
    def __init__(self):
        self.b = bytearray()

    def u8(self, v):
        assert 0 <= v < 256, v
        self.b.append(v)
        return self

    def bool(self, v):
        return self.u8(1 if v else 0)

    def le(self, v, n):  # arbitrary::<uN/iN>()
        self.b += (v % (1 << (8 * n))).to_bytes(n, "little")
        return self

    def rng(self, v, lo, hi):  # int_in_range(lo..=hi)
        assert lo <= v <= hi
        delta = hi - lo
        n = max(1, (delta.bit_length() + 7) // 8)
        self.b += (v - lo).to_bytes(n, "big")
        return self

    def char(self, c):  # arbitrary::<char>()
        return self.le(ord(c), 4)


def save(target, name, w):
    d = os.path.join(OUT, target)
    os.makedirs(d, exist_ok=True)
    with open(os.path.join(d, name), "wb") as f:
        f.write(bytes(w.b))


# ------------------------------------------------------------------------------------------------ C16
TEXT_CHARS = ["a", "b", "x", " ", "{", "}", "é", "ß", "€", "漢", "😀", "\u0301", "\n", "0"]
LABELS = ["", "a", "b", "x", "ab", "é", "a b", "{", "x}", "user_name", "0", "漢€"]
N_FMT = 7
STATIC, REF, OWNED, SHARED = 0, 1, 2, 3
NEW, NEW_REF, FROM_SLICE, NEW_OWNED, LITERAL, LITERAL_REF = range(6)
BY_REF, TO_OWNED, CLONE = range(3)


def c16_chars(w, s, free=True):
    assert len(s) <= 4
    w.u8(len(s))
    for c in s:
        if c in TEXT_CHARS:
            w.u8(TEXT_CHARS.index(c))
        else:
            assert free
            w.u8(len(TEXT_CHARS)).char(c)


def c16_label(w, s):
    if s in LABELS:
        w.u8(LABELS.index(s))
    else:
        w.u8(len(LABELS))
        c16_chars(w, s)


def c16_fmt(w, f):
    w.u8(N_FMT if f is None else f)


def T(text, flavor=REF):
    return ("T", text, flavor)


def H(label, fmt=None, flavor=REF):
    return ("H", label, fmt, flavor)


def c16_part(w, p):
    if p[0] == "T":
        w.u8(0)
        c16_chars(w, p[1])
        w.u8(p[2])
    else:
        w.u8(1)
        c16_label(w, p[1])
        c16_fmt(w, p[2])
        w.u8(p[3])


def c16_parts(w, ps, lo=0):
    w.u8(len(ps) - lo)
    for p in ps:
        c16_part(w, p)


def c16_resplit(w, runs=(), flavors=()):
    assert len(runs) <= 3 and len(flavors) <= 3 and all(len(c) <= 3 for c, _ in runs)  # counts are taken modulo 4
    w.u8(len(runs))
    for cuts, keep in runs:
        w.u8(len(cuts))
        for c in cuts:
            w.u8(c)
        w.bool(keep)
    w.u8(len(flavors))
    for f in flavors:
        w.u8(f)


def c16_edit(w, e):
    kind = ["ReplaceChar", "InsertChar", "DeleteChar", "RenameHole", "DropHole", "InsertHole", "HoleToText", "SwapHoles", "SetFmt"].index(e[0])
    w.u8(kind)
    if e[0] == "SetFmt":
        w.u8(e[1])
        c16_fmt(w, e[2])
    else:
        for v in e[1:]:
            w.u8(v)


def c16_derive(w, d):
    if d[0] == "resplit":
        w.u8(0)
        c16_resplit(w, *d[1:])
    elif d[0] == "mutant":
        w.u8(5).u8(len(d[1]) - 1)
        for e in d[1]:
            c16_edit(w, e)
        c16_resplit(w, *d[2:])
    else:
        w.u8(9)
        c16_parts(w, d[1])


def c16_shape(w, form=NEW_REF, conv=()):
    w.u8(form).u8(len(conv))
    for c in conv:
        w.u8(c)


def c16_val(w, v):
    if isinstance(v, bool):
        w.u8(10).bool(v)
    elif isinstance(v, str):
        fixed = ["Rust", "{x}", 'a"b\\', "  ", "längere Zeichenkette"]
        if v in fixed:
            w.u8(3).u8(fixed.index(v))
        else:
            w.u8(0)
            c16_chars(w, v, free=False)
    elif isinstance(v, int):
        if -20 <= v <= 19:
            w.u8(4).rng(v, -20, 19)
        elif v >= 1 << 63:
            w.u8(6).bool(False).le(v, 8)
        else:
            w.u8(5).le(v, 8)
    elif isinstance(v, float):
        floats = [0.0, -0.0, 1.5, 1e21, 1e-7, 100.0]
        if v in floats and not (v == 0.0 and str(v) == "-0.0"):
            w.u8(8).u8(floats.index(v))
        else:
            w.u8(9).rng(int(v * 128), -1_000_000, 999_999)
    elif isinstance(v, tuple):  # 128-bit (high, low)
        w.u8(7).le(v[0], 8).le(v[1], 8)


def c16_props(w, props):
    w.u8(len(props))
    for k, v in props:
        if k == "zz":
            w.u8(9)
        else:
            w.u8(0)
            c16_label(w, k)
        c16_val(w, v)


def c16_opts(w, budget=30, by_value=False, kind=0):
    w.u8(budget).bool(by_value).u8(kind)


def c16_triple(base, b, c, shapes=((NEW_REF, ()), (NEW_REF, ()), (NEW_REF, ())), props=(), opts=()):
    w = W().u8(0)
    c16_parts(w, base)
    c16_derive(w, b)
    c16_derive(w, c)
    for s in shapes:
        c16_shape(w, *s)
    c16_props(w, props)
    c16_opts(w, *opts)
    return w


def c16_small(a, b):
    w = W().u8(5).u8(len(a))
    for x in a:
        w.u8(x)
    w.u8(len(b))
    for x in b:
        w.u8(x)
    return w


def c16_render(parts, shape=(NEW_REF, ()), props=(), opts=()):
    w = W().u8(6)
    c16_parts(w, parts, lo=1)
    c16_shape(w, *shape)
    c16_props(w, props)
    c16_opts(w, *opts)
    return w


def corpus_c16():
    t = "template_eq_render"
    hello = [T("a é€", STATIC), H("user_name"), T("", OWNED), H("x", 1, SHARED), T("}😀")]
    save(t, "h-triple-resplit-multibyte", c16_triple(
        hello, ("resplit", [([60, 130], True), ([200], False)], [0, 1, 3]), ("resplit", [([255, 0], True)], [2]),
        shapes=((NEW, ()), (FROM_SLICE, (TO_OWNED,)), (NEW_OWNED, (BY_REF, CLONE))),
        props=[("user_name", "Rust"), ("x", 42), ("x", "ab}"), ("zz", True)], opts=(12, True, 1)))
    save(t, "h-triple-mutants", c16_triple(
        [T("ab"), H("a"), T("x"), H("b", 2), T("é")],
        ("mutant", [("ReplaceChar", 0, 128, 6)], [([128], False)], [1]),
        ("mutant", [("RenameHole", 200, 2), ("SwapHoles", 0)], [], []),
        props=[("a", 1.5), ("b", "a\"b\\")], opts=(39, False, 2)))
    save(t, "h-triple-hole-edits", c16_triple(
        [H(""), T(""), H("a b", 0), T("{"), H("{")],
        ("mutant", [("DropHole", 128)], [([0], True)], [3, 0]),
        ("mutant", [("HoleToText", 0), ("InsertHole", 255, 128, 9)], [], []),
        shapes=((NEW_REF, (CLONE,)), (NEW, (TO_OWNED, BY_REF)), (FROM_SLICE, ())),
        props=[("", "  "), ("{", (1, 2)), ("a b", -7)], opts=(5, True, 0)))
    save(t, "h-triple-literals", c16_triple(
        [T("漢"), T(""), T("€x", SHARED)], ("resplit", [([100, 200, 255], True)], [0]), ("independent", [T("漢€x", STATIC)]),
        shapes=((LITERAL, ()), (LITERAL_REF, (TO_OWNED,)), (LITERAL, (CLONE,))), opts=(3, False, 0)))
    save(t, "h-triple-empty", c16_triple([], ("resplit", [([], True)], []), ("independent", [T("")])))
    save(t, "h-triple-setfmt-open", c16_triple(
        [T("n="), H("x", 3)], ("mutant", [("SetFmt", 0, None)], [], []), ("mutant", [("InsertChar", 0, 255, 4), ("DeleteChar", 0, 0)], [], []),
        props=[("x", 3.25), ("x", 1)], opts=(39, False, 1)))
    save(t, "h-triple-free-text", c16_triple(
        [T("q\u00a0z"), H("k\u2028"), T("\U0010ffff")], ("resplit", [([90], False), ([128], True)], [1, 2]), ("resplit", [], []),
        props=[("k\u2028", 2 ** 63 + 5)], opts=(20, True, 2)))
    save(t, "h-small-empty-vs-hole", c16_small([0, 4], [4]))
    save(t, "h-small-multibyte-split", c16_small([1, 2], [3]))
    save(t, "h-small-unequal", c16_small([6, 5, 0], [1, 5]))
    save(t, "h-render-all-formatters", c16_render(
        [H("a", 0), T(" "), H("a", 1), H("b", 2), H("x", 3), H("ab", 4), H("0", 5), H("é", 6), H("zz")],
        shape=(NEW_OWNED, (TO_OWNED,)),
        props=[("a", "é€"), ("b", "längere Zeichenkette"), ("x", 1e21), ("ab", False), ("0", -20), ("é", (-1, 0)), ("a", 5)], opts=(25, False, 1)))
    save(t, "h-render-absent-and-dups", c16_render(
        [T("{"), H("user_name"), T("}"), H("x}"), H("", 1)],
        props=[("zz", 0), ("", 1), ("", 2), ("user_name", 2 ** 64 - 1), ("user_name", "b")], opts=(0, True, 2)))
    save(t, "h-render-literal", c16_render([T("a\n"), T("ß", STATIC)], shape=(LITERAL, (BY_REF, TO_OWNED)), props=[("a", 1)], opts=(2, False, 0)))


# ------------------------------------------------------------------------------------------------ C17
SEG_BYTE = {0: 0, 1: 3, 2: 5, 3: 6, 4: 7, 5: 8}  # segment -> byte of the biased table in c17::fuzz::path


def c17_path(w, p):
    w.rng(len(p), 1, 4)
    for s in p:
        w.u8(SEG_BYTE[s])


def c17_filt(w, f):
    mn, un = f
    w.u8(mn)
    if un is None:
        w.u8(0)
    else:
        w.u8(2).u8(un)


def c17_text(w, t):
    kind = t[0]
    if kind == "named":  # (name index, length, case mask, tail index, left pad, right pad)
        _, n, ln, mask, tail, l, r = t
        w.u8(0).u8(n).u8(ln - 1).le(mask, 2).u8(tail).u8(l).u8(r)
    elif kind == "junk":
        junk = ["i", "n", "f", "o", "d", "e", "b", "u", "g", "w", "a", "r", "E", "W", "1", "(", " ", "\u0001", "é", "t"]
        w.u8(6).u8(len(t[1]))
        for c in t[1]:
            if c in junk:
                w.u8(junk.index(c))
            else:
                w.u8(len(junk)).char(c)
    else:
        w.u8(8).u8(t[1])


def c17_lvl(w, v):
    k = v[0]
    if k == "absent":
        w.u8(0)
    elif k == "typed":
        w.u8(3).u8(v[1])
    elif k == "display":
        w.u8(6).u8(v[1])
    elif k == "debug":
        w.u8(7).u8(v[1])
    elif k == "text":
        w.u8(8)
        c17_text(w, v[1])
    elif k == "displaytext":
        w.u8(14)
        c17_text(w, v[1])
    elif k == "i64":
        w.u8(15).u8(2).le(v[1], 8)
    elif k == "u64":
        w.u8(17).bool(False).le(v[1], 8)
    elif k == "bool":
        w.u8(18).bool(v[1])
    elif k == "float":
        w.u8(19).u8(v[1])
    else:
        w.u8(20)


def c17_lvl_numeric(w, v):
    if v[0] == "absent":
        w.u8(0)
    elif v[0] == "i64" and 0 <= v[1] <= 7:
        w.u8(3).u8(v[1])
    elif v[0] == "u64" and 0 <= v[1] <= 7:
        w.u8(11).u8(v[1])
    else:
        w.u8(13)
        c17_lvl(w, v)


def c17_ev(w, ev, numeric):
    lvl, dup, noise = ev
    enc = c17_lvl_numeric if numeric else c17_lvl
    enc(w, lvl)
    if dup is None:
        w.u8(0)
    else:
        w.u8(4)
        enc(w, dup)
    w.bool(noise)


def c17_module(w, m):
    if m[0] == "free":
        w.u8(0)
        c17_path(w, m[1])
    else:
        _, reg, keep, sibling, extra = m
        w.u8(1).u8(reg).rng(keep, 1, 4)
        if sibling is None:
            w.u8(0)
        else:
            w.u8(2).u8(sibling)
        w.u8(len(extra))
        for s in extra:
            w.u8(s)


def c17_map(mode, pool, regs, default, queries, default_at=(0, 255), from_iter=False, perm=(), numeric=False, route=0, mix_at=0, digit_mask=0):
    """regs: (path or pool index, filt, flavor). Trailing bytes (absent = zeros = legacy meaning): route 0..5 (1 min_level, 2 min_by_path_filter,
    3 collect, 4 from_iter, 5 mix split at mix_at), digit_mask bit i turns the last segment of registration i into its digit sibling (a->a2, aa->aa1, b->b9)."""
    w = W().u8(mode)
    w.rng(len(pool), 1, 4)
    for p in pool:
        c17_path(w, p)
    w.u8(len(regs))
    for path, f, flavor in regs:
        if isinstance(path, int):
            w.bool(False).u8((path * 256) // len(pool) + 1)
        else:
            w.bool(True)
            c17_path(w, path)
        c17_filt(w, f)
        w.u8(flavor)
    if default is None:
        w.bool(False)
    else:
        w.bool(True)
        c17_filt(w, default)
    w.u8(default_at[0]).u8(default_at[1]).bool(from_iter)
    perm = list(perm) + [0] * (10 - len(perm))
    for p in perm:
        w.u8(p)
    w.rng(len(queries), 1, 4)
    for module, mflavor, ev in queries:
        c17_module(w, module)
        w.u8(mflavor)
        c17_ev(w, ev, numeric)
    if route or mix_at or digit_mask:
        w.rng(route, 0, 5).u8(mix_at).le(digit_mask, 2)
    return w


def c17_filter(mode, f, ev, ctor=0, numeric=False):
    w = W().u8(mode)
    c17_filt(w, f)
    c17_ev(w, ev, numeric)
    return w.u8(ctor)


def corpus_c17():
    t = "level_path_map"
    A, AA, B, AB, A_, E = range(6)
    plain = lambda lvl: (lvl, None, False)
    save(t, "h-map-nested-ancestors", c17_map(
        0, [[A], [A, AA], [A, AA, B]],
        [(0, (3, None), 0), (1, (0, None), 1), (2, (2, 1), 2), ([AA], (1, None), 0)], (2, None),
        [(("related", 200, 4, None, [A]), 0, plain(("typed", 1))), (("related", 100, 2, None, []), 1, plain(("text", ("named", 4, 4, 0b101, 0, 1, 0)))),
         (("free", [AA, A]), 2, plain(("absent",))), (("related", 0, 1, AA, [AA]), 0, (("typed", 3), ("typed", 0), True))],
        perm=[255, 128, 0]))
    save(t, "h-map-textual-prefix-siblings", c17_map(
        0, [[A], [AA], [AB], [A_]],
        [(0, (3, None), 0), (1, (0, None), 1), (2, (2, None), 2), (3, (1, 3), 0)], None,
        [(("related", 0, 1, AA, []), 0, plain(("typed", 0))), (("related", 0, 1, AB, [A]), 1, plain(("text", ("canonical", 2)))),
         (("free", [E]), 2, plain(("display", 3))), (("related", 255, 1, None, [A, AA]), 0, plain(("i64", 3)))],
        from_iter=True, perm=[200, 200, 200]))
    save(t, "h-map-overrides-last-wins", c17_map(
        0, [[A, A], [A]],
        [(0, (0, None), 0), (1, (3, None), 1), (0, (3, None), 2), (1, (0, 2), 0), (0, (2, None), 1)], (1, 0),
        [(("related", 0, 2, None, []), 0, plain(("debug", 2))), (("related", 0, 2, None, [AA]), 1, plain(("absent",))),
         (("related", 255, 1, None, []), 2, plain(("text", ("junk", "inf"))))],
        default_at=(128, 0), perm=[255]))
    save(t, "h-map-empty-with-default", c17_map(0, [[B]], [], (3, 3), [(("free", [B, B]), 1, plain(("null",))), (("free", [A]), 0, plain(("float", 2)))]))
    save(t, "h-map-no-default-unmatched", c17_map(0, [[E, E]], [(0, (3, None), 1)], None, [(("free", [E]), 2, plain(("typed", 0))), (("related", 0, 2, None, [E]), 1, plain(("bool", True)))]))
    save(t, "h-map-u8", c17_map(
        5, [[A], [A, B]], [(0, (5, None), 0), (1, (2, 7), 1), ([A, B, A], (0, None), 2)], (4, 1),
        [(("related", 255, 3, None, []), 0, plain(("i64", 1))), (("related", 128, 2, None, [A]), 1, plain(("u64", 6))), (("free", [B]), 2, plain(("absent",))),
         (("related", 0, 1, None, []), 0, plain(("text", ("canonical", 3))))],
        numeric=True))
    save(t, "h-map-sev", c17_map(
        6, [[AA], [AA, AA]], [(0, (3, None), 0), (1, (6, 2), 1)], None,
        [(("related", 200, 2, None, [A]), 1, (("i64", 7), ("i64", 0), False)), (("related", 0, 1, None, []), 2, plain(("absent",))), (("free", [A]), 0, plain(("i64", 300)))],
        numeric=True))
    # a name and the name plus a digit as siblings, the shorter one with a registered descendant: whole-path string order
    # (a2 < a::a) differs from per-node segment order (a < a2); built through the iterator routes
    save(t, "h-map-from-iter-digit-sibling", c17_map(
        0, [[A]], [([A, A], (0, None), 0), ([A], (3, None), 1)], None,
        [(("related", 255, 1, None, []), 0, plain(("typed", 0))), (("related", 0, 2, None, [A]), 1, plain(("typed", 0)))],
        route=4, digit_mask=0b10))
    save(t, "h-map-mix-digit-sibling-u8", c17_map(
        5, [[A, AA]], [([A, AA, B], (1, None), 0), ([A, AA], (6, None), 1), ([A], (3, None), 2), ([B], (2, None), 0)], (4, None),
        [(("related", 64, 2, None, []), 0, plain(("i64", 2))), (("related", 0, 3, None, []), 2, plain(("i64", 2)))],
        numeric=True, route=5, mix_at=200, digit_mask=0b10))
    save(t, "h-filter-text-prefix-upper", c17_filter(7, (2, None), plain(("text", ("named", 4, 4, 0xFFFF, 2, 3, 1))), ctor=1))
    save(t, "h-filter-overlong-name", c17_filter(7, (3, None), plain(("text", ("named", 7, 6, 0, 0, 0, 0))), ctor=2))
    save(t, "h-filter-unleveled-default", c17_filter(7, (2, 3), (("text", ("junk", "é1(")), ("typed", 0), True)))
    save(t, "h-filter-display-typed", c17_filter(7, (1, 0), plain(("displaytext", ("named", 1, 2, 1, 9, 0, 0)))))
    save(t, "h-filter-control-tail-open", c17_filter(7, (0, None), plain(("text", ("named", 0, 4, 0, 6, 0, 0)))))
    save(t, "h-filter-u8", c17_filter(8, (4, 6), plain(("absent",)), numeric=True))
    save(t, "h-filter-sev", c17_filter(9, (3, None), (("i64", 3), None, True), numeric=True))


# ------------------------------------------------------------------------------------------------ C02
KEYS = ["a", "b", "ab", "A", "", "é", "abc", "éa", "a.b", "a b", "k", "z", "c", "evt_kind", "span_name", "trace_id", "span_id", "span_parent", "ts",
        "ts_start", "metric_name", "metric_agg", "metric_value", "lvl"]
STRS = ["", "x", "text", "é", "1", "true", "0000000000000001", "span"]


def c02_key(w, k):
    if k in KEYS[:3]:
        w.u8(0).u8(KEYS.index(k))
    elif k in KEYS:
        w.u8(14).u8(KEYS.index(k))
    else:
        w.u8(18).u8(len(k))
        for c in k:
            w.char(c)


def c02_val(w, v):
    if v is None:
        w.u8(12)
    elif isinstance(v, bool):
        w.u8(8).bool(v)
    elif isinstance(v, str):
        w.u8(9).u8(STRS.index(v))
    elif isinstance(v, float):
        w.u8(6).rng(int(v * 8), -1000, 999)
    elif isinstance(v, tuple):
        w.u8(13 if v[0] == "trace" else 14).le(v[1], 8)
    elif -50 <= v <= 999:
        w.u8(0).rng(v, -50, 999)
    elif v >= 1 << 63:
        w.u8(5).le(v, 8)
    else:
        w.u8(4).le(v, 8)


def c02_kvs(w, kvs):
    assert len(kvs) <= 5  # slices up to 5, arrays / maps up to 4, layers up to 3 pairs
    w.u8(len(kvs))
    for k, v in kvs:
        c02_key(w, k)
        c02_val(w, v)


def c02_id(w, v):
    if v is None:
        w.u8(2)
    elif v == 0:
        w.u8(3)
    else:
        w.u8(0).le(v, 8)


LEAVES = {"pair": 0, "slice": 3, "array": 12, "btree": 14, "hash": 16, "empty": 19, "none": 20, "extent": 21, "spanctxt": 22, "frame": 23, "macro": 25}
INNER = {"and": 0, "nested": 6, "some": 8, "box": 9, "arc": 10, "ref": 11, "erased": 12, "dedup": 15, "asmap": 17, "span": 18, "metric": 19}


def c02_spec(w, s, depth=4):
    """the decoder reads the leaf/inner decision byte only while depth > 0 (nesting is capped at 4)"""
    k = s[0]
    if k in LEAVES:
        if depth > 0:
            w.u8(0)
        w.u8(LEAVES[k])
        if k == "pair":
            c02_key(w, s[1][0])
            c02_val(w, s[1][1])
            w.u8(s[2])
        elif k in ("slice", "array", "hash"):
            c02_kvs(w, s[1])
        elif k == "btree":
            c02_kvs(w, s[1])
            w.u8(s[2])
        elif k == "extent":
            if len(s) == 2:
                w.bool(True).u8(s[1])
            else:
                w.bool(False).u8(s[1]).u8(s[2])
        elif k == "spanctxt":
            for v in s[1:4]:
                c02_id(w, v)
        elif k == "frame":
            w.u8(len(s[1]))
            for root, kvs in s[1]:
                w.u8(0 if root else 1)
                c02_kvs(w, kvs)
        elif k == "macro":
            w.u8(s[1])
            for v in s[2]:
                c02_val(w, v)
        return
    assert depth > 0, "nesting deeper than 4"
    d = depth - 1
    w.u8(1).u8(INNER[k])
    if k == "and":
        c02_spec(w, s[1], d)
        c02_spec(w, s[2], d)
    elif k == "nested":
        w.u8(len(s[1]))
        for x in s[1]:
            c02_spec(w, x, d)
    elif k == "erased":
        w.u8(s[1])
        c02_spec(w, s[2], d)
    elif k == "span":
        w.u8(STRS.index(s[1]))
        c02_spec(w, s[2], d)
    elif k == "metric":
        w.u8(STRS.index(s[1])).u8(STRS.index(s[2]))
        c02_val(w, s[3])
        c02_spec(w, s[4], d)
    else:
        c02_spec(w, s[1], d)


def c02_case(spec, host=("direct",), nth=128):
    w = W()
    if host[0] == "direct":
        w.u8(0)
    elif host[0] == "ambient":
        w.u8(9).u8(host[1]).u8(0 if host[2] else 1)
        c02_kvs(w, host[3])
    elif host[0] == "traceparent":
        w.u8(12)
        c02_kvs(w, host[1])
    else:
        w.u8(13).u8(host[1])
        c02_kvs(w, host[2])
    w.u8(nth)
    c02_spec(w, spec)
    return w


def corpus_c02():
    t = "props_tree"
    dup = [("a", 1), ("b", "x"), ("a", 2), ("ab", None), ("", True), ("é", 1.5)]
    save(t, "h-slice-duplicates", c02_case(("slice", dup[:5])))
    save(t, "h-and-btree-hash", c02_case(("and", ("btree", [("b", 1), ("a", 2), ("b", 3)], 1), ("hash", [("a", "text"), ("k", 7), ("a", 8)])), nth=255))
    save(t, "h-dedup-erased-nested", c02_case(("dedup", ("erased", 1, ("nested", [("slice", dup[:3]), ("array", dup[1:5]), ("pair", ("a", 9), 1)]))), nth=0))
    save(t, "h-asmap-ref-arc-box", c02_case(("and", ("asmap", ("ref", ("arc", ("slice", dup[:4])))), ("some", ("box", ("pair", ("b", "1"), 0))))))
    save(t, "h-span-metric-views", c02_case(
        ("span", "span", ("metric", "x", "text", 42, ("slice", [("span_name", "x"), ("metric_value", 1), ("evt_kind", "span"), ("a", 1)])))))
    save(t, "h-extent-spanctxt", c02_case(("and", ("extent", 5, 70), ("and", ("spanctxt", 77, None, 0), ("slice", [("ts", 1), ("trace_id", ("trace", 5)), ("span_id", ("span", 9))])))))
    save(t, "h-frame-clone", c02_case(("and", ("frame", [(False, [("a", 1), ("b", 2)]), (False, [("a", 3)])]), ("frame", [(False, [("k", 1)]), (True, [("z", 2)])]))))
    save(t, "h-macro-shapes", c02_case(("nested", [("macro", 4, [1, 2, 3, 4]), ("macro", 2, [None, "x", 1, 1]), ("macro", 1, [True, 2.5, "é", 0])])))
    save(t, "h-ambient-erased", c02_case(("and", ("slice", dup[:3]), ("hash", [("k", 1)])), host=("ambient", 3, False, [("a", 0), ("lvl", "x")])))
    save(t, "h-ambient-root-option", c02_case(("erased", 2, ("slice", dup[:5])), host=("ambient", 2, True, [("z", 1)]), nth=64))
    save(t, "h-traceparent", c02_case(("slice", [("a", 1), ("trace_id", ("trace", 3)), ("a", 2)]), host=("traceparent", [("b", 1)])))
    save(t, "h-event-runtime", c02_case(("and", ("pair", ("k", "true"), 0), ("btree", dup[:4], 0)), host=("event", 2, [("a", 5), ("c", 6)])))
    save(t, "h-event-from-fn", c02_case(("dedup", ("and", ("slice", dup[:2]), ("slice", dup[:2]))), host=("event", 1, [])))
    save(t, "h-free-keys", c02_case(("slice", [("é\u0301", 1), ("k\0", 2), ("\U0001f600", 2 ** 64 - 1), ("zz", -(2 ** 63))])))
    save(t, "h-none-empty", c02_case(("and", ("none",), ("and", ("empty",), ("some", ("empty",))))))


# ------------------------------------------------------------------------------------------------ C13
def corpus_c13():
    x = 0x9E3779B97F4A7C15
    for i in range(12):
        buf = bytearray()
        for _ in range(8 + 6 * (i % 4)):
            x ^= (x << 13) & 0xFFFFFFFFFFFFFFFF
            x ^= x >> 7
            x ^= (x << 17) & 0xFFFFFFFFFFFFFFFF
            buf += struct.pack("<Q", x)
        w = W()
        w.b = buf
        save("value_to_sinks", "r-%02d" % i, w)


if __name__ == "__main__":
    corpus_c16()
    corpus_c17()
    corpus_c02()
    corpus_c13()
