#!/usr/bin/env bash
# libFuzzer campaign for C17 (target level_path_map, semantic oracle in the target: c17::fuzz_entry).
# ~6 k exec/s under ASan on one core: quick 140 k runs (~25 s), thorough 30 M runs over 12 jobs.
exec "$(dirname "$0")/../../tools/fuzz_campaign.sh" C17 level_path_map "$1" "$2" 140000 30000000 256
