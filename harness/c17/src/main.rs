use c17::*;
use emit::Level;
use vcore::proptest::prelude::*;
use vcore::Level as VLevel;

const RULE: &str = "cases are (a) one MinLevelFilter (minimum, optional treat_unleveled_as) and one event whose `lvl` is absent, a typed Level (captured / behind Display / behind Debug), a text (level-name prefixes in any case with suffixes, padding and junk), an integer, a bool, a float or null, optionally followed by a shadowed second `lvl`; (b) one MinLevelPathMap built from 0-10 registrations (paths of 1-4 segments over {a,aa,b,ab,a_,e-acute} and the digit siblings {a2,aa1,b9} -- a name followed by a character that sorts below ':' --, repeats and overrides, per-entry unleveled defaults, optional map default set at a generated position) through one of five construction routes (.min_level() calls in the given order, min_by_path_filter(iter), iter.collect(), MinLevelPathMap::from_iter(iter), or from_iter over a prefix followed by further .min_level()/.default_min_level() calls), and built a second time from the last-wins de-duplicated registrations in a generated permutation; 1-4 queries (module derived from a registered path by truncation, sibling substitution and extension, or free) x level value are judged against a linear-scan reference and the two builds must agree; (c) the same at level types u8 and a custom Sev(i64); (d) every configuration {unregistered, min Debug, min Error}^6 over the paths a, aa, a::a, a::aa, aa::a, a::a::a x default {none, Warn} x registration order {forward, reverse} x family {aa, a2 in place of aa} x route {.min_level(), min_by_path_filter}, each queried with all 14 modules of depth <=3 over the family's two names x 4 levels. Non-trivial = a map query whose module has >=2 distinct registered paths as textual prefixes (filters: level from non-canonical text / non-text value, or unleveled event with a configured default).";

fn level_text() -> impl Strategy<Value = String> {
    const NAMES: [&str; 8] = ["information", "debug", "dbg", "error", "warning", "wrn", "informations", "errors"];
    const TAILS: [&str; 10] = ["", "", "1", "(13)", " 4", "-x", "\u{1}", "é", "!", " warn"];
    const PADS: [&str; 4] = ["", " ", "\t", "\n "];
    let named = (0usize..8, 0usize..12, any::<u16>(), 0usize..10, 0usize..4, 0usize..4).prop_map(|(n, len, mask, tail, l, r)| {
        let name = NAMES[n];
        let len = 1 + len % name.len();
        let body: String = name[..len]
            .chars()
            .enumerate()
            .map(|(i, c)| if mask >> (i % 16) & 1 == 1 { c.to_ascii_uppercase() } else { c })
            .collect();
        format!("{}{}{}{}", PADS[l], body, TAILS[tail], PADS[r])
    });
    let junk = prop::collection::vec(
        prop::sample::select(vec!['i', 'n', 'f', 'o', 'd', 'e', 'b', 'u', 'g', 'w', 'a', 'r', 'E', 'W', '1', '(', ' ', '\u{1}', 'é', 't']),
        0..6,
    )
    .prop_map(|v| v.into_iter().collect::<String>());
    let canonical = prop::sample::select(vec!["debug", "info", "warn", "error", "DEBUG", "INFO", "WARN", "ERROR"]).prop_map(|s| s.to_string());
    prop_oneof![6 => named, 2 => junk, 2 => canonical]
}

fn lvl_val(max_int: i64) -> impl Strategy<Value = LvlVal> {
    prop_oneof![
        3 => Just(LvlVal::Absent),
        3 => (0u8..4).prop_map(LvlVal::Typed),
        1 => (0u8..4).prop_map(LvlVal::Display),
        1 => (0u8..4).prop_map(LvlVal::Debug),
        6 => level_text().prop_map(LvlVal::Text),
        1 => level_text().prop_map(LvlVal::DisplayText),
        2 => prop_oneof![0..=max_int, -3i64..300, any::<i64>()].prop_map(LvlVal::I64),
        1 => prop_oneof![0u64..8, any::<u64>()].prop_map(LvlVal::U64),
        1 => any::<bool>().prop_map(LvlVal::Bool),
        1 => (0u8..6).prop_map(LvlVal::Float),
        1 => Just(LvlVal::Null),
    ]
}

/// level values for the numeric level types: mostly small integers and absence
fn lvl_val_numeric() -> impl Strategy<Value = LvlVal> {
    prop_oneof![
        3 => Just(LvlVal::Absent),
        8 => (0i64..8).prop_map(LvlVal::I64),
        2 => (0u64..8).prop_map(LvlVal::U64),
        1 => lvl_val(7),
    ]
}

fn ev_level(v: impl Strategy<Value = LvlVal> + Clone) -> impl Strategy<Value = EvLevel> {
    (v.clone(), prop_oneof![4 => Just(None), 1 => v.prop_map(Some)], any::<bool>()).prop_map(|(lvl, dup, noise)| EvLevel { lvl, dup, noise })
}

fn filt(max: u8) -> impl Strategy<Value = Filt> {
    (0..max, prop_oneof![2 => Just(None), 1 => (0..max).prop_map(Some)]).prop_map(|(min, unleveled)| Filt { min, unleveled })
}

/// One segment. Biased towards the prefix-sharing family a / aa / ab / a_ and its digit siblings a2 / aa1 (a name
/// followed by a character that sorts below ':'); with `invalid`, also names followed by `-`, `.`, `$`.
fn seg(invalid: bool) -> BoxedStrategy<u8> {
    if invalid {
        prop_oneof![4 => Just(0u8), 2 => Just(6u8), 2 => Just(1u8), 1 => 2u8..9, 3 => 9u8..12].boxed()
    } else {
        prop_oneof![6 => Just(0u8), 4 => Just(6u8), 3 => Just(1u8), 2 => Just(7u8), 1 => Just(2u8), 1 => Just(8u8), 2 => 3u8..6].boxed()
    }
}

fn path(max_depth: usize, invalid: bool) -> impl Strategy<Value = Vec<u8>> {
    prop::collection::vec(seg(invalid), 1..=max_depth)
}

fn regs(invalid: bool) -> impl Strategy<Value = Vec<Reg>> {
    // a pool of a few paths, registrations draw from the pool (so repeats/overrides are frequent)
    (prop::collection::vec(path(4, invalid), 1..5), prop::collection::vec((any::<u32>(), 0u8..3), 0..=10)).prop_flat_map(move |(pool, picks)| {
        let n = picks.len();
        (Just(pool), Just(picks), prop::collection::vec(path(4, invalid), n), prop::collection::vec(any::<bool>(), n))
    })
    .prop_map(|(mut pool, picks, fresh, use_fresh)| {
        // the pool also holds the ancestors of its paths, so that nested registrations (and modules with several
        // registered textual prefixes) stay frequent although the alphabet is wider
        for p in pool.clone() {
            for d in 1..p.len() {
                pool.push(p[..d].to_vec());
            }
        }
        picks
            .iter()
            .enumerate()
            .map(|(i, (p, flavor))| Reg {
                path: if use_fresh[i] { fresh[i].clone() } else { pool[vcore::pick(*p, pool.len())].clone() },
                filt: Filt { min: 0, unleveled: None },
                flavor: *flavor,
            })
            .collect::<Vec<Reg>>()
    })
}

fn module_spec(invalid: bool) -> impl Strategy<Value = ModuleSpec> {
    prop_oneof![
        1 => path(4, invalid).prop_map(ModuleSpec::Free),
        5 => (any::<u32>(), 1u8..=4, prop_oneof![2 => Just(None), 1 => seg(invalid).prop_map(Some)], prop::collection::vec(seg(invalid), 0..=2))
            .prop_map(|(reg, keep, sibling, extra)| ModuleSpec::Related { reg, keep, sibling, extra }),
    ]
}

fn map_case(max: u8, numeric: bool) -> impl Strategy<Value = MapCase> {
    // 4 % of the cases use the alphabet with invalid identifiers (executed, nothing asserted)
    prop::bool::weighted(0.04).prop_flat_map(move |invalid| map_case_over(max, numeric, invalid))
}

fn map_case_over(max: u8, numeric: bool, invalid: bool) -> impl Strategy<Value = MapCase> {
    let lv = if numeric { lvl_val_numeric().boxed() } else { lvl_val(3).boxed() };
    (
        regs(invalid),
        prop::collection::vec(filt(max), 10),
        prop_oneof![1 => Just(None), 1 => filt(max).prop_map(Some)],
        (any::<u32>(), any::<u32>()),
        // construction route of the first build: min_level 25 %, min_by_path_filter 25 %, collect 15 %, from_iter 15 %, mix 20 %
        (prop_oneof![5 => Just(1u8), 5 => Just(2u8), 3 => Just(3u8), 3 => Just(4u8), 4 => Just(5u8)], any::<u32>()),
        prop::collection::vec(any::<u32>(), 10),
        prop::collection::vec((module_spec(invalid), 0u8..3, ev_level(lv)), 1..=4),
    )
        .prop_map(|(mut regs, filts, default, default_at, (route, mix_at), perm, queries)| {
            for (r, f) in regs.iter_mut().zip(filts) {
                r.filt = f;
            }
            MapCase {
                regs,
                default,
                default_at,
                from_iter: route != 1,
                perm,
                queries: queries.into_iter().map(|(module, mflavor, ev)| Query { module, mflavor, ev }).collect(),
                route,
                mix_at,
            }
        })
}

fn filter_case(max: u8, numeric: bool) -> impl Strategy<Value = FilterCase> {
    let lv = if numeric { lvl_val_numeric().boxed() } else { lvl_val(3).boxed() };
    (filt(max), ev_level(lv), 0u8..3).prop_map(|(filt, ev, ctor)| FilterCase { filt, ev, ctor })
}

fn main() {
    vcore::run(
        "C17",
        VLevel::Exploration,
        RULE,
        &[
            "an event whose `lvl` value has no recognisable level (text rejected by the documented lenient rule, numbers, bools, null) counts as an event without a level: the filter's unleveled default, else Info, applies",
            "the lenient rule is applied to the text the value displays (integers, floats and bools included: `inf` therefore reads as Info); texts whose unmatched tail contains control or non-ASCII characters are left open (don't-care), as in C15",
            "registering the same path again replaces its earlier minimum (last registration wins); permutation invariance is asserted for the last-wins de-duplicated registrations",
            "behaviour on invalid paths is documented as undefined (may panic or give unexpected results): the 4 % of map cases whose alphabet contains names followed by `-`, `.` or `$` are executed but nothing is asserted about them; among the characters that sort below ':' only digits can appear in a valid path, and those are asserted",
            "several registrations of one path inside ONE iterator handed to min_by_path_filter / collect / from_iter behave like repeated min_level calls (last wins): that is what the unchanged tree does (from_iter is a loop over min_level) and what the docs of min_level imply",
            "at level types other than Level (u8, custom Sev) only absent values and in-range integers have a defined level; every other value is don't-care (totality only)",
        ],
        |s| {
            s.require("module:>=2-registered-textual-prefixes", 50_000);
            s.require("module:textual-prefix-that-is-not-an-ancestor", 50_000);
            s.require("module:>=2-registered-ancestors", 25_000);
            s.require("overriding-registration", 80_000);
            s.require("second-build-permuted", 80_000);
            s.require("governed-by:map-default", 40_000);
            s.require("governed-by:nothing(accept)", 40_000);
            s.require("governed-by:registered-path", 100_000);
            s.require("unleveled-event-with-default", 10_000);
            s.require("lvl:text-must-accept", 60_000);
            s.require("lvl:text-must-reject", 20_000);
            s.require("lvl:integer", 50_000);
            s.require("outcome:accept", 100_000);
            s.require("outcome:reject", 100_000);
            s.require("route:min_level", 50_000);
            s.require("route:min_by_path_filter", 30_000);
            s.require("route:collect", 30_000);
            s.require("route:from-iter", 30_000);
            s.require("route:mix", 40_000);
            s.require("siblings:one-is-other-plus-char-below-colon", 50_000);
            s.require("siblings:one-is-other-plus-char-below-colon-with-descendant-of-shorter", 20_000);
            s.require("route:iterator-built+siblings-below-colon-with-descendant", 15_000);

            s.gen("min-level-filter", s.n(1_500_000, 30_000_000), || filter_case(4, false), check_level_filter_case);
            s.gen("min-level-filter-u8", s.n(300_000, 5_000_000), || filter_case(8, true), |c, cx| {
                cx.nontrivial(c.filt.unleveled.is_some() && c.ev.lvl == LvlVal::Absent);
                check_filter_case::<u8>(c, cx)
            });
            s.gen("min-level-filter-custom", s.n(300_000, 5_000_000), || filter_case(8, true), |c, cx| {
                cx.nontrivial(c.filt.unleveled.is_some() && c.ev.lvl == LvlVal::Absent);
                check_filter_case::<Sev>(c, cx)
            });
            s.gen("path-map", s.n(2_000_000, 40_000_000), || map_case(4, false), check_map_case::<Level>);
            s.gen("path-map-u8", s.n(400_000, 8_000_000), || map_case(8, true), check_map_case::<u8>);
            s.gen("path-map-custom", s.n(400_000, 8_000_000), || map_case(8, true), check_map_case::<Sev>);
            // artifacts of the libFuzzer target `level_path_map` (engine E6) are replayed through the same entry
            s.manual("fuzz-artifact", Vec::<Vec<u8>>::new(), |bytes, cx| {
                cx.nontrivial(true);
                match fuzz_entry(bytes) {
                    Ok(()) => Ok(()),
                    Err(f) => cx.fail(f.sig, format!("{}; decoded case: {:?}", f.msg, c17::fuzz::decode(bytes))),
                }
            });
            s.enumerate(
                "path-map-small-scope",
                (0u16..729).flat_map(|config| {
                    [(false, false), (false, true), (true, false), (true, true)].into_iter().flat_map(move |(default_warn, reverse)| {
                        [(0u8, 0u8), (0, 1), (1, 0), (1, 1)]
                            .into_iter()
                            .map(move |(family, route)| SmallMap { config, default_warn, reverse, family, route })
                    })
                }),
                check_small_map,
            );
        },
    )
}
