// stub: check for C17 not built yet
fn main() {
    eprintln!("C17: check not built yet");
    std::process::exit(2);
}
