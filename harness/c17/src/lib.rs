//! C17 — level filtering follows the most specific module rule: model, reference and drivers.
//!
//! Reference, from the property text:
//!  * the event's level = lenient parse of the `lvl` value's text, else (no recognisable level) the
//!    filter's `treat_unleveled_as` default, else the level type's default (Info);
//!  * `MinLevelFilter` accepts iff that level >= min;
//!  * `MinLevelPathMap`: the filter registered for the LONGEST registered path that equals the module or
//!    is followed by `::` in it (linear scan over all registrations, the last registration of a path
//!    wins); none → the map default; none → accept.

use std::sync::OnceLock;

use emit::level::{MinLevelFilter, MinLevelPathMap};
use emit::value::FromValue;
use emit::{Filter, Level, Path, Value};
use serde::{Deserialize, Serialize};
use vcore::{catch, pick, vassert, Cx, Res};

// ---------------------------------------------------------------------------------------------
// Paths

/// Segment names. 0..6: the prefix-related family; 6..9: an existing name followed by a DIGIT (the only
/// characters valid in an identifier that sort below `:`, so whole-path string order and per-node segment order
/// disagree: `a::x` < `a2` < `a::x`...); 9..12: an existing name followed by another character below `:` -- these
/// are NOT valid identifiers, paths containing them are invalid and their behaviour is documented as undefined.
pub const SEGS: [&str; 12] = ["a", "aa", "b", "ab", "a_", "é", "a2", "aa1", "b9", "a-2", "a.x", "a$"];
/// segments `0..N_VALID` are valid identifiers
pub const N_VALID: u8 = 9;
pub const MAX_DEPTH: usize = 6;
/// all paths up to this depth are pre-built `&'static str`s; deeper ones are interned on demand
const POOL_DEPTH: usize = 4;

pub fn path_valid(p: &[u8]) -> bool {
    p.iter().all(|s| *s % (SEGS.len() as u8) < N_VALID)
}

pub fn path_text(p: &[u8]) -> String {
    p.iter().map(|s| SEGS[*s as usize % SEGS.len()]).collect::<Vec<_>>().join("::")
}

/// Every path up to `POOL_DEPTH` segments as a leaked `&'static str` (bounded: 22 620 strings, built once).
fn static_pool() -> &'static Vec<Vec<&'static str>> {
    static POOL: OnceLock<Vec<Vec<&'static str>>> = OnceLock::new();
    POOL.get_or_init(|| {
        let mut by_depth: Vec<Vec<&'static str>> = vec![vec![""]];
        for d in 1..=POOL_DEPTH {
            let mut level = Vec::with_capacity(SEGS.len().pow(d as u32));
            for prefix in &by_depth[d - 1] {
                for seg in SEGS {
                    let s = if d == 1 { seg.to_string() } else { format!("{prefix}::{seg}") };
                    level.push(&*Box::leak(s.into_boxed_str()));
                }
            }
            by_depth.push(level);
        }
        by_depth
    })
}

pub fn static_path(p: &[u8]) -> &'static str {
    assert!(!p.is_empty() && p.len() <= MAX_DEPTH);
    if p.len() > POOL_DEPTH {
        // deep module paths: interned on demand (bounded by the number of distinct paths ever asked for)
        static DEEP: OnceLock<std::sync::Mutex<std::collections::HashMap<Vec<u8>, &'static str>>> = OnceLock::new();
        let mut deep = DEEP.get_or_init(Default::default).lock().unwrap();
        let key: Vec<u8> = p.iter().map(|s| *s % SEGS.len() as u8).collect();
        if let Some(s) = deep.get(&key) {
            return s;
        }
        let s: &'static str = Box::leak(path_text(p).into_boxed_str());
        deep.insert(key, s);
        return s;
    }
    let mut idx = 0usize;
    for s in p {
        idx = idx * SEGS.len() + (*s as usize % SEGS.len());
    }
    let s = static_pool()[p.len()][idx];
    debug_assert_eq!(s, path_text(p));
    s
}

/// reference ancestor-or-self test at `::` boundaries
pub fn ref_is_child_of(module: &str, parent: &str) -> bool {
    module == parent || (module.len() > parent.len() && module.starts_with(parent) && module[parent.len()..].starts_with("::"))
}

// ---------------------------------------------------------------------------------------------
// Level values

/// What the documented grammar says about a text.
#[derive(Debug, Clone, PartialEq)]
pub enum Class<T> {
    MustAccept(T),
    MustReject,
    DontCare,
}

/// The documented lenient level rule (copied from the C15 reference recogniser): ignoring surrounding
/// whitespace, the leading run of ASCII letters must be a non-empty, case-insensitive prefix of a level
/// name; unmatched trailing characters must not be ASCII control characters. Levels are 0=Debug 1=Info
/// 2=Warn 3=Error.
pub fn ref_level(s: &str) -> Class<u8> {
    let t = s.trim();
    let letters: String = t.chars().take_while(|c| c.is_ascii_alphabetic()).collect();
    let tail = &t[letters.len()..];
    if letters.is_empty() {
        return Class::MustReject;
    }
    let up = letters.to_ascii_uppercase();
    let names: [(&str, u8); 6] = [("INFORMATION", 1), ("DEBUG", 0), ("DBG", 0), ("ERROR", 3), ("WARNING", 2), ("WRN", 2)];
    let hit = names.iter().find(|(n, _)| n.starts_with(&up)).map(|(_, l)| *l);
    match hit {
        None => Class::MustReject,
        Some(l) => {
            if tail.chars().all(|c| c.is_ascii() && !c.is_ascii_control()) {
                Class::MustAccept(l)
            } else {
                // control or non-ASCII characters in the unmatched tail: the documentation only promises
                // acceptance for non-control tails; how deep the parser looks is open
                Class::DontCare
            }
        }
    }
}

pub const FLOATS: [f64; 6] = [0.0, 1.5, f64::INFINITY, f64::NEG_INFINITY, f64::NAN, 3.0];

/// The `lvl` property of the event.
#[derive(Serialize, Deserialize, Debug, Clone, PartialEq)]
pub enum LvlVal {
    Absent,
    /// the typed level, captured (downcastable)
    Typed(u8),
    /// the typed level behind `Value::from_display` (not downcastable: goes through its text)
    Display(u8),
    /// the typed level behind `Value::from_debug`
    Debug(u8),
    Text(String),
    /// the text as an owned-display value (`Value::from_display(&String)`) rather than a borrowed str
    DisplayText(String),
    I64(i64),
    U64(u64),
    Bool(bool),
    Float(u8),
    Null,
}

pub fn level_of(i: u8) -> Level {
    match i % 4 {
        0 => Level::Debug,
        1 => Level::Info,
        2 => Level::Warn,
        _ => Level::Error,
    }
}

/// Owns whatever a `Value` borrows.
pub struct ValHolder {
    level: Level,
}

impl ValHolder {
    pub fn new(v: &LvlVal) -> ValHolder {
        ValHolder {
            level: match v {
                LvlVal::Typed(i) | LvlVal::Display(i) | LvlVal::Debug(i) => level_of(*i),
                _ => Level::Info,
            },
        }
    }

    pub fn value<'a>(&'a self, v: &'a LvlVal) -> Option<Value<'a>> {
        Some(match v {
            LvlVal::Absent => return None,
            LvlVal::Typed(_) => Value::capture_display(&self.level),
            LvlVal::Display(_) => Value::from_display(&self.level),
            LvlVal::Debug(_) => Value::from_debug(&self.level),
            LvlVal::Text(s) => Value::from(&**s),
            LvlVal::DisplayText(s) => Value::from_display(s),
            LvlVal::I64(v) => Value::from(*v),
            LvlVal::U64(v) => Value::from(*v),
            LvlVal::Bool(v) => Value::from(*v),
            LvlVal::Float(i) => Value::from(FLOATS[*i as usize % FLOATS.len()]),
            LvlVal::Null => Value::null(),
        })
    }
}

/// The text a value presents (what a lenient parser gets to see).
pub fn val_text(v: &LvlVal) -> Option<String> {
    Some(match v {
        LvlVal::Absent => return None,
        LvlVal::Typed(i) | LvlVal::Display(i) | LvlVal::Debug(i) => ["debug", "info", "warn", "error"][(*i % 4) as usize].to_string(),
        LvlVal::Text(s) | LvlVal::DisplayText(s) => s.clone(),
        LvlVal::I64(v) => v.to_string(),
        LvlVal::U64(v) => v.to_string(),
        LvlVal::Bool(v) => v.to_string(),
        LvlVal::Float(i) => FLOATS[*i as usize % FLOATS.len()].to_string(),
        LvlVal::Null => "None".to_string(),
    })
}

/// The level type a filter is instantiated at.
pub trait Lvl: for<'a> FromValue<'a> + Ord + Default + Sized + 'static {
    const NAME: &'static str;
    /// index of `Self::default()` on the model scale
    const DEFAULT: u8;
    fn of(i: u8) -> Self;
    /// the event's level on the model scale: `Some(Some(l))` recognised, `Some(None)` no recognisable
    /// level (unleveled), `None` = the property leaves it open
    fn ref_event_level(v: &LvlVal) -> Option<Option<u8>>;
    /// `emit::level::min_by_path_filter` only exists at `Level`; `None` elsewhere
    fn min_by_path_filter(items: Vec<(Path<'static>, MinLevelFilter<Self>)>) -> Option<MinLevelPathMap<Self>> {
        let _ = items;
        None
    }
}

impl Lvl for Level {
    const NAME: &'static str = "Level";
    const DEFAULT: u8 = 1;
    fn of(i: u8) -> Level {
        level_of(i)
    }
    fn ref_event_level(v: &LvlVal) -> Option<Option<u8>> {
        match v {
            LvlVal::Absent => Some(None),
            LvlVal::Typed(i) => Some(Some(*i % 4)),
            other => match ref_level(&val_text(other).unwrap()) {
                Class::MustAccept(l) => Some(Some(l)),
                Class::MustReject => Some(None),
                Class::DontCare => None,
            },
        }
    }
    fn min_by_path_filter(items: Vec<(Path<'static>, MinLevelFilter<Level>)>) -> Option<MinLevelPathMap<Level>> {
        Some(emit::level::min_by_path_filter(items))
    }
}

impl Lvl for u8 {
    const NAME: &'static str = "u8";
    const DEFAULT: u8 = 0;
    fn of(i: u8) -> u8 {
        i
    }
    fn ref_event_level(v: &LvlVal) -> Option<Option<u8>> {
        match v {
            LvlVal::Absent => Some(None),
            // an integer that fits the level type is that level (the repository's own tests pass i32
            // literals to a u8 filter); anything else is left open by the property
            LvlVal::I64(v) if (0..=255).contains(v) => Some(Some(*v as u8)),
            LvlVal::U64(v) if *v <= 255 => Some(Some(*v as u8)),
            _ => None,
        }
    }
}

/// A level type of our own: wraps an i64, default 3, only reads integer values.
#[derive(Debug, Clone, Copy, PartialEq, Eq, PartialOrd, Ord)]
pub struct Sev(pub i64);
impl Default for Sev {
    fn default() -> Sev {
        Sev(3)
    }
}
impl<'v> FromValue<'v> for Sev {
    fn from_value(value: Value<'v>) -> Option<Sev> {
        value.cast::<i64>().map(Sev)
    }
}
impl Lvl for Sev {
    const NAME: &'static str = "Sev";
    const DEFAULT: u8 = 3;
    fn of(i: u8) -> Sev {
        Sev(i as i64)
    }
    fn ref_event_level(v: &LvlVal) -> Option<Option<u8>> {
        match v {
            LvlVal::Absent => Some(None),
            LvlVal::I64(v) if (0..=255).contains(v) => Some(Some(*v as u8)),
            _ => None,
        }
    }
}

// ---------------------------------------------------------------------------------------------
// Filters

#[derive(Serialize, Deserialize, Debug, Clone, PartialEq)]
pub struct Filt {
    pub min: u8,
    pub unleveled: Option<u8>,
}

pub fn mk_filter<L: Lvl>(f: &Filt) -> MinLevelFilter<L> {
    let m = MinLevelFilter::new(L::of(f.min));
    match f.unleveled {
        Some(u) => m.treat_unleveled_as(L::of(u)),
        None => m,
    }
}

/// `None` = open.
pub fn ref_accepts<L: Lvl>(f: &Filt, lvl: &LvlVal) -> Option<bool> {
    let l = L::ref_event_level(lvl)?;
    Some(l.or(f.unleveled).unwrap_or(L::DEFAULT) >= f.min)
}

/// The event's `lvl` entries: the first one counts (Props contract), `dup` is a later, shadowed one.
#[derive(Serialize, Deserialize, Debug, Clone)]
pub struct EvLevel {
    pub lvl: LvlVal,
    pub dup: Option<LvlVal>,
    /// an unrelated property placed before `lvl`
    pub noise: bool,
}

fn with_event<R>(module: &Path<'_>, ev: &EvLevel, f: impl FnOnce(&emit::Event<'_, &[(&str, Value<'_>)]>) -> R) -> R {
    let h1 = ValHolder::new(&ev.lvl);
    let dup = ev.dup.clone().unwrap_or(LvlVal::Absent);
    let h2 = ValHolder::new(&dup);
    let mut props: Vec<(&str, Value<'_>)> = Vec::new();
    if ev.noise {
        props.push(("level", Value::from("error")));
    }
    if let Some(v) = h1.value(&ev.lvl) {
        props.push((emit::well_known::KEY_LVL, v));
        if let Some(v2) = h2.value(&dup) {
            props.push((emit::well_known::KEY_LVL, v2));
        }
    }
    let evt = emit::Event::new(module.by_ref(), emit::Template::literal("c17"), emit::Empty, &props[..]);
    f(&evt)
}

fn classify_level(cx: &mut Cx, v: &LvlVal) {
    cx.class(match v {
        LvlVal::Absent => "lvl:absent",
        LvlVal::Typed(_) => "lvl:typed",
        LvlVal::Display(_) | LvlVal::Debug(_) => "lvl:typed-as-text",
        LvlVal::Text(_) | LvlVal::DisplayText(_) => "lvl:text",
        LvlVal::I64(_) | LvlVal::U64(_) => "lvl:integer",
        LvlVal::Bool(_) => "lvl:bool",
        LvlVal::Float(_) => "lvl:float",
        LvlVal::Null => "lvl:null",
    });
    if let LvlVal::Text(s) | LvlVal::DisplayText(s) = v {
        match ref_level(s) {
            Class::MustAccept(_) => cx.class("lvl:text-must-accept"),
            Class::MustReject => cx.class("lvl:text-must-reject"),
            Class::DontCare => cx.class("lvl:text-open"),
        }
    }
}

#[derive(Serialize, Deserialize, Debug, Clone)]
pub struct FilterCase {
    pub filt: Filt,
    pub ev: EvLevel,
    /// 0 = MinLevelFilter::new, 1 = emit::level::min_filter, 2 = From<Level>
    pub ctor: u8,
}

pub fn check_filter_case<L: Lvl>(c: &FilterCase, cx: &mut Cx) -> Res {
    classify_level(cx, &c.ev.lvl);
    let want = ref_accepts::<L>(&c.filt, &c.ev.lvl);
    let module = Path::new_raw("c17::m");
    let filter: MinLevelFilter<L> = mk_filter::<L>(&c.filt);
    let got = catch(|| with_event(&module, &c.ev, |evt| (filter.matches(evt), (&filter).matches(evt))));
    let (got, got_ref) = match got {
        Ok(g) => g,
        Err(p) => return cx.fail("filter/panics", format!("MinLevelFilter<{}>::matches panicked: {} for {c:?}", L::NAME, p.msg)),
    };
    vassert!(cx, got == got_ref, "filter/by-ref-differs", "matches() through &filter differs for {c:?}");
    cx.class_if(c.filt.unleveled.is_some(), "filter:with-unleveled-default");
    match want {
        None => {
            cx.dont_care();
            cx.class("outcome:open");
        }
        Some(w) => {
            cx.class(if w { "outcome:accept" } else { "outcome:reject" });
            cx.class_if(L::ref_event_level(&c.ev.lvl) == Some(None) && c.filt.unleveled.is_some(), "unleveled-event-with-default");
            vassert!(
                cx,
                got == w,
                if w { "filter/rejects-qualifying-event" } else { "filter/accepts-below-minimum" },
                "MinLevelFilter<{}> {:?} on lvl {:?} (text {:?}): got {got}, reference {w}",
                L::NAME,
                c.filt,
                c.ev.lvl,
                val_text(&c.ev.lvl)
            );
        }
    }
    Ok(())
}

/// Level-typed filter through all three constructors (they must agree).
pub fn check_level_filter_case(c: &FilterCase, cx: &mut Cx) -> Res {
    // non-trivial: the level comes from text that is not one of the four canonical names, or the event
    // is unleveled and a default is configured
    let nt = match &c.ev.lvl {
        LvlVal::Text(s) | LvlVal::DisplayText(s) => !["debug", "info", "warn", "error"].contains(&s.as_str()),
        LvlVal::Absent => c.filt.unleveled.is_some(),
        LvlVal::Typed(_) => false,
        _ => true,
    };
    cx.nontrivial(nt);
    check_filter_case::<Level>(c, cx)?;
    if c.filt.unleveled.is_none() && c.ctor % 3 != 0 {
        let f = if c.ctor % 3 == 1 { emit::level::min_filter(level_of(c.filt.min)) } else { MinLevelFilter::from(level_of(c.filt.min)) };
        let module = Path::new_raw("c17::m");
        let got = with_event(&module, &c.ev, |evt| f.matches(evt));
        if let Some(w) = ref_accepts::<Level>(&c.filt, &c.ev.lvl) {
            vassert!(cx, got == w, "filter/constructor-differs", "min_filter/From<Level> filter gives {got}, reference {w} for {c:?}");
        }
    }
    Ok(())
}

// ---------------------------------------------------------------------------------------------
// Path maps

#[derive(Serialize, Deserialize, Debug, Clone)]
pub struct Reg {
    pub path: Vec<u8>,
    pub filt: Filt,
    /// 0 = Path::new_raw(static), 1 = Path::new_owned, 2 = Path::new(static) (validated)
    pub flavor: u8,
}

#[derive(Serialize, Deserialize, Debug, Clone)]
pub enum ModuleSpec {
    Free(Vec<u8>),
    /// derived from registration `reg`: keep its first `keep` segments, optionally swap the last kept
    /// one for another segment (prefix-sharing siblings), append `extra`
    Related { reg: u32, keep: u8, sibling: Option<u8>, extra: Vec<u8> },
}

#[derive(Serialize, Deserialize, Debug, Clone)]
pub struct Query {
    pub module: ModuleSpec,
    /// 0 = static, 1 = borrowed, 2 = owned
    pub mflavor: u8,
    pub ev: EvLevel,
}

#[derive(Serialize, Deserialize, Debug, Clone)]
pub struct MapCase {
    pub regs: Vec<Reg>,
    pub default: Option<Filt>,
    /// where in the registration sequence `default_min_level` is called (first / second build)
    pub default_at: (u32, u32),
    pub from_iter: bool,
    /// permutation of the (last-wins de-duplicated) registrations for the second build
    pub perm: Vec<u32>,
    pub queries: Vec<Query>,
    /// construction route of the FIRST build: 0 = legacy (`from_iter` decides between 2 and 1), 1 = `.min_level()`
    /// calls in the given order, 2 = `min_by_path_filter(iter)`, 3 = `iter.collect::<MinLevelPathMap<_>>()`,
    /// 4 = `MinLevelPathMap::from_iter(iter)`, 5 = mix: `from_iter` over the first `mix_at` registrations, then
    /// `.default_min_level()` / `.min_level()` for the rest
    #[serde(default)]
    pub route: u8,
    #[serde(default)]
    pub mix_at: u32,
}

#[derive(Debug, Clone, Copy, PartialEq, Eq)]
pub enum Route {
    MinLevel,
    MinByPathFilter,
    Collect,
    FromIter,
    Mix,
}

impl MapCase {
    pub fn route(&self) -> Route {
        match (self.route % 6, self.from_iter) {
            (0, false) | (1, _) => Route::MinLevel,
            (0, true) | (2, _) => Route::MinByPathFilter,
            (3, _) => Route::Collect,
            (4, _) => Route::FromIter,
            _ => Route::Mix,
        }
    }
}

pub fn module_of(regs: &[Reg], m: &ModuleSpec) -> Vec<u8> {
    let mut out = match m {
        ModuleSpec::Free(p) => p.clone(),
        ModuleSpec::Related { reg, keep, sibling, extra } => {
            if regs.is_empty() {
                extra.clone()
            } else {
                let base = &regs[pick(*reg, regs.len())].path;
                let keep = (*keep as usize).clamp(1, base.len());
                let mut p: Vec<u8> = base[..keep].to_vec();
                if let Some(s) = sibling {
                    *p.last_mut().unwrap() = *s;
                }
                p.extend(extra.iter().copied());
                p
            }
        }
    };
    if out.is_empty() {
        out.push(0);
    }
    out.truncate(MAX_DEPTH);
    out
}

/// Linear-scan reference: the filter that governs `module`.
pub fn ref_lookup<'a>(regs: &'a [Reg], default: Option<&'a Filt>, module: &str) -> Option<&'a Filt> {
    let mut best: Option<(usize, &Filt)> = None;
    for r in regs {
        let p = path_text(&r.path);
        if ref_is_child_of(module, &p) && best.map_or(true, |(l, _)| p.len() >= l) {
            best = Some((p.len(), &r.filt));
        }
    }
    best.map(|(_, f)| f).or(default)
}

fn reg_path(r: &Reg) -> Path<'static> {
    let valid = path_valid(&r.path);
    match (r.flavor % 3, valid) {
        (0, _) | (2, false) => Path::new_raw(static_path(&r.path)),
        (1, true) => Path::new_owned(path_text(&r.path)).expect("generated paths are valid"),
        (1, false) => Path::new_owned_raw(path_text(&r.path)),
        _ => Path::new(static_path(&r.path)).expect("generated paths are valid"),
    }
}

fn items<L: Lvl>(regs: &[&Reg]) -> Vec<(Path<'static>, MinLevelFilter<L>)> {
    regs.iter().map(|r| (reg_path(r), mk_filter::<L>(&r.filt))).collect()
}

/// Build through `route`. Returns the map and the route really taken (`min_by_path_filter` only exists at `Level`).
fn build_route<L: Lvl>(regs: &[&Reg], default: Option<&Filt>, default_at: u32, route: Route, mix_at: u32) -> (MinLevelPathMap<L>, Route) {
    use std::iter::FromIterator;
    let with_default = |mut map: MinLevelPathMap<L>| {
        if let Some(d) = default {
            map.default_min_level(mk_filter::<L>(d));
        }
        map
    };
    match route {
        Route::MinLevel => (build::<L>(regs, default, default_at, false), Route::MinLevel),
        Route::MinByPathFilter => match L::min_by_path_filter(items::<L>(regs)) {
            Some(map) => (with_default(map), Route::MinByPathFilter),
            None => (with_default(items::<L>(regs).into_iter().collect::<MinLevelPathMap<L>>()), Route::Collect),
        },
        Route::Collect => (with_default(items::<L>(regs).into_iter().collect::<MinLevelPathMap<L>>()), Route::Collect),
        Route::FromIter => (with_default(MinLevelPathMap::<L>::from_iter(items::<L>(regs))), Route::FromIter),
        Route::Mix => {
            let k = pick(mix_at, regs.len() + 1);
            let mut map = MinLevelPathMap::<L>::from_iter(items::<L>(&regs[..k]));
            // default before or after the remaining registrations, by `default_at`
            let default_first = default_at & 1 == 0;
            if let (Some(d), true) = (default, default_first) {
                map.default_min_level(mk_filter::<L>(d));
            }
            for r in &regs[k..] {
                map.min_level(reg_path(r), mk_filter::<L>(&r.filt));
            }
            if let (Some(d), false) = (default, default_first) {
                map.default_min_level(mk_filter::<L>(d));
            }
            (map, Route::Mix)
        }
    }
}

fn build<L: Lvl>(regs: &[&Reg], default: Option<&Filt>, default_at: u32, from_iter: bool) -> MinLevelPathMap<L> {
    if from_iter {
        build_route::<L>(regs, default, default_at, Route::MinByPathFilter, 0).0
    } else {
        let mut map = MinLevelPathMap::<L>::new();
        let at = pick(default_at, regs.len() + 1);
        for (i, r) in regs.iter().enumerate() {
            if i == at {
                if let Some(d) = default {
                    map.default_min_level(mk_filter::<L>(d));
                }
            }
            map.min_level(reg_path(r), mk_filter::<L>(&r.filt));
        }
        if at == regs.len() {
            if let Some(d) = default {
                map.default_min_level(mk_filter::<L>(d));
            }
        }
        map
    }
}

pub fn check_map_case<L: Lvl>(c: &MapCase, cx: &mut Cx) -> Res {
    let regs_all: Vec<&Reg> = c.regs.iter().collect();
    // last registration per path wins; the survivors, in first-seen order of their LAST occurrence
    let mut dedup: Vec<&Reg> = Vec::new();
    let mut overridden = false;
    for (i, r) in c.regs.iter().enumerate() {
        let later: Vec<&Reg> = c.regs[i + 1..].iter().filter(|o| o.path == r.path).collect();
        overridden |= later.iter().any(|o| o.filt != r.filt);
        if later.is_empty() {
            dedup.push(r);
        }
    }
    cx.class_if(overridden, "overriding-registration");
    cx.class_if(c.regs.len() != dedup.len(), "repeated-registration");
    cx.class_if(c.default.is_some(), "map:with-default");
    cx.class_if(c.regs.is_empty(), "map:empty");
    // trie nodes = every prefix of a registered path; siblings where one name is the other plus a character
    // that sorts below ':' are where whole-path string order and per-node segment order disagree
    let mut nodes: Vec<&[u8]> = Vec::new();
    for r in &dedup {
        for d in 1..=r.path.len() {
            if !nodes.contains(&&r.path[..d]) {
                nodes.push(&r.path[..d]);
            }
        }
    }
    let seg = |i: u8| SEGS[i as usize % SEGS.len()];
    let mut sib = false;
    let mut sib_desc = false;
    for n in &nodes {
        for m in &nodes {
            let (a, b) = (seg(n[n.len() - 1]), seg(m[m.len() - 1]));
            if n.len() == m.len() && n[..n.len() - 1] == m[..m.len() - 1] && b.len() > a.len() && b.starts_with(a) && b[a.len()..].chars().next().map_or(false, |c| c < ':') {
                sib = true;
                sib_desc |= nodes.iter().any(|d| d.len() > n.len() && d[..n.len()] == **n);
            }
        }
    }
    cx.class_if(sib, "siblings:one-is-other-plus-char-below-colon");
    cx.class_if(sib_desc, "siblings:one-is-other-plus-char-below-colon-with-descendant-of-shorter");
    let regs_valid = c.regs.iter().all(|r| path_valid(&r.path));
    cx.class_if(!regs_valid, "paths:invalid-identifier-registered(open)");
    // second build: the de-duplicated registrations permuted (Fisher-Yates driven by `perm`)
    let mut permuted = dedup.clone();
    for i in 0..permuted.len() {
        let j = i + pick(c.perm.get(i).copied().unwrap_or(0), permuted.len() - i);
        permuted.swap(i, j);
    }
    let is_permuted = permuted.iter().zip(&dedup).any(|(a, b)| !std::ptr::eq(*a, *b));
    cx.class_if(is_permuted, "second-build-permuted");

    let built = catch(|| {
        (
            build_route::<L>(&regs_all, c.default.as_ref(), c.default_at.0, c.route(), c.mix_at),
            build::<L>(&permuted, c.default.as_ref(), c.default_at.1, false),
        )
    });
    let ((map1, route), map2) = match built {
        Ok(m) => m,
        Err(_) if !regs_valid => {
            // invalid paths: "code that uses path segments may panic or produce unexpected results"
            cx.dont_care();
            return Ok(());
        }
        Err(p) => return cx.fail("map/build-panics", format!("building the map panicked: {} for {c:?}", p.msg)),
    };
    cx.class(match route {
        Route::MinLevel => "route:min_level",
        Route::MinByPathFilter => "route:min_by_path_filter",
        Route::Collect => "route:collect",
        Route::FromIter => "route:from-iter",
        Route::Mix => "route:mix",
    });
    cx.class_if(route != Route::MinLevel && sib_desc, "route:iterator-built+siblings-below-colon-with-descendant");

    let mut nontrivial = false;
    for q in &c.queries {
        let mp = module_of(&c.regs, &q.module);
        let mtext = path_text(&mp);
        classify_level(cx, &q.ev.lvl);

        // classification of the module against the registered set
        let distinct: Vec<String> = dedup.iter().map(|r| path_text(&r.path)).collect();
        let textual: Vec<&String> = distinct.iter().filter(|p| mtext.starts_with(p.as_str())).collect();
        let ancestors = distinct.iter().filter(|p| ref_is_child_of(&mtext, p)).count();
        if textual.len() >= 2 {
            nontrivial = true;
            cx.class("module:>=2-registered-textual-prefixes");
        }
        cx.class_if(textual.len() > ancestors, "module:textual-prefix-that-is-not-an-ancestor");
        cx.class_if(ancestors >= 2, "module:>=2-registered-ancestors");
        cx.class_if(ancestors == 0, "module:no-registered-ancestor");
        cx.class_if(distinct.iter().any(|p| *p == mtext), "module:exactly-registered");
        cx.class_if(distinct.iter().any(|p| ref_is_child_of(p, &mtext) && *p != mtext), "module:only-descendants-registered-below");

        let governing = ref_lookup(&c.regs, c.default.as_ref(), &mtext);
        let want = match governing {
            None => Some(true),
            Some(f) => ref_accepts::<L>(f, &q.ev.lvl),
        };
        cx.class(match (governing, ancestors) {
            (None, _) => "governed-by:nothing(accept)",
            (Some(_), 0) => "governed-by:map-default",
            (Some(_), _) => "governed-by:registered-path",
        });

        let valid = regs_valid && path_valid(&mp);
        let owned_text;
        let module: Path<'_> = match (q.mflavor % 3, path_valid(&mp)) {
            (0, _) => Path::new_raw(static_path(&mp)),
            (1, true) => {
                owned_text = mtext.clone();
                Path::new_ref(&owned_text).expect("generated paths are valid")
            }
            (1, false) => {
                owned_text = mtext.clone();
                Path::new_ref_raw(&owned_text)
            }
            (_, true) => Path::new_owned(mtext.clone()).expect("generated paths are valid"),
            (_, false) => Path::new_owned_raw(mtext.clone()),
        };
        if !valid {
            // behaviour on invalid paths is documented as undefined (may even panic): executed, nothing asserted
            let _ = catch(|| with_event(&module, &q.ev, |evt| (map1.matches(evt), map2.matches(evt))));
            cx.dont_care();
            cx.class("outcome:open(invalid-path)");
            continue;
        }

        // is_child_of agrees with the reference for every registered path (the map's documented basis)
        for r in &dedup {
            let p = path_text(&r.path);
            let pp = Path::new_ref(&p).expect("valid");
            let got = module.is_child_of(&pp);
            vassert!(cx, got == ref_is_child_of(&mtext, &p), "path/is-child-of", "{mtext:?}.is_child_of({p:?}) = {got}");
        }

        let got = catch(|| with_event(&module, &q.ev, |evt| (map1.matches(evt), map2.matches(evt))));
        let (g1, g2) = match got {
            Ok(g) => g,
            Err(p) => return cx.fail("map/matches-panics", format!("matches panicked: {} for module {mtext:?} in {c:?}", p.msg)),
        };
        vassert!(
            cx,
            g1 == g2,
            "map/registration-order-changes-outcome",
            "module {mtext:?} lvl {:?}: map built in given order through {route:?} says {g1}, the same registrations (last-wins de-duplicated, permuted: {:?}) say {g2}; regs {:?} default {:?}",
            q.ev.lvl,
            permuted.iter().map(|r| path_text(&r.path)).collect::<Vec<_>>(),
            c.regs.iter().map(|r| (path_text(&r.path), &r.filt)).collect::<Vec<_>>(),
            c.default
        );
        match want {
            None => {
                cx.dont_care();
                cx.class("outcome:open");
            }
            Some(w) => {
                cx.class(if w { "outcome:accept" } else { "outcome:reject" });
                vassert!(
                    cx,
                    g1 == w,
                    if w { "map/rejects-qualifying-event" } else { "map/accepts-below-minimum" },
                    "MinLevelPathMap<{}> built through {route:?}: module {mtext:?} lvl {:?}: got {g1}, reference {w} (governing filter {governing:?}); regs {:?} default {:?}",
                    L::NAME,
                    q.ev.lvl,
                    c.regs.iter().map(|r| (path_text(&r.path), &r.filt)).collect::<Vec<_>>(),
                    c.default
                );
            }
        }
    }
    cx.nontrivial(nontrivial);
    Ok(())
}

// ---------------------------------------------------------------------------------------------
// Small scope: every configuration over six paths

pub const SMALL_PATHS: [&[u8]; 6] = [&[0], &[1], &[0, 0], &[0, 1], &[1, 0], &[0, 0, 0]];

#[derive(Serialize, Deserialize, Debug, Clone)]
pub struct SmallMap {
    /// base-3 digits: per SMALL_PATHS entry 0 = unregistered, 1 = min Debug, 2 = min Error
    pub config: u16,
    pub default_warn: bool,
    pub reverse: bool,
    /// 0 = paths over {a, aa}; 1 = the same shapes over {a, a2} (a name and the name plus a digit)
    #[serde(default)]
    pub family: u8,
    /// 0 = `.min_level()` calls, 1 = `min_by_path_filter`
    #[serde(default)]
    pub route: u8,
}

pub fn check_small_map(c: &SmallMap, cx: &mut Cx) -> Res {
    let mut regs = Vec::new();
    let mut k = c.config;
    // family 1 swaps segment `aa` (1) for `a2` (6)
    let fam = |p: &[u8]| -> Vec<u8> { p.iter().map(|s| if c.family % 2 == 1 && *s == 1 { 6 } else { *s }).collect() };
    for p in SMALL_PATHS {
        match k % 3 {
            1 => regs.push(Reg { path: fam(p), filt: Filt { min: 0, unleveled: None }, flavor: 0 }),
            2 => regs.push(Reg { path: fam(p), filt: Filt { min: 3, unleveled: None }, flavor: 1 }),
            _ => {}
        }
        k /= 3;
    }
    if c.reverse {
        regs.reverse();
    }
    let default = c.default_warn.then_some(Filt { min: 2, unleveled: None });
    let refs: Vec<&Reg> = regs.iter().collect();
    let map = build::<Level>(&refs, default.as_ref(), if c.reverse { 0 } else { u32::MAX }, c.route % 2 == 1);
    cx.nontrivial(regs.len() >= 2);
    // all modules of depth <= 3 over {a, aa} x four levels
    let mut modules: Vec<Vec<u8>> = Vec::new();
    for d in 1..=3usize {
        for n in 0..(1usize << d) {
            modules.push(fam(&(0..d).map(|i| ((n >> i) & 1) as u8).collect::<Vec<u8>>()));
        }
    }
    for mp in &modules {
        let mtext = path_text(mp);
        let governing = ref_lookup(&regs, default.as_ref(), &mtext);
        for lvl in [LvlVal::Absent, LvlVal::Typed(0), LvlVal::Typed(2), LvlVal::Typed(3)] {
            let want = match governing {
                None => true,
                Some(f) => ref_accepts::<Level>(f, &lvl).unwrap(),
            };
            let module = Path::new_raw(static_path(mp));
            let ev = EvLevel { lvl: lvl.clone(), dup: None, noise: false };
            let got = with_event(&module, &ev, |evt| map.matches(evt));
            vassert!(
                cx,
                got == want,
                if want { "map/rejects-qualifying-event" } else { "map/accepts-below-minimum" },
                "small scope: module {mtext:?} lvl {lvl:?}: got {got}, reference {want}; regs {:?} default {default:?}",
                regs.iter().map(|r| (path_text(&r.path), r.filt.min)).collect::<Vec<_>>()
            );
        }
    }
    Ok(())
}

// ---------------------------------------------------------------------------------------------
// Engine E6: the same cases decoded from fuzzer bytes (libFuzzer target `level_path_map`)

/// Byte decoder for `MapCase` / `FilterCase`. Every choice consumes whole bytes from the FRONT of the input
/// (`int_in_range` over at most 256 values = one byte modulo the range; 32-bit indices = one byte spread over the 32
/// bits, which is all `vcore::pick` needs), so inputs can be written by hand: see `/verif/fuzzing/mkcorpus.py`.
/// Exhausted input reads as zeros. The domain is the one of the proptest generators in `main.rs` (segments 0..6,
/// registered paths of 1-4 segments, minimums inside the level type's scale), except that junk level texts may also
/// contain arbitrary `char`s (the lenient-level reference classifies every string).
pub mod fuzz {
    use super::*;
    use arbitrary::{Result, Unstructured};

    fn idx(u: &mut Unstructured) -> Result<u32> {
        Ok(u.arbitrary::<u8>()? as u32 * 0x0101_0101)
    }

    fn level_text(u: &mut Unstructured) -> Result<String> {
        const NAMES: [&str; 8] = ["information", "debug", "dbg", "error", "warning", "wrn", "informations", "errors"];
        const TAILS: [&str; 10] = ["", "", "1", "(13)", " 4", "-x", "\u{1}", "é", "!", " warn"];
        const PADS: [&str; 4] = ["", " ", "\t", "\n "];
        const JUNK: [char; 20] = ['i', 'n', 'f', 'o', 'd', 'e', 'b', 'u', 'g', 'w', 'a', 'r', 'E', 'W', '1', '(', ' ', '\u{1}', 'é', 't'];
        const CANONICAL: [&str; 8] = ["debug", "info", "warn", "error", "DEBUG", "INFO", "WARN", "ERROR"];
        Ok(match u.int_in_range(0..=9)? {
            0u8..=5 => {
                let name = NAMES[u.int_in_range(0..=NAMES.len() - 1)?];
                let len = 1 + u.int_in_range(0..=name.len() - 1)?;
                let mask: u16 = u.arbitrary()?;
                let body: String = name[..len]
                    .chars()
                    .enumerate()
                    .map(|(i, c)| if mask >> (i % 16) & 1 == 1 { c.to_ascii_uppercase() } else { c })
                    .collect();
                let tail = TAILS[u.int_in_range(0..=TAILS.len() - 1)?];
                let (l, r) = (PADS[u.int_in_range(0..=3)?], PADS[u.int_in_range(0..=3)?]);
                format!("{l}{body}{tail}{r}")
            }
            6 | 7 => {
                let n = u.int_in_range(0..=6)?;
                let mut s = String::new();
                for _ in 0..n {
                    let i = u.int_in_range(0..=JUNK.len() + 1)?;
                    s.push(if i < JUNK.len() { JUNK[i] } else { u.arbitrary::<char>()? });
                }
                s
            }
            _ => CANONICAL[u.int_in_range(0..=CANONICAL.len() - 1)?].to_string(),
        })
    }

    fn lvl_val(u: &mut Unstructured, max_int: i64) -> Result<LvlVal> {
        Ok(match u.int_in_range(0..=20)? {
            0u8..=2 => LvlVal::Absent,
            3..=5 => LvlVal::Typed(u.int_in_range(0..=3)?),
            6 => LvlVal::Display(u.int_in_range(0..=3)?),
            7 => LvlVal::Debug(u.int_in_range(0..=3)?),
            8..=13 => LvlVal::Text(level_text(u)?),
            14 => LvlVal::DisplayText(level_text(u)?),
            15 => LvlVal::I64(match u.int_in_range(0..=2)? {
                0u8 => u.int_in_range(0..=max_int)?,
                1 => u.int_in_range(-3i64..=299)?,
                _ => u.arbitrary()?,
            }),
            16 => LvlVal::I64(u.int_in_range(0..=max_int)?),
            17 => LvlVal::U64(if u.arbitrary::<bool>()? { u.int_in_range(0u64..=7)? } else { u.arbitrary()? }),
            18 => LvlVal::Bool(u.arbitrary()?),
            19 => LvlVal::Float(u.int_in_range(0..=5)?),
            _ => LvlVal::Null,
        })
    }

    fn lvl_val_numeric(u: &mut Unstructured) -> Result<LvlVal> {
        Ok(match u.int_in_range(0..=13)? {
            0u8..=2 => LvlVal::Absent,
            3..=10 => LvlVal::I64(u.int_in_range(0i64..=7)?),
            11 | 12 => LvlVal::U64(u.int_in_range(0u64..=7)?),
            _ => lvl_val(u, 7)?,
        })
    }

    fn one_lvl(u: &mut Unstructured, numeric: bool) -> Result<LvlVal> {
        if numeric {
            lvl_val_numeric(u)
        } else {
            lvl_val(u, 3)
        }
    }

    fn ev_level(u: &mut Unstructured, numeric: bool) -> Result<EvLevel> {
        let lvl = one_lvl(u, numeric)?;
        let dup = if u.int_in_range(0..=4)? == 4u8 { Some(one_lvl(u, numeric)?) } else { None };
        Ok(EvLevel { lvl, dup, noise: u.arbitrary()? })
    }

    fn filt(u: &mut Unstructured, max: u8) -> Result<Filt> {
        let min = u.int_in_range(0..=max - 1)?;
        let unleveled = if u.int_in_range(0..=2)? == 2u8 { Some(u.int_in_range(0..=max - 1)?) } else { None };
        Ok(Filt { min, unleveled })
    }

    /// 1-4 segments, biased towards the prefix-sharing family a / aa
    fn path(u: &mut Unstructured) -> Result<Vec<u8>> {
        let n = u.int_in_range(1..=4)?;
        (0..n).map(|_| Ok([0u8, 0, 0, 1, 1, 2, 3, 4, 5][u.int_in_range(0..=8)?])).collect()
    }

    fn module_spec(u: &mut Unstructured) -> Result<ModuleSpec> {
        if u.int_in_range(0..=5)? == 0u8 {
            return Ok(ModuleSpec::Free(path(u)?));
        }
        let reg = idx(u)?;
        let keep = u.int_in_range(1..=4)?;
        let sibling = if u.int_in_range(0..=2)? == 2u8 { Some(u.int_in_range(0..=5)?) } else { None };
        let n = u.int_in_range(0..=2)?;
        let extra = (0..n).map(|_| u.int_in_range(0..=5)).collect::<Result<Vec<u8>>>()?;
        Ok(ModuleSpec::Related { reg, keep, sibling, extra })
    }

    pub fn map_case(u: &mut Unstructured, max: u8, numeric: bool) -> Result<MapCase> {
        // a pool of a few paths the registrations draw from (so repeats / overrides are frequent), or a fresh path
        let np = u.int_in_range(1..=4)?;
        let pool = (0..np).map(|_| path(u)).collect::<Result<Vec<_>>>()?;
        let n = u.int_in_range(0..=10)?;
        let mut regs = Vec::new();
        for _ in 0..n {
            let p = if u.arbitrary::<bool>()? { path(u)? } else { pool[pick(idx(u)?, pool.len())].clone() };
            regs.push(Reg { path: p, filt: filt(u, max)?, flavor: u.int_in_range(0..=2)? });
        }
        let default = if u.arbitrary::<bool>()? { Some(filt(u, max)?) } else { None };
        let default_at = (idx(u)?, idx(u)?);
        let from_iter = u.arbitrary()?;
        let perm = (0..10).map(|_| idx(u)).collect::<Result<Vec<u32>>>()?;
        let nq = u.int_in_range(1..=4)?;
        let mut queries = Vec::new();
        for _ in 0..nq {
            queries.push(Query { module: module_spec(u)?, mflavor: u.int_in_range(0..=2)?, ev: ev_level(u, numeric)? });
        }
        // trailing bytes (exhausted input = zeros = the legacy meaning): construction route, mix split, and a mask that
        // turns the last segment of registration i into its digit sibling (a -> a2, aa -> aa1, b -> b9)
        let route = u.int_in_range(0..=5)?;
        let mix_at = idx(u)?;
        let digit_mask: u16 = u.arbitrary()?;
        for (i, r) in regs.iter_mut().enumerate() {
            if digit_mask >> i & 1 == 1 {
                let last = r.path.last_mut().unwrap();
                *last = match *last {
                    0 => 6,
                    1 => 7,
                    2 => 8,
                    s => s,
                };
            }
        }
        Ok(MapCase { regs, default, default_at, from_iter, perm, queries, route, mix_at })
    }

    pub fn filter_case(u: &mut Unstructured, max: u8, numeric: bool) -> Result<FilterCase> {
        Ok(FilterCase { filt: filt(u, max)?, ev: ev_level(u, numeric)?, ctor: u.int_in_range(0..=2)? })
    }

    /// What one input denotes (first byte modulo 10).
    #[derive(Debug)]
    pub enum Decoded {
        /// 0-4: path map at `Level`
        MapLevel(MapCase),
        /// 5: path map at `u8`
        MapU8(MapCase),
        /// 6: path map at the custom `Sev`
        MapSev(MapCase),
        /// 7: one filter at `Level` (all constructors)
        FilterLevel(FilterCase),
        /// 8: one filter at `u8`
        FilterU8(FilterCase),
        /// 9: one filter at `Sev`
        FilterSev(FilterCase),
    }

    pub fn decode(data: &[u8]) -> Result<Decoded> {
        let mut u = Unstructured::new(data);
        Ok(match u.int_in_range(0..=9)? {
            0u8..=4 => Decoded::MapLevel(map_case(&mut u, 4, false)?),
            5 => Decoded::MapU8(map_case(&mut u, 8, true)?),
            6 => Decoded::MapSev(map_case(&mut u, 8, true)?),
            7 => Decoded::FilterLevel(filter_case(&mut u, 4, false)?),
            8 => Decoded::FilterU8(filter_case(&mut u, 8, true)?),
            _ => Decoded::FilterSev(filter_case(&mut u, 8, true)?),
        })
    }
}

/// libFuzzer entry (engine E6): decode the bytes into one of the case types and run the SAME oracles as the proptest
/// generators. Listed known findings are stepped over by signature (`vcore::with_cx`).
pub fn fuzz_entry(data: &[u8]) -> Res {
    let Ok(case) = fuzz::decode(data) else { return Ok(()) };
    vcore::with_cx("C17", |cx| match &case {
        fuzz::Decoded::MapLevel(c) => check_map_case::<Level>(c, cx),
        fuzz::Decoded::MapU8(c) => check_map_case::<u8>(c, cx),
        fuzz::Decoded::MapSev(c) => check_map_case::<Sev>(c, cx),
        fuzz::Decoded::FilterLevel(c) => check_level_filter_case(c, cx),
        fuzz::Decoded::FilterU8(c) => check_filter_case::<u8>(c, cx),
        fuzz::Decoded::FilterSev(c) => check_filter_case::<Sev>(c, cx),
    })
}
