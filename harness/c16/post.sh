#!/usr/bin/env bash
# libFuzzer campaign for C16 (target template_eq_render, semantic oracle in the target: c16::fuzz_entry).
# ~1.9 k exec/s under ASan on one core: quick 45 k runs (~25 s), thorough 10 M runs over 12 jobs.
exec "$(dirname "$0")/../../tools/fuzz_campaign.sh" C16 template_eq_render "$1" "$2" 45000 10000000 256
