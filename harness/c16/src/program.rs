//! C16 phase 2 — macro-generated templates through *program generation* (DESIGN engine E5).
//!
//! A batch of generated call sites of `emit::format!`, `emit::tpl!` and `emit::evt!` is written into a
//! small cargo project together with the generator's model of every site (the literal's true text, the
//! holes, the values, the equivalent `std::format!` literal). The oracle runs INSIDE the generated
//! program and prints one line per site; the check binary compiles and runs the project once per batch
//! and judges each site (= one case) from its line. A replayed case regenerates a one-site program.

use std::collections::BTreeMap;
use std::fmt::Write as _;
use std::path::{Path, PathBuf};
use std::process::Command;

use serde::{Deserialize, Serialize};

pub const NAMES: [&str; 10] = ["a", "b", "c", "user", "x1", "count", "item_name", "größe", "n", "val"];
pub const FLAGS: [&str; 12] = [">3", "<3", "^7", ">08.2", "+", ".3", ">03", "?", "08", "-<6", ".0", "#?"];

/// Keywords that can be written as raw identifiers (`r#type`); the property key and the hole label are the
/// UNRAWED name (`type`). `self`, `Self`, `crate`, `super` cannot be raw identifiers.
pub const KEYWORDS: [&str; 14] = ["type", "fn", "match", "loop", "as", "in", "ref", "struct", "mod", "use", "where", "move", "impl", "enum"];

/// Fill characters of generated format specs: the default, plus every character that also has a meaning
/// somewhere else in the spec grammar (a sloppy flags parser could trip over them), plus plain and
/// non-ASCII ones. `{` and `}` are left out: they cannot be spelled in the attribute string without
/// escaping rules the macro does not document.
pub const FILLS: [char; 15] = [' ', '0', '*', ':', '#', '?', '+', '-', '.', 'x', '<', '>', '^', '_', 'é'];

/// A structured std format spec `[[fill]align][+][#][0][width][.precision][type]`.
#[derive(Serialize, Deserialize, Debug, Clone, PartialEq)]
pub struct FlagSpec {
    /// index into FILLS (only used together with an alignment)
    pub fill: Option<u8>,
    /// 0 = none, 1 = `<`, 2 = `>`, 3 = `^`
    pub align: u8,
    pub sign: bool,
    pub alt: bool,
    pub zero: bool,
    pub width: Option<u8>,
    pub precision: Option<u8>,
    /// 0 = Display, 1 = `?`, 2 = `x?`, 3 = `X?` (plain `x`/`e` are not accepted by the macros for any value:
    /// the formatter is applied to an `emit::Value`, which implements Display and Debug only)
    pub ty: u8,
}

impl FlagSpec {
    pub fn fill_char(&self) -> Option<char> {
        self.fill.map(|f| FILLS[f as usize % FILLS.len()])
    }

    /// The flags as written in `#[emit::fmt("...")]` and after the `:` of the std spec. Never empty.
    pub fn text(&self) -> String {
        let mut s = String::new();
        let align = match (self.align % 4, self.fill) {
            (0, Some(_)) => 2,
            (a, _) => a,
        };
        if align != 0 {
            if let Some(c) = self.fill_char() {
                s.push(c);
            }
            s.push(['<', '<', '>', '^'][align as usize]);
        }
        if self.sign {
            s.push('+');
        }
        if self.alt {
            s.push('#');
        }
        if self.zero {
            s.push('0');
        }
        if let Some(w) = self.width {
            let _ = write!(s, "{w}");
        }
        if let Some(p) = self.precision {
            let _ = write!(s, ".{p}");
        }
        s.push_str(["", "?", "x?", "X?"][self.ty as usize % 4]);
        if s.is_empty() {
            s.push('1');
        }
        s
    }
}

#[derive(Serialize, Deserialize, Debug, Clone, Copy, PartialEq, Eq)]
pub enum SiteKind {
    Format,
    Tpl,
    Evt,
}

#[derive(Serialize, Deserialize, Debug, Clone, PartialEq)]
pub enum VSpec {
    Str(String),
    OwnedString(String),
    I(i64),
    F(f64),
    B(bool),
    /// `D(i64)`: a local struct with derived Debug and no Display, always captured `#[emit::as_debug]`
    D(i64),
}

#[derive(Serialize, Deserialize, Debug, Clone, Copy, PartialEq, Eq)]
pub enum Place {
    /// `{name: expr}` inside the literal
    Inline,
    /// `let name = expr;` before the call, `{name}` inside the literal
    Local,
    /// `{name}` inside the literal, `name: expr` after it
    Extra,
    /// `let name = expr;`, `{name}` inside the literal, `name` after it
    ExtraLocal,
}

#[derive(Serialize, Deserialize, Debug, Clone, PartialEq)]
pub struct HoleSpec {
    pub value: VSpec,
    pub place: Place,
    /// index into FLAGS
    pub flags: Option<u8>,
    /// a structured spec; takes precedence over `flags`
    #[serde(default)]
    pub spec: Option<FlagSpec>,
    /// the hole is written with a raw identifier (`{r#type}` / `{r#type: expr}`); only for places Inline and
    /// Local (a raw-identifier hole that is also defined by a trailing pair is rejected by the macros)
    #[serde(default)]
    pub raw: bool,
}

impl HoleSpec {
    /// The argument of `#[emit::fmt(..)]`, if the hole has one.
    pub fn flags_text(&self) -> Option<String> {
        match (&self.spec, self.flags) {
            (Some(s), _) => Some(s.text()),
            (None, Some(f)) => Some(FLAGS[f as usize % FLAGS.len()].to_string()),
            (None, None) => None,
        }
    }
}

#[derive(Serialize, Deserialize, Debug, Clone, PartialEq)]
pub enum SegSpec {
    Text(String),
    Hole(HoleSpec),
}

#[derive(Serialize, Deserialize, Debug, Clone, PartialEq)]
pub struct Site {
    pub kind: SiteKind,
    pub segs: Vec<SegSpec>,
    /// properties after the literal that do not appear in it (format!/evt! only)
    pub extras: Vec<VSpec>,
    /// rotation of the name table (names are distinct within a site by construction)
    pub name_rot: u8,
    /// write the literal's text with escape sequences (`\n`, `\t`) instead of raw characters where possible
    pub escape_controls: bool,
}

/// A Rust string literal for `s` that only escapes what must be escaped; everything else is raw UTF-8
/// (never `\u{..}`: the template scanner would read it as a hole).
pub fn rust_lit(s: &str) -> String {
    let mut out = String::from("\"");
    out.push_str(&escape_body(s, true));
    out.push('"');
    out
}

fn escape_body(s: &str, escape_controls: bool) -> String {
    let mut out = String::new();
    for c in s.chars() {
        match c {
            '"' => out.push_str("\\\""),
            '\\' => out.push_str("\\\\"),
            '\n' if escape_controls => out.push_str("\\n"),
            '\t' if escape_controls => out.push_str("\\t"),
            c => out.push(c),
        }
    }
    out
}

fn braces(s: &str) -> String {
    s.replace('{', "{{").replace('}', "}}")
}

impl VSpec {
    /// Rust source of the value expression.
    fn expr(&self) -> String {
        match self {
            VSpec::Str(s) => rust_lit(s),
            VSpec::OwnedString(s) => format!("String::from({})", rust_lit(s)),
            VSpec::I(v) => format!("{v}i64"),
            VSpec::F(v) => format!("{v:?}f64"),
            VSpec::B(v) => format!("{v}"),
            VSpec::D(v) => format!("D({v})"),
        }
    }
    /// Rust source of an `emit::Value` holding the value (for rendering a `tpl!` template).
    fn value_expr(&self, local: &str) -> String {
        match self {
            VSpec::Str(_) | VSpec::I(_) | VSpec::F(_) | VSpec::B(_) => format!("emit::Value::from({local})"),
            VSpec::OwnedString(_) => format!("emit::Value::from(&*{local})"),
            VSpec::D(_) => format!("emit::Value::from_debug(&{local})"),
        }
    }
    fn is_debug(&self) -> bool {
        matches!(self, VSpec::D(_))
    }
}

/// The std format spec equivalent to (`#[emit::fmt(flags)]`, `#[emit::as_debug]`).
fn std_spec(flags: Option<&str>, debug: bool) -> String {
    match (flags, debug) {
        (None, false) => String::new(),
        (None, true) => ":?".to_string(),
        (Some(f), true) if !f.ends_with('?') => format!(":{f}?"),
        (Some(f), _) => format!(":{f}"),
    }
}

pub struct Resolved {
    /// the LABEL (= property key) of every hole in order: the identifier, unrawed
    pub hole_names: Vec<&'static str>,
    /// the identifier as written in the source (`r#type` for raw holes)
    pub hole_idents: Vec<String>,
    /// the name of the corresponding argument in the equivalent `std::format!` call
    pub hole_std: Vec<String>,
    pub extra_names: Vec<&'static str>,
}

impl Site {
    pub fn holes(&self) -> Vec<&HoleSpec> {
        self.segs.iter().filter_map(|s| if let SegSpec::Hole(h) = s { Some(h) } else { None }).collect()
    }

    pub fn resolve(&self) -> Resolved {
        let holes = self.holes();
        let n_holes = holes.len();
        let name = |i: usize| NAMES[(self.name_rot as usize + i) % NAMES.len()];
        let label = |i: usize| if holes[i].raw { KEYWORDS[(self.name_rot as usize + i) % KEYWORDS.len()] } else { name(i) };
        Resolved {
            hole_names: (0..n_holes).map(label).collect(),
            hole_idents: (0..n_holes).map(|i| if holes[i].raw { format!("r#{}", label(i)) } else { label(i).to_string() }).collect(),
            hole_std: (0..n_holes).map(|i| if holes[i].raw { format!("kw_{}", label(i)) } else { label(i).to_string() }).collect(),
            extra_names: (n_holes..n_holes + self.extras.len()).map(name).collect(),
        }
    }

    pub fn text(&self) -> String {
        self.segs.iter().filter_map(|s| if let SegSpec::Text(t) = s { Some(t.as_str()) } else { None }).collect()
    }

    /// Does writing this site's literal require an escape sequence in the template literal's text?
    pub fn uses_escape_sequences(&self) -> bool {
        let t = self.text();
        t.contains('"') || t.contains('\\') || (self.escape_controls && (t.contains('\n') || t.contains('\t')))
    }

    /// Is the site well-formed for its macro (the generator only produces such sites; replayed/shrunk
    /// cases are re-checked)?
    pub fn well_formed(&self) -> bool {
        let holes = self.holes();
        holes.len() + self.extras.len() <= NAMES.len()
            && match self.kind {
                SiteKind::Tpl => {
                    self.extras.is_empty() && holes.iter().all(|h| !h.value.is_debug() && matches!(h.place, Place::Local | Place::ExtraLocal))
                }
                _ => true,
            }
            && holes.iter().all(|h| !h.raw || matches!(h.place, Place::Inline | Place::Local))
            && holes.iter().all(|h| match (&h.value, h.place) {
                // inline strings live inside the literal's source: keep them free of quotes, backslashes, braces, controls
                (VSpec::Str(s) | VSpec::OwnedString(s), Place::Inline) => s.chars().all(|c| !matches!(c, '"' | '\\' | '{' | '}' | '\n' | '\t')),
                _ => true,
            })
    }
}

/// Model parts in normal form: (is_hole, text-or-label, has_formatter).
fn model_parts(site: &Site, names: &[&str], source_text: bool) -> Vec<(bool, String, bool)> {
    let mut out: Vec<(bool, String, bool)> = Vec::new();
    let mut h = 0;
    for seg in &site.segs {
        match seg {
            SegSpec::Text(t) => {
                let t = if source_text { escape_body(t, site.escape_controls) } else { t.clone() };
                if t.is_empty() {
                    continue;
                }
                match out.last_mut() {
                    Some((false, prev, _)) => prev.push_str(&t),
                    _ => out.push((false, t, false)),
                }
            }
            SegSpec::Hole(spec) => {
                out.push((true, names[h].to_string(), spec.flags_text().is_some()));
                h += 1;
            }
        }
    }
    out
}

fn parts_src(parts: &[(bool, String, bool)]) -> String {
    let mut s = String::from("&[");
    for (hole, t, f) in parts {
        let _ = write!(s, "({hole}, {}, {f}), ", rust_lit(t));
    }
    s.push(']');
    s
}

/// The source of one site function.
pub fn site_source(id: u32, site: &Site) -> String {
    let r = site.resolve();
    let holes = site.holes();
    let mut src = String::new();
    let _ = writeln!(src, "#[allow(non_snake_case)]\nfn site_{id}() -> Result<(), String> {{");

    // locals
    for (i, h) in holes.iter().enumerate() {
        if site.kind != SiteKind::Tpl && matches!(h.place, Place::Local | Place::ExtraLocal) {
            let _ = writeln!(src, "    let {} = {};", r.hole_idents[i], h.value.expr());
        }
    }
    // `evt!` borrows its property values for as long as the event lives: non-constant expressions
    // (owned strings) have to be bound to locals first, as any caller would
    let mut tmp = 0usize;
    let mut macro_expr = |v: &VSpec, src: &mut String| -> String {
        if site.kind == SiteKind::Evt && matches!(v, VSpec::OwnedString(_)) {
            tmp += 1;
            let _ = writeln!(src, "    let tmp_{tmp} = {};", v.expr());
            format!("tmp_{tmp}")
        } else {
            v.expr()
        }
    };

    // the emit literal and the trailing field values
    let mut lit = String::new(); // body of the template literal, as SOURCE text
    let mut after: Vec<String> = Vec::new();
    let mut std_lit = String::new(); // VALUE of the equivalent std literal
    let mut std_lit_alt = String::new(); // the same with the text as emit's scanner sees it (source text)
    let mut std_args: Vec<String> = Vec::new();
    let mut hi = 0;
    for seg in &site.segs {
        match seg {
            SegSpec::Text(t) => {
                lit.push_str(&escape_body(&braces(t), site.escape_controls));
                std_lit.push_str(&braces(t));
                std_lit_alt.push_str(&braces(&escape_body(t, site.escape_controls)));
            }
            SegSpec::Hole(h) => {
                let name = r.hole_idents[hi].as_str();
                let std_name = r.hole_std[hi].as_str();
                hi += 1;
                let flags_owned = h.flags_text();
                let flags = flags_owned.as_deref();
                let debug = h.value.is_debug();
                let mut attrs = String::new();
                if let Some(f) = flags {
                    let _ = write!(attrs, "#[emit::fmt({})] ", rust_lit(f));
                }
                if debug {
                    attrs.push_str("#[emit::as_debug] ");
                }
                match h.place {
                    Place::Inline => {
                        // everything inside the hole is part of the literal's source: escape quotes once more
                        let inner = format!("{attrs}{name}: {}", macro_expr(&h.value, &mut src));
                        let _ = write!(lit, "{{{}}}", escape_body(&inner, true));
                    }
                    Place::Local => {
                        let inner = format!("{attrs}{name}");
                        let _ = write!(lit, "{{{}}}", escape_body(&inner, true));
                    }
                    Place::Extra => {
                        let _ = write!(lit, "{{{name}}}");
                        after.push(format!("{attrs}{name}: {}", macro_expr(&h.value, &mut src)));
                    }
                    Place::ExtraLocal => {
                        let _ = write!(lit, "{{{name}}}");
                        after.push(format!("{attrs}{name}"));
                    }
                }
                let spec = std_spec(flags, debug);
                let _ = write!(std_lit, "{{{std_name}{spec}}}");
                let _ = write!(std_lit_alt, "{{{std_name}{spec}}}");
                std_args.push(format!("{std_name} = {}", h.value.expr()));
            }
        }
    }
    for (i, v) in site.extras.iter().enumerate() {
        let attrs = if v.is_debug() { "#[emit::as_debug] " } else { "" };
        after.push(format!("{attrs}{}: {}", r.extra_names[i], macro_expr(v, &mut src)));
    }
    // rotate the trailing field values so their order is not the hole order
    if !after.is_empty() {
        let k = site.name_rot as usize % after.len();
        after.rotate_left(k);
    }
    let mut call_args = format!("\"{lit}\"");
    for a in &after {
        call_args.push_str(", ");
        call_args.push_str(a);
    }
    let std_call = |l: &str| {
        let mut s = format!("std::format!({}", rust_lit(l));
        for a in &std_args {
            s.push_str(", ");
            s.push_str(a);
        }
        s.push(')');
        s
    };
    let _ = writeln!(src, "    let want: String = {};", std_call(&std_lit));
    let alt = site.uses_escape_sequences();
    if alt {
        let _ = writeln!(src, "    let alt: Option<String> = Some({});", std_call(&std_lit_alt));
    } else {
        let _ = writeln!(src, "    let alt: Option<String> = None;");
    }
    let model = parts_src(&model_parts(site, &r.hole_names, false));
    let model_alt = if alt { format!("Some({})", parts_src(&model_parts(site, &r.hole_names, true))) } else { "None".to_string() };

    match site.kind {
        SiteKind::Format => {
            let _ = writeln!(src, "    let got: String = emit::format!({call_args});");
            let _ = writeln!(src, "    cmp_str(\"macro/format-differs-from-std\", &got, &want, alt.as_deref())?;");
        }
        SiteKind::Tpl => {
            let _ = writeln!(src, "    let tpl = emit::tpl!({call_args});");
            let _ = writeln!(src, "    check_tpl(&tpl, {model}, {model_alt})?;");
            // render with the model's values
            for (i, h) in holes.iter().enumerate() {
                let _ = writeln!(src, "    let v_{i} = {};", h.value.expr());
            }
            let mut props = String::from("[");
            for (i, h) in holes.iter().enumerate() {
                let _ = write!(props, "({}, {}), ", rust_lit(r.hole_names[i]), h.value.value_expr(&format!("v_{i}")));
            }
            props.push(']');
            let _ = writeln!(src, "    let props: [(&str, emit::Value); {}] = {props};", holes.len());
            let _ = writeln!(src, "    let got = tpl.render(&props[..]).to_string();");
            let _ = writeln!(src, "    cmp_str(\"macro/tpl-render-differs-from-std\", &got, &want, alt.as_deref())?;");
        }
        SiteKind::Evt => {
            let _ = writeln!(src, "    let evt = emit::evt!({call_args});");
            let _ = writeln!(src, "    let got = evt.msg().to_string();");
            let _ = writeln!(src, "    cmp_str(\"macro/evt-msg-differs-from-std\", &got, &want, alt.as_deref())?;");
            let _ = writeln!(src, "    check_tpl(evt.tpl(), {model}, {model_alt})?;");
            let all: Vec<(&str, &VSpec)> = r
                .hole_names
                .iter()
                .copied()
                .zip(holes.iter().map(|h| &h.value))
                .chain(r.extra_names.iter().copied().zip(site.extras.iter()))
                .collect();
            for (name, v) in all {
                let spec = if v.is_debug() { "{:?}" } else { "{}" };
                let _ = writeln!(
                    src,
                    "    check_prop(&evt, {}, &std::format!(\"{spec}\", {}))?;",
                    rust_lit(name),
                    v.expr()
                );
            }
        }
    }
    let _ = writeln!(src, "    Ok(())\n}}\n");
    src
}

const PRELUDE: &str = r##"// GENERATED by the C16 check (c16/src/program.rs). Do not edit.
#![allow(unused, mixed_script_confusables, uncommon_codepoints, non_snake_case, confusable_idents)]
use emit::Props as _;

#[derive(Debug)]
struct D(i64);

/// normal form of a template: merge adjacent text, drop empty text; (is_hole, text-or-label, has_formatter)
fn norm(t: &emit::Template) -> Vec<(bool, String, bool)> {
    let mut out: Vec<(bool, String, bool)> = Vec::new();
    for p in t.parts() {
        if let Some(text) = p.as_text() {
            if text.get().is_empty() {
                continue;
            }
            match out.last_mut() {
                Some((false, prev, _)) => prev.push_str(text.get()),
                _ => out.push((false, text.get().to_string(), false)),
            }
        } else if let Some(label) = p.label() {
            out.push((true, label.get().to_string(), p.formatter().is_some()));
        }
    }
    out
}

fn cmp_str(sig: &str, got: &str, want: &str, alt: Option<&str>) -> Result<(), String> {
    if got == want {
        Ok(())
    } else if alt == Some(got) {
        Err(format!("macro/escape-sequence-rendered-as-source-text :: ({sig}) got {got:?}, the literal means {want:?}"))
    } else {
        Err(format!("{sig} :: got {got:?}, expected {want:?}"))
    }
}

fn check_tpl(tpl: &emit::Template, model: &[(bool, &str, bool)], alt: Option<&[(bool, &str, bool)]>) -> Result<(), String> {
    let own = |m: &[(bool, &str, bool)]| m.iter().map(|(h, t, f)| (*h, t.to_string(), *f)).collect::<Vec<_>>();
    let got = norm(tpl);
    if got != own(model) {
        if let Some(alt) = alt {
            if got == own(alt) {
                return Err(format!("macro/escape-sequence-rendered-as-source-text :: (macro/tpl-parts-differ) parts {got:?}, the literal means {model:?}"));
            }
        }
        return Err(format!("macro/tpl-parts-differ :: parts {got:?}, expected {model:?}"));
    }
    // the runtime template built from the model's parts
    let parts: Vec<emit::template::Part> = model
        .iter()
        .map(|(h, t, _)| if *h { emit::template::Part::hole_ref(t) } else { emit::template::Part::text_ref(t) })
        .collect();
    let runtime = emit::Template::new_ref(&parts);
    let raw: String = model.iter().map(|(h, t, _)| if *h { format!("{{{t}}}") } else { t.to_string() }).collect();
    if tpl.to_string() != raw {
        return Err(format!("macro/tpl-display-differs :: displays {:?}, expected {raw:?}", tpl.to_string()));
    }
    if runtime.to_string() != raw {
        return Err(format!("macro/runtime-tpl-display-differs :: displays {:?}, expected {raw:?}", runtime.to_string()));
    }
    let eq = std::panic::catch_unwind(std::panic::AssertUnwindSafe(|| (*tpl == runtime, runtime == *tpl)));
    match eq {
        Ok((true, true)) => Ok(()),
        Ok(other) => {
            // an empty fragment in front of a hole on the macro side is the listed equality defect
            let ps: Vec<_> = tpl.parts().collect();
            let empty_before_hole = (0..ps.len()).any(|i| ps[i].as_text().map_or(false, |t| t.get().is_empty()) && i + 1 < ps.len() && ps[i + 1].label().is_some());
            if empty_before_hole {
                Err(format!("eq/false-negative/empty-fragment-before-hole :: macro template != runtime template {other:?}"))
            } else {
                Err(format!("macro/tpl-not-equal-to-runtime-template :: (tpl==runtime, runtime==tpl) = {other:?} for {raw:?}"))
            }
        }
        Err(_) => Err("eq/panics :: comparing the macro template with the runtime template panicked".to_string()),
    }
}

fn check_prop<P: emit::Props>(evt: &emit::Event<P>, name: &str, want: &str) -> Result<(), String> {
    match evt.props().get(name) {
        None => Err(format!("macro/evt-prop-missing :: props().get({name:?}) is None")),
        Some(v) if v.to_string() != want => Err(format!("macro/evt-prop-differs :: {name:?} displays {:?}, expected {want:?}", v.to_string())),
        Some(_) => Ok(()),
    }
}

"##;

/// The whole program for a batch of (id, site).
pub fn program_source(sites: &[(u32, &Site)]) -> String {
    let mut src = String::from(PRELUDE);
    for (id, site) in sites {
        src.push_str(&site_source(*id, site));
    }
    src.push_str("fn main() {\n    std::panic::set_hook(Box::new(|_| {}));\n    let sites: &[(u32, fn() -> Result<(), String>)] = &[\n");
    for (id, _) in sites {
        let _ = writeln!(src, "        ({id}, site_{id}),");
    }
    src.push_str(
        r#"    ];
    for (id, f) in sites {
        match std::panic::catch_unwind(f) {
            Ok(Ok(())) => println!("SITE {id} ok"),
            Ok(Err(e)) => println!("SITE {id} FAIL {}", e.replace('\n', "\\n")),
            Err(_) => println!("SITE {id} FAIL macro/site-panicked :: the site panicked"),
        }
    }
    println!("DONE {}", sites.len());
}
"#,
    );
    src
}

#[derive(Debug, Clone, PartialEq)]
pub enum Outcome {
    Ok,
    Fail { sig: String, detail: String },
}

/// Where the generated project lives: `<verif_dir>/harness/target/gen-c16`.
pub fn project_dir(verif_dir: &Path) -> PathBuf {
    verif_dir.join("harness").join("target").join("gen-c16")
}

const CARGO_TOML: &str = r#"[package]
name = "genc16"
version = "0.0.0"
edition = "2021"

[workspace]

[dependencies]
emit = { path = "/repo", features = ["std", "rand", "sval", "serde", "implicit_rt", "implicit_internal_rt"] }

[profile.dev]
debug = 0
incremental = true
"#;

/// Write, build and run the program for `sites`; map site id -> outcome. `Err` = the harness could not
/// get a verdict (compile error, missing lines).
pub fn run_batch(verif_dir: &Path, tag: &str, sites: &[(u32, &Site)]) -> Result<BTreeMap<u32, Outcome>, String> {
    let dir = project_dir(verif_dir).join(tag);
    std::fs::create_dir_all(dir.join("src")).map_err(|e| format!("mkdir {}: {e}", dir.display()))?;
    std::fs::write(dir.join("Cargo.toml"), CARGO_TOML).map_err(|e| e.to_string())?;
    let lock_candidates = [verif_dir.join("harness").join("Cargo.lock"), PathBuf::from("/verif/harness/Cargo.lock")];
    let lock = lock_candidates.iter().find(|p| p.exists()).ok_or("no Cargo.lock to copy")?;
    std::fs::copy(lock, dir.join("Cargo.lock")).map_err(|e| e.to_string())?;
    std::fs::write(dir.join("src").join("main.rs"), program_source(sites)).map_err(|e| e.to_string())?;
    let target = project_dir(verif_dir).join("target");
    let build = Command::new("cargo")
        .args(["build", "--offline", "--quiet"])
        .current_dir(&dir)
        .env("CARGO_TARGET_DIR", &target)
        .env("CARGO_NET_OFFLINE", "true")
        .env_remove("RUSTFLAGS")
        .output()
        .map_err(|e| format!("cannot run cargo: {e}"))?;
    if !build.status.success() {
        let err = String::from_utf8_lossy(&build.stderr);
        let first: Vec<&str> = err.lines().filter(|l| l.starts_with("error")).take(5).collect();
        let at: Vec<&str> = err.lines().filter(|l| l.trim_start().starts_with("--> src/main.rs")).take(5).collect();
        return Err(format!("generated program does not compile ({}): {} {}", dir.display(), first.join(" | "), at.join(" | ")));
    }
    let run = Command::new(target.join("debug").join("genc16")).output().map_err(|e| format!("cannot run generated program: {e}"))?;
    let out = String::from_utf8_lossy(&run.stdout);
    let mut res = BTreeMap::new();
    for line in out.lines() {
        let Some(rest) = line.strip_prefix("SITE ") else { continue };
        let Some((id, verdict)) = rest.split_once(' ') else { continue };
        let Ok(id) = id.parse::<u32>() else { continue };
        if verdict == "ok" {
            res.insert(id, Outcome::Ok);
        } else if let Some(f) = verdict.strip_prefix("FAIL ") {
            let (sig, detail) = f.split_once(" :: ").unwrap_or((f, ""));
            res.insert(id, Outcome::Fail { sig: sig.to_string(), detail: detail.to_string() });
        }
    }
    if res.len() != sites.len() || !out.contains("DONE ") {
        return Err(format!("generated program reported {} of {} sites (exit {:?})", res.len(), sites.len(), run.status.code()));
    }
    Ok(res)
}
