use std::sync::Arc;

use c16::*;
use vcore::proptest::prelude::*;
use vcore::Level as VLevel;

const RULE: &str = "cases are (a) triples of templates: a generated part sequence (text fragments incl. empty and adjacent ones over an alphabet of 1-4 byte characters, holes with repeated/empty/odd labels and optional formatters, each part backed by a static, borrowed, owned or shared string) plus two partners derived from it -- the same meaning re-split at arbitrary character boundaries with extra empty fragments (equal by construction), one/two-edit mutants of the meaning (char replaced/inserted/deleted, hole renamed/dropped/inserted/swapped/turned into `{label}` text), or an independent sequence -- each built through one of new/new_ref/From<&[Part]>/new_owned/literal/literal_ref and up to two of by_ref/to_owned/clone; all 9 ordered comparisons are judged against the normal form (merge adjacent text, drop empty) and the laws, and every template is rendered with a property list containing duplicate keys into a String, through Display, a recording template::Write, a default-method Write, a failing Write and Event::msg; (b) the complete set of ordered pairs of part sequences up to length 3 (thorough: 4) over a 7-part alphabet; (c) rendering-focused single templates with larger property lists. Non-trivial = a pair whose fragment boundaries differ inside a run containing a multi-byte character, or a template with an empty fragment adjacent to a hole (for (c): a hole filled from the properties next to non-ASCII/empty text or an unfilled hole).";

fn text() -> impl Strategy<Value = String> {
    prop_oneof![
        2 => Just(String::new()),
        8 => prop::collection::vec(prop::sample::select(TEXT_CHARS.to_vec()), 1..=4).prop_map(|v| v.into_iter().collect::<String>()),
    ]
}

fn flavor_s() -> impl Strategy<Value = Flavor> {
    (0u8..4).prop_map(flavor)
}

fn label() -> impl Strategy<Value = String> {
    prop_oneof![
        3 => prop::sample::select(LABELS[..5].to_vec()),
        2 => prop::sample::select(LABELS.to_vec()),
    ]
    .prop_map(|s| s.to_string())
}

fn fmt_id() -> impl Strategy<Value = Option<u8>> {
    prop_oneof![3 => Just(None), 1 => (0..N_FMT).prop_map(Some)]
}

fn text_part() -> impl Strategy<Value = P> {
    (text(), flavor_s()).prop_map(|(t, f)| P::T(t, f))
}

fn part() -> impl Strategy<Value = P> {
    prop_oneof![
        55 => text_part(),
        45 => (label(), fmt_id(), flavor_s()).prop_map(|(l, f, fl)| P::H(l, f, fl)),
    ]
}

fn parts() -> impl Strategy<Value = Vec<P>> {
    prop_oneof![
        8 => prop::collection::vec(part(), 0..7),
        2 => prop::collection::vec(text_part(), 0..4),
    ]
}

fn resplit_s() -> impl Strategy<Value = Resplit> {
    (
        prop::collection::vec((prop::collection::vec(any::<u32>(), 0..4), any::<bool>()), 0..4),
        prop::collection::vec(0u8..4, 0..4),
    )
        .prop_map(|(runs, flavors)| Resplit { runs, flavors })
}

fn edit() -> impl Strategy<Value = Edit> {
    let ch = 0u8..TEXT_CHARS.len() as u8;
    let lb = 0u8..LABELS.len() as u8;
    prop_oneof![
        4 => (any::<u32>(), any::<u32>(), ch.clone()).prop_map(|(r, p, c)| Edit::ReplaceChar(r, p, c)),
        3 => (any::<u32>(), any::<u32>(), ch).prop_map(|(r, p, c)| Edit::InsertChar(r, p, c)),
        3 => (any::<u32>(), any::<u32>()).prop_map(|(r, p)| Edit::DeleteChar(r, p)),
        3 => (any::<u32>(), lb.clone()).prop_map(|(h, l)| Edit::RenameHole(h, l)),
        2 => any::<u32>().prop_map(Edit::DropHole),
        2 => (any::<u32>(), any::<u32>(), lb).prop_map(|(r, p, l)| Edit::InsertHole(r, p, l)),
        2 => any::<u32>().prop_map(Edit::HoleToText),
        1 => any::<u32>().prop_map(Edit::SwapHoles),
        1 => (any::<u32>(), fmt_id()).prop_map(|(h, f)| Edit::SetFmt(h, f)),
    ]
}

fn derive_s() -> impl Strategy<Value = Derive> {
    prop_oneof![
        5 => resplit_s().prop_map(Derive::Resplit),
        4 => (prop::collection::vec(edit(), 1..=2), resplit_s()).prop_map(|(e, r)| Derive::Mutant(e, r)),
        1 => parts().prop_map(Derive::Independent),
    ]
}

fn shape() -> impl Strategy<Value = Shape> {
    let form = prop_oneof![
        Just(Form::New),
        Just(Form::NewRef),
        Just(Form::FromSlice),
        Just(Form::NewOwned),
        Just(Form::Literal),
        Just(Form::LiteralRef),
    ];
    let conv = prop_oneof![Just(Conv::ByRef), Just(Conv::ToOwned), Just(Conv::Clone)];
    (form, prop::collection::vec(conv, 0..=2)).prop_map(|(form, conv)| Shape { form, conv })
}

fn val() -> impl Strategy<Value = Val> {
    prop_oneof![
        4 => text().prop_map(Val::S),
        1 => prop::sample::select(vec!["Rust", "{x}", "a\"b\\", "  ", "längere Zeichenkette"]).prop_map(|s| Val::S(s.to_string())),
        2 => prop_oneof![any::<i64>(), -20i64..20].prop_map(Val::I),
        1 => prop_oneof![any::<u64>(), Just(u64::MAX)].prop_map(Val::U),
        1 => (any::<i64>(), any::<u64>()).prop_map(|(h, l)| Val::Big(h, l)),
        2 => prop_oneof![
            Just(0.0f64), Just(-0.0), Just(1.5), Just(1e21), Just(1e-7), Just(100.0),
            (-1_000_000i32..1_000_000).prop_map(|v| v as f64 / 128.0),
        ].prop_map(Val::F),
        1 => any::<bool>().prop_map(Val::B),
    ]
}

fn props(max: usize) -> impl Strategy<Value = Vec<(String, Val)>> {
    let key = prop_oneof![9 => label(), 1 => Just("zz".to_string())];
    prop::collection::vec((key, val()), 0..=max)
}

fn opts() -> impl Strategy<Value = RenderOpts> {
    (0u16..40, any::<bool>(), 0u8..3).prop_map(|(budget, rec_by_value, props_kind)| RenderOpts { budget, rec_by_value, props_kind })
}

fn triple() -> impl Strategy<Value = Triple> {
    (parts(), derive_s(), derive_s(), [shape(), shape(), shape()], props(5), opts())
        .prop_map(|(base, b, c, shapes, props, opts)| Triple { base, b, c, shapes, props, opts })
}

fn render_case() -> impl Strategy<Value = RenderCase> {
    (prop::collection::vec(part(), 1..10), shape(), props(12), opts())
        .prop_map(|(parts, shape, props, opts)| RenderCase { parts, shape, props, opts })
}

fn small_seqs(max_len: usize) -> Vec<Vec<u8>> {
    let mut all = vec![vec![]];
    let mut frontier = vec![vec![]];
    for _ in 0..max_len {
        let mut next = Vec::new();
        for s in &frontier {
            for a in 0..SMALL_ALPHABET as u8 {
                let mut t: Vec<u8> = s.clone();
                t.push(a);
                next.push(t);
            }
        }
        all.extend(next.iter().cloned());
        frontier = next;
    }
    all
}

fn main() {
    vcore::run(
        "C16",
        VLevel::Exploration,
        RULE,
        &[
            "the hole formatter is an opaque function: the reference applies the same format string to the native model value with std (values are strings, 64/128-bit integers, finite floats, bools, whose emit::Value Display/Debug forward formatting flags to the native impls)",
            "two templates that differ ONLY in the formatter attached to a hole are neither required equal nor unequal by the property text: counted as don't-care (the algebraic laws are still checked on the observed results)",
            "escaping inside Debug of a Render/Template and outer formatting flags applied to a whole Render are not part of the property and are not checked",
            "'static-demanding constructors (Template::new, Template::literal, Part::text, Part::hole) are fed generated data whose lifetime is extended for the duration of one case (see c16::extend)",
        ],
        |s| {
            s.require("split-differs-in-multibyte-run", 3_000);
            s.require("empty-fragment-adjacent-to-hole", 3_000);
            s.require("empty-fragment-before-hole", 2_000);
            s.require("pair:equal-by-meaning", 3_000);
            s.require("pair:unequal", 3_000);
            s.require("triple:all-equal-by-construction", 1_000);
            s.require("tpl:repeated-label", 1_000);
            s.require("hole:absent", 3_000);
            s.require("hole:present-plain", 3_000);
            s.require("hole:present-with-formatter", 1_000);
            s.require("hole:duplicate-key-with-different-values", 500);
            s.require("hole:empty-label", 1_000);
            s.require("render:writer-fails", 1_000);
            for f in ["form:new", "form:new_ref", "form:from-slice", "form:new_owned", "form:literal", "form:literal_ref"] {
                s.require(f, 1_000);
            }
            for c in ["conv:by_ref", "conv:to_owned", "conv:clone"] {
                s.require(c, 3_000);
            }

            s.gen("eq-render-triples", s.n(1_200_000, 30_000_000), triple, check_triple);

            let seqs = Arc::new(small_seqs(if s.quick() { 3 } else { 4 }));
            let n = seqs.len();
            s.enumerate(
                "eq-small-scope-pairs",
                (0..n * n).map({
                    let seqs = seqs.clone();
                    move |k| SmallPair { a: seqs[k / n].clone(), b: seqs[k % n].clone() }
                }),
                check_small_pair,
            );

            s.gen("render", s.n(400_000, 10_000_000), render_case, check_render_case);
        },
    )
}
