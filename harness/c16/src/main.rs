// stub: check for C16 not built yet
fn main() {
    eprintln!("C16: check not built yet");
    std::process::exit(2);
}
