use std::sync::Arc;

use c16::program::{self, FlagSpec, HoleSpec, Outcome, Place, SegSpec, Site, SiteKind, VSpec};
use c16::*;
use serde::{Deserialize, Serialize};
use vcore::serde_json;
use vcore::proptest::prelude::*;
use vcore::{Cx, Level as VLevel, Res};

const RULE: &str = "cases are (a) triples of templates: a generated part sequence (text fragments incl. empty and adjacent ones over an alphabet of 1-4 byte characters, holes with repeated/empty/odd labels and optional formatters, each part backed by a static, borrowed, owned or shared string) plus two partners derived from it -- the same meaning re-split at arbitrary character boundaries with extra empty fragments (equal by construction), one/two-edit mutants of the meaning (char replaced/inserted/deleted, hole renamed/dropped/inserted/swapped/turned into `{label}` text), or an independent sequence -- each built through one of new/new_ref/From<&[Part]>/new_owned/literal/literal_ref and up to two of by_ref/to_owned/clone; all 9 ordered comparisons are judged against the normal form (merge adjacent text, drop empty) and the laws, and every template is rendered with a property list containing duplicate keys into a String, through Display, a recording template::Write, a default-method Write, a failing Write and Event::msg; (b) the complete set of ordered pairs of part sequences up to length 3 (thorough: 4) over a 7-part alphabet; (c) rendering-focused single templates with larger property lists; (d) single templates (fragments up to 12 chars) displayed as Render (through three Props kinds and Event::msg) and as Template under a format spec chosen at runtime: 12 fill/alignment/sign/#/0 variants x width none|0-40 x precision none|0-20. Non-trivial = a pair whose fragment boundaries differ inside a run containing a multi-byte character, or a template with an empty fragment adjacent to a hole (for (c): a hole filled from the properties next to non-ASCII/empty text or an unfilled hole; for (d): a width larger than some text fragment or a precision smaller than one).";

fn text() -> impl Strategy<Value = String> {
    prop_oneof![
        2 => Just(String::new()),
        8 => prop::collection::vec(prop::sample::select(TEXT_CHARS.to_vec()), 1..=4).prop_map(|v| v.into_iter().collect::<String>()),
    ]
}

fn flavor_s() -> impl Strategy<Value = Flavor> {
    (0u8..4).prop_map(flavor)
}

fn label() -> impl Strategy<Value = String> {
    prop_oneof![
        3 => prop::sample::select(LABELS[..5].to_vec()),
        2 => prop::sample::select(LABELS.to_vec()),
    ]
    .prop_map(|s| s.to_string())
}

fn fmt_id() -> impl Strategy<Value = Option<u8>> {
    prop_oneof![3 => Just(None), 1 => (0..N_FMT).prop_map(Some)]
}

fn text_part() -> impl Strategy<Value = P> {
    (text(), flavor_s()).prop_map(|(t, f)| P::T(t, f))
}

fn part() -> impl Strategy<Value = P> {
    prop_oneof![
        55 => text_part(),
        45 => (label(), fmt_id(), flavor_s()).prop_map(|(l, f, fl)| P::H(l, f, fl)),
    ]
}

fn parts() -> impl Strategy<Value = Vec<P>> {
    prop_oneof![
        8 => prop::collection::vec(part(), 0..7),
        2 => prop::collection::vec(text_part(), 0..4),
    ]
}

fn resplit_s() -> impl Strategy<Value = Resplit> {
    (
        prop::collection::vec((prop::collection::vec(any::<u32>(), 0..4), any::<bool>()), 0..4),
        prop::collection::vec(0u8..4, 0..4),
    )
        .prop_map(|(runs, flavors)| Resplit { runs, flavors })
}

fn edit() -> impl Strategy<Value = Edit> {
    let ch = 0u8..TEXT_CHARS.len() as u8;
    let lb = 0u8..LABELS.len() as u8;
    prop_oneof![
        4 => (any::<u32>(), any::<u32>(), ch.clone()).prop_map(|(r, p, c)| Edit::ReplaceChar(r, p, c)),
        3 => (any::<u32>(), any::<u32>(), ch).prop_map(|(r, p, c)| Edit::InsertChar(r, p, c)),
        3 => (any::<u32>(), any::<u32>()).prop_map(|(r, p)| Edit::DeleteChar(r, p)),
        3 => (any::<u32>(), lb.clone()).prop_map(|(h, l)| Edit::RenameHole(h, l)),
        2 => any::<u32>().prop_map(Edit::DropHole),
        2 => (any::<u32>(), any::<u32>(), lb).prop_map(|(r, p, l)| Edit::InsertHole(r, p, l)),
        2 => any::<u32>().prop_map(Edit::HoleToText),
        1 => any::<u32>().prop_map(Edit::SwapHoles),
        1 => (any::<u32>(), fmt_id()).prop_map(|(h, f)| Edit::SetFmt(h, f)),
    ]
}

fn derive_s() -> impl Strategy<Value = Derive> {
    prop_oneof![
        5 => resplit_s().prop_map(Derive::Resplit),
        4 => (prop::collection::vec(edit(), 1..=2), resplit_s()).prop_map(|(e, r)| Derive::Mutant(e, r)),
        1 => parts().prop_map(Derive::Independent),
    ]
}

fn shape() -> impl Strategy<Value = Shape> {
    let form = prop_oneof![
        Just(Form::New),
        Just(Form::NewRef),
        Just(Form::FromSlice),
        Just(Form::NewOwned),
        Just(Form::Literal),
        Just(Form::LiteralRef),
    ];
    let conv = prop_oneof![Just(Conv::ByRef), Just(Conv::ToOwned), Just(Conv::Clone)];
    (form, prop::collection::vec(conv, 0..=2)).prop_map(|(form, conv)| Shape { form, conv })
}

fn val() -> impl Strategy<Value = Val> {
    prop_oneof![
        4 => text().prop_map(Val::S),
        1 => prop::sample::select(vec!["Rust", "{x}", "a\"b\\", "  ", "längere Zeichenkette"]).prop_map(|s| Val::S(s.to_string())),
        2 => prop_oneof![any::<i64>(), -20i64..20].prop_map(Val::I),
        1 => prop_oneof![any::<u64>(), Just(u64::MAX)].prop_map(Val::U),
        1 => (any::<i64>(), any::<u64>()).prop_map(|(h, l)| Val::Big(h, l)),
        2 => prop_oneof![
            Just(0.0f64), Just(-0.0), Just(1.5), Just(1e21), Just(1e-7), Just(100.0),
            (-1_000_000i32..1_000_000).prop_map(|v| v as f64 / 128.0),
        ].prop_map(Val::F),
        1 => any::<bool>().prop_map(Val::B),
    ]
}

fn props(max: usize) -> impl Strategy<Value = Vec<(String, Val)>> {
    let key = prop_oneof![9 => label(), 1 => Just("zz".to_string())];
    prop::collection::vec((key, val()), 0..=max)
}

fn opts() -> impl Strategy<Value = RenderOpts> {
    (0u16..40, any::<bool>(), 0u8..3).prop_map(|(budget, rec_by_value, props_kind)| RenderOpts { budget, rec_by_value, props_kind })
}

fn triple() -> impl Strategy<Value = Triple> {
    (parts(), derive_s(), derive_s(), [shape(), shape(), shape()], props(5), opts())
        .prop_map(|(base, b, c, shapes, props, opts)| Triple { base, b, c, shapes, props, opts })
}

fn render_case() -> impl Strategy<Value = RenderCase> {
    (prop::collection::vec(part(), 1..10), shape(), props(12), opts())
        .prop_map(|(parts, shape, props, opts)| RenderCase { parts, shape, props, opts })
}

fn fmt_spec() -> impl Strategy<Value = FmtSpec> {
    (
        prop_oneof![2 => Just(0u8), 3 => 0u8..FLAG_VARIANTS.len() as u8],
        prop_oneof![1 => Just(None), 3 => (0u8..=40).prop_map(Some)],
        prop_oneof![2 => Just(None), 2 => (0u8..=20).prop_map(Some)],
    )
        .prop_map(|(variant, width, precision)| FmtSpec { variant, width, precision })
}

fn flag_case() -> impl Strategy<Value = FlagCase> {
    // longer fragments than elsewhere so that small precisions and mid-size widths both bite
    let long_text = prop_oneof![
        1 => Just(String::new()),
        4 => prop::collection::vec(prop::sample::select(TEXT_CHARS.to_vec()), 1..=12).prop_map(|v| v.into_iter().collect::<String>()),
    ];
    let p = prop_oneof![
        55 => (long_text, flavor_s()).prop_map(|(t, f)| P::T(t, f)),
        45 => (label(), fmt_id(), flavor_s()).prop_map(|(l, f, fl)| P::H(l, f, fl)),
    ];
    (prop::collection::vec(p, 0..7), shape(), prop_oneof![1 => Just(Vec::new()), 2 => props(5)], fmt_spec(), 0u8..4)
        .prop_map(|(parts, shape, props, spec, via)| FlagCase { parts, shape, props, spec, via })
}

fn small_seqs(max_len: usize) -> Vec<Vec<u8>> {
    let mut all = vec![vec![]];
    let mut frontier = vec![vec![]];
    for _ in 0..max_len {
        let mut next = Vec::new();
        for s in &frontier {
            for a in 0..SMALL_ALPHABET as u8 {
                let mut t: Vec<u8> = s.clone();
                t.push(a);
                next.push(t);
            }
        }
        all.extend(next.iter().cloned());
        frontier = next;
    }
    all
}

// ---------------------------------------------------------------------------------------------
// phase 2: macro call sites (program generation)

#[derive(Serialize, Deserialize, Debug, Clone)]
struct SiteCase {
    id: u32,
    site: Site,
}

const SITE_TEXT: [char; 18] = ['a', 'b', ' ', '{', '}', 'é', '€', '😀', '"', '\\', '\n', '\t', 'x', '0', ':', '#', '\'', '.'];
const SAFE_TEXT: [char; 9] = ['a', 'b', ' ', 'é', '€', '😀', 'x', '0', '-'];

fn site_text() -> impl Strategy<Value = String> {
    prop_oneof![
        // mostly text that needs no escape sequence (so the search continues past the escape finding)
        7 => prop::collection::vec(prop::sample::select(SITE_TEXT.iter().copied().filter(|c| !matches!(c, '"' | '\\')).collect::<Vec<_>>()), 0..=5),
        2 => prop::collection::vec(prop::sample::select(SITE_TEXT.to_vec()), 1..=5),
    ]
    .prop_map(|v| v.into_iter().collect::<String>())
}

fn vspec(safe: bool) -> BoxedStrategy<VSpec> {
    let string = if safe {
        prop::collection::vec(prop::sample::select(SAFE_TEXT.to_vec()), 0..=4).prop_map(|v| v.into_iter().collect::<String>()).boxed()
    } else {
        site_text().boxed()
    };
    prop_oneof![
        3 => string.clone().prop_map(VSpec::Str),
        1 => string.prop_map(VSpec::OwnedString),
        2 => prop_oneof![-20i64..20, any::<i64>()].prop_map(VSpec::I),
        2 => prop::sample::select(vec![0.0f64, -0.0, 1.5, 3.14159, 1e21, 1e-7, 100.0, -2.5, 15.0]).prop_map(VSpec::F),
        1 => any::<bool>().prop_map(VSpec::B),
        1 => (-20i64..20).prop_map(VSpec::D),
    ]
    .boxed()
}

fn flag_spec() -> impl Strategy<Value = FlagSpec> {
    // the fill is ':' in a fifth of the specs that have one; every other fill character is equally likely
    let colon = program::FILLS.iter().position(|c| *c == ':').unwrap() as u8;
    let fill = prop_oneof![2 => Just(None), 2 => Just(Some(colon)), 6 => (0u8..program::FILLS.len() as u8).prop_map(Some)];
    (
        fill,
        prop_oneof![1 => Just(0u8), 3 => 1u8..4],
        prop::bool::weighted(0.2),
        prop::bool::weighted(0.15),
        prop::bool::weighted(0.15),
        prop_oneof![1 => Just(None), 5 => (0u8..=12).prop_map(Some)],
        prop_oneof![4 => Just(None), 1 => (0u8..=6).prop_map(Some)],
        prop_oneof![5 => Just(0u8), 2 => Just(1u8), 1 => 2u8..4],
    )
        .prop_map(|(fill, align, sign, alt, zero, width, precision, ty)| {
            // a fill needs an alignment; a spec with nothing in it gets a width
            let align = if fill.is_some() && align == 0 { 2 } else { align };
            let fill = if align == 0 { None } else { fill };
            let nothing = align == 0 && !sign && !alt && !zero && width.is_none() && precision.is_none() && ty == 0;
            FlagSpec { fill, align, sign, alt, zero, width: if nothing { Some(3) } else { width }, precision, ty }
        })
}

fn hole_spec(kind: SiteKind) -> BoxedStrategy<HoleSpec> {
    // (index into the fixed FLAGS pool, structured spec)
    let flags = prop_oneof![
        3 => Just((None, None)),
        1 => (0u8..program::FLAGS.len() as u8).prop_map(|f| (Some(f), None)),
        4 => flag_spec().prop_map(|s| (None, Some(s))),
    ];
    match kind {
        SiteKind::Tpl => (
            vspec(false).prop_map(|v| if matches!(v, VSpec::D(_)) { VSpec::I(7) } else { v }),
            prop_oneof![Just(Place::Local), Just(Place::ExtraLocal)],
            flags,
            prop::bool::weighted(0.3),
        )
            // raw identifiers only where the hole is not also defined by a trailing field value
            .prop_map(|(value, place, (flags, spec), raw)| HoleSpec { value, place, flags, spec, raw: raw && place == Place::Local })
            .boxed(),
        _ => prop_oneof![
            (vspec(true), Just(Place::Inline), flags.clone(), prop::bool::weighted(0.3)),
            (vspec(false), prop_oneof![Just(Place::Local), Just(Place::Extra), Just(Place::ExtraLocal)], flags, prop::bool::weighted(0.3)),
        ]
        .prop_map(|(value, place, (flags, spec), raw)| HoleSpec { value, place, flags, spec, raw: raw && matches!(place, Place::Inline | Place::Local) })
        .boxed(),
    }
}

fn site() -> impl Strategy<Value = Site> {
    prop_oneof![4 => Just(SiteKind::Format), 3 => Just(SiteKind::Tpl), 3 => Just(SiteKind::Evt)].prop_flat_map(|kind| {
        let seg = prop_oneof![
            5 => site_text().prop_map(SegSpec::Text),
            5 => hole_spec(kind).prop_map(SegSpec::Hole),
        ];
        let extras = if kind == SiteKind::Tpl { Just(Vec::new()).boxed() } else { prop::collection::vec(vspec(false), 0..=2).boxed() };
        (prop::collection::vec(seg, 0..=7), extras, 0u8..10, prop::bool::weighted(0.2)).prop_map(move |(segs, extras, name_rot, escape_controls)| Site {
            kind,
            segs,
            extras,
            name_rot,
            escape_controls,
        })
    })
}

fn check_site(case: &SiteCase, cx: &mut Cx, results: &std::collections::BTreeMap<String, Outcome>, verif_dir: &std::path::Path) -> Res {
    let site = &case.site;
    if !site.well_formed() {
        // only reachable through hand-edited replay files
        cx.class("site:ill-formed(skipped)");
        return Ok(());
    }
    let holes = site.holes();
    let text = site.text();
    cx.class(match site.kind {
        SiteKind::Format => "site:format!",
        SiteKind::Tpl => "site:tpl!",
        SiteKind::Evt => "site:evt!",
    });
    cx.class_if(text.contains('{') || text.contains('}'), "site:escaped-braces");
    cx.class_if(holes.iter().any(|h| h.flags_text().is_some()), "site:format-flags");
    cx.class_if(holes.iter().any(|h| h.raw), "hole:raw-identifier");
    cx.class_if(holes.iter().any(|h| h.raw && h.flags_text().is_some()), "hole:raw-identifier-with-fmt");
    cx.class_if(holes.iter().any(|h| h.raw && h.place == Place::Inline), "hole:raw-identifier-with-expression");
    cx.class_if(holes.iter().any(|h| h.raw && matches!(h.value, VSpec::D(_))), "hole:raw-identifier-as_debug");
    let fills: Vec<char> = holes.iter().filter_map(|h| h.spec.as_ref().and_then(|s| s.fill_char())).collect();
    cx.class_if(fills.contains(&':'), "fmt:fill-colon");
    // ... and the padding is visible: the width exceeds the value's plain display length
    let plain_len = |v: &VSpec| match v {
        VSpec::Str(s) | VSpec::OwnedString(s) => s.chars().count(),
        VSpec::I(v) => v.to_string().len(),
        VSpec::F(v) => v.to_string().len(),
        VSpec::B(v) => v.to_string().len(),
        VSpec::D(v) => format!("D({v})").len(),
    };
    cx.class_if(
        holes.iter().any(|h| h.spec.as_ref().map_or(false, |s| s.fill_char() == Some(':') && s.width.map_or(false, |w| w as usize > plain_len(&h.value) + 1))),
        "fmt:fill-colon-visible-padding",
    );
    cx.class_if(fills.iter().any(|c| "0#?+-.x<>^".contains(*c)), "fmt:fill-special");
    cx.class_if(fills.iter().any(|c| !c.is_ascii()), "fmt:fill-non-ascii");
    cx.class_if(holes.iter().any(|h| h.spec.as_ref().map_or(false, |s| s.ty % 4 >= 2)), "fmt:debug-hex-type");
    cx.class_if(holes.iter().any(|h| h.spec.as_ref().map_or(false, |s| s.sign || s.alt || s.zero)), "fmt:sign-alt-zero");
    cx.class_if(holes.iter().any(|h| h.place == Place::Inline), "site:hole-with-expression");
    cx.class_if(holes.iter().any(|h| matches!(h.place, Place::Extra | Place::ExtraLocal)), "site:hole-bound-after-literal");
    cx.class_if(holes.iter().any(|h| matches!(h.value, VSpec::D(_))), "site:as_debug");
    cx.class_if(!text.is_ascii(), "site:non-ascii-text");
    cx.class_if(site.uses_escape_sequences(), "site:escape-sequence-in-literal");
    cx.class_if(holes.is_empty(), "site:no-holes");
    // non-trivial: at least one hole next to escaped braces, format flags or non-ASCII text
    cx.nontrivial(!holes.is_empty() && (text.contains('{') || text.contains('}') || !text.is_ascii() || holes.iter().any(|h| h.flags_text().is_some())));

    let key = serde_json::to_string(site).unwrap();
    let outcome = match results.get(&key) {
        Some(o) => o.clone(),
        None => match program::run_batch(verif_dir, "single", &[(case.id, site)]) {
            Ok(m) => m.get(&case.id).cloned().unwrap_or(Outcome::Fail { sig: "harness/no-verdict".into(), detail: String::new() }),
            Err(e) => Outcome::Fail { sig: "harness/generated-program-failed".into(), detail: e },
        },
    };
    match outcome {
        Outcome::Ok => Ok(()),
        Outcome::Fail { sig, detail } => cx.fail(sig, format!("{detail}; site {}", serde_json::to_string(site).unwrap())),
    }
}

fn only_allows(name: &str) -> bool {
    let args: Vec<String> = std::env::args().collect();
    match args.iter().position(|a| a == "--only") {
        Some(i) => args.get(i + 1).map_or(true, |o| name.contains(o.as_str())),
        None => true,
    }
}

fn main() {
    vcore::run(
        "C16",
        VLevel::Exploration,
        RULE,
        &[
            "the hole formatter is an opaque function: the reference applies the same format string to the native model value with std (values are strings, 64/128-bit integers, finite floats, bools, whose emit::Value Display/Debug forward formatting flags to the native impls)",
            "two templates that differ ONLY in the formatter attached to a hole are neither required equal nor unequal by the property text: counted as don't-care (the algebraic laws are still checked on the observed results)",
            "escaping inside Debug of a Render/Template is not part of the property and is not checked",
            "displaying a Render/Template through a fmt::Formatter that carries flags (width, precision, fill/alignment, +, #, 0): text fragments and {label}s of absent holes must be written verbatim whatever the flags; a plain hole's VALUE inherits the flags, and is expected to come out as std formats the native value under the same flags (measured to be what the unpatched tree does on 12 M cases; a deviation that leaves the text intact gets its own signature render/flagged-display-value-formatting-differs); holes with their own formatter are unaffected because the pool's formatter functions use write!",
            "'static-demanding constructors (Template::new, Template::literal, Part::text, Part::hole) are fed generated data whose lifetime is extended for the duration of one case (see c16::extend)",
        ],
        |s| {
            s.require("split-differs-in-multibyte-run", 30_000);
            s.require("empty-fragment-adjacent-to-hole", 30_000);
            s.require("empty-fragment-before-hole", 25_000);
            s.require("pair:equal-by-meaning", 50_000);
            s.require("pair:unequal", 40_000);
            s.require("triple:all-equal-by-construction", 20_000);
            s.require("tpl:repeated-label", 8_000);
            s.require("hole:absent", 60_000);
            s.require("hole:present-plain", 25_000);
            s.require("hole:present-with-formatter", 10_000);
            s.require("hole:duplicate-key-with-different-values", 10_000);
            s.require("hole:empty-label", 20_000);
            s.require("render:writer-fails", 35_000);
            s.require("display-with-width-or-precision", 25_000);
            s.require("flagged:width>fragment-or-precision<fragment", 15_000);
            s.require("flagged:no-value-inherits-flags(exact)", 10_000);
            s.require("flagged:plain-hole-with-value", 8_000);
            for f in ["form:new", "form:new_ref", "form:from-slice", "form:new_owned", "form:literal", "form:literal_ref"] {
                s.require(f, 15_000);
            }
            for c in ["conv:by_ref", "conv:to_owned", "conv:clone"] {
                s.require(c, 50_000);
            }
            for c in ["site:format!", "site:tpl!", "site:evt!", "site:escaped-braces", "site:format-flags", "site:hole-with-expression", "site:hole-bound-after-literal", "site:non-ascii-text"] {
                s.require(c, 8);
            }
            // format specs whose fill is a character that means something elsewhere in the spec grammar
            s.require("hole:raw-identifier", 6);
            s.require("hole:raw-identifier-with-fmt", 3);
            s.require("fmt:fill-colon", 4);
            s.require("fmt:fill-colon-visible-padding", 2);
            s.require("fmt:fill-special", 6);

            s.gen("eq-render-triples", s.n(1_200_000, 30_000_000), triple, check_triple);

            let seqs = Arc::new(small_seqs(if s.quick() { 3 } else { 4 }));
            let n = seqs.len();
            s.enumerate(
                "eq-small-scope-pairs",
                (0..n * n).map({
                    let seqs = seqs.clone();
                    move |k| SmallPair { a: seqs[k / n].clone(), b: seqs[k % n].clone() }
                }),
                check_small_pair,
            );

            s.gen("render", s.n(400_000, 10_000_000), render_case, check_render_case);
            s.gen("display-flags", s.n(400_000, 10_000_000), flag_case, check_flag_case);

            // artifacts of the libFuzzer target `template_eq_render` (engine E6) are replayed through the same entry
            s.manual("fuzz-artifact", Vec::<Vec<u8>>::new(), |bytes, cx| {
                cx.nontrivial(true);
                match fuzz_entry(bytes) {
                    Ok(()) => Ok(()),
                    Err(f) => cx.fail(f.sig, format!("{}; decoded case: {:?}", f.msg, c16::fuzz::decode(bytes))),
                }
            });

            // phase 2: macro-generated templates. One compile per batch of sites; each site is a case.
            let mut results = std::collections::BTreeMap::new();
            let mut cases: Vec<SiteCase> = Vec::new();
            if !s.is_replay() && only_allows("macro-sites") {
                let per_batch = 240usize;
                let batches = s.n(1, 6) as usize;
                let sites: Vec<Site> = s.sample("macro-sites", site(), per_batch * batches);
                cases = sites.into_iter().enumerate().map(|(i, site)| SiteCase { id: i as u32, site }).collect();
                for (b, chunk) in cases.chunks(per_batch).enumerate() {
                    let batch: Vec<(u32, &Site)> = chunk.iter().map(|c| (c.id, &c.site)).collect();
                    match program::run_batch(&s.verif_dir, "batch", &batch) {
                        Ok(m) => {
                            for c in chunk {
                                if let Some(o) = m.get(&c.id) {
                                    results.insert(serde_json::to_string(&c.site).unwrap(), o.clone());
                                }
                            }
                        }
                        Err(e) => s.inconclusive(format!("macro-sites batch {b}: {e}")),
                    }
                }
            }
            let verif_dir = s.verif_dir.clone();
            s.manual("macro-sites", cases, |c, cx| check_site(c, cx, &results, &verif_dir));
        },
    )
}
