//! C16 — templates render and compare by meaning: model, reference oracles and drivers.
//!
//! Everything the oracle knows comes from the property text:
//!  * equality: same holes (labels) in the same positions and the same text between them, however the
//!    text is split into fragments ([`skel`] is the normal form); reflexive, symmetric, transitive,
//!    never panics;
//!  * rendering: text verbatim; a hole renders the FIRST property with its label, through the hole's
//!    formatter if it has one, else plainly; `{label}` when absent; same result for every writer and
//!    every way of constructing the template.

use std::fmt::{self, Write as _};

use emit::template::{Formatter, Part, Template, Write as TplWrite};
use emit::{Empty, Props, Str, Value};
use serde::{Deserialize, Serialize};
use vcore::{catch, pick, vassert, Cx, Fail, Res};

pub mod program;

// ---------------------------------------------------------------------------------------------
// Model

pub const TEXT_CHARS: [char; 14] = [
    'a', 'b', 'x', ' ', '{', '}', 'é', 'ß', '€', '漢', '😀', '\u{301}', '\n', '0',
];
pub const LABELS: [&str; 12] = [
    "", "a", "b", "x", "ab", "é", "a b", "{", "x}", "user_name", "0", "漢€",
];

/// How the `Str` inside a part is backed.
#[derive(Serialize, Deserialize, Debug, Clone, Copy, PartialEq, Eq)]
pub enum Flavor {
    /// `Part::text(&'static str)` / `Part::hole(&'static str)`
    Static,
    /// `Part::text_ref` / `Part::hole_ref`
    Ref,
    /// `Part::text_owned` / `Part::hole_owned`
    Owned,
    /// `Part::text_str(Str::new_shared(..))` / `Part::hole_str(..)`
    Shared,
}

pub fn flavor(i: u8) -> Flavor {
    match i % 4 {
        0 => Flavor::Static,
        1 => Flavor::Ref,
        2 => Flavor::Owned,
        _ => Flavor::Shared,
    }
}

/// One template part: text fragment, or hole (label, formatter id, backing).
#[derive(Serialize, Deserialize, Debug, Clone, PartialEq)]
pub enum P {
    T(String, Flavor),
    H(String, Option<u8>, Flavor),
}

impl P {
    pub fn is_hole(&self) -> bool {
        matches!(self, P::H(..))
    }
    pub fn is_empty_text(&self) -> bool {
        matches!(self, P::T(t, _) if t.is_empty())
    }
}

/// A property value with an unambiguous native `Display`/`Debug`.
#[derive(Serialize, Deserialize, Debug, Clone, PartialEq)]
pub enum Val {
    S(String),
    I(i64),
    U(u64),
    /// a 128-bit integer given as (high, low) halves (JSON has no 128-bit numbers)
    Big(i64, u64),
    F(f64),
    B(bool),
}

pub fn big(h: i64, l: u64) -> i128 {
    ((h as i128) << 64) | l as i128
}

impl Val {
    pub fn value(&self) -> Value<'_> {
        match self {
            Val::S(s) => Value::from(&**s),
            Val::I(v) => Value::from(*v),
            Val::U(v) => Value::from(*v),
            Val::Big(h, l) => Value::from(big(*h, *l)),
            Val::F(v) => Value::from(*v),
            Val::B(v) => Value::from(*v),
        }
    }
    pub fn display(&self) -> String {
        match self {
            Val::S(s) => s.clone(),
            Val::I(v) => v.to_string(),
            Val::U(v) => v.to_string(),
            Val::Big(h, l) => big(*h, *l).to_string(),
            Val::F(v) => v.to_string(),
            Val::B(v) => v.to_string(),
        }
    }
}

// The formatter pool. The SAME format literal drives the emit side (applied to an `emit::Value`) and
// the reference side (applied to the native model value by std).
macro_rules! formatters {
    ($($id:literal => $lit:literal),* $(,)?) => {
        pub fn emit_formatter(id: u8) -> Formatter {
            match id {
                $($id => Formatter::new(|v, f| write!(f, $lit, v)),)*
                _ => Formatter::new(|_v, f| f.write_str("#")),
            }
        }
        pub fn ref_fmt(id: u8, v: &Val) -> String {
            match id {
                $($id => match v {
                    Val::S(x) => format!($lit, x),
                    Val::I(x) => format!($lit, x),
                    Val::U(x) => format!($lit, x),
                    Val::Big(h, l) => format!($lit, big(*h, *l)),
                    Val::F(x) => format!($lit, x),
                    Val::B(x) => format!($lit, x),
                },)*
                _ => "#".to_string(),
            }
        }
    };
}
formatters!(0 => "<{}>", 1 => "{:>6}", 2 => "{:?}", 3 => "{:08.2}", 4 => "{:<4}|", 5 => "{:+}");
/// ids `0..N_FMT`; the last one ignores the value and writes `#`.
pub const N_FMT: u8 = 7;

// ---------------------------------------------------------------------------------------------
// Normal form

/// Normal form of a part sequence: the text runs between holes (`runs.len() == holes.len() + 1`).
#[derive(Debug, Clone, PartialEq)]
pub struct Skel {
    pub runs: Vec<String>,
    pub holes: Vec<(String, Option<u8>, Flavor)>,
}

pub fn skel(parts: &[P]) -> Skel {
    let mut runs = vec![String::new()];
    let mut holes = Vec::new();
    for p in parts {
        match p {
            P::T(t, _) => runs.last_mut().unwrap().push_str(t),
            P::H(l, f, fl) => {
                holes.push((l.clone(), *f, *fl));
                runs.push(String::new());
            }
        }
    }
    Skel { runs, holes }
}

#[derive(Debug, Clone, Copy, PartialEq, Eq)]
pub enum Expect {
    Equal,
    Unequal,
    /// same labels, same text, different hole formatters: the property text does not say
    Open,
}

pub fn expect_eq(a: &Skel, b: &Skel) -> Expect {
    if a.runs != b.runs
        || a.holes.len() != b.holes.len()
        || a.holes.iter().zip(&b.holes).any(|(x, y)| x.0 != y.0)
    {
        Expect::Unequal
    } else if a.holes.iter().zip(&b.holes).any(|(x, y)| x.1 != y.1) {
        Expect::Open
    } else {
        Expect::Equal
    }
}

/// Byte offsets (strictly inside the run) at which a run is cut into fragments, per run.
pub fn cuts(parts: &[P]) -> Vec<Vec<usize>> {
    let mut out = vec![Vec::new()];
    let mut off = 0usize;
    for p in parts {
        match p {
            P::T(t, _) => {
                if off > 0 && !t.is_empty() {
                    let v: &mut Vec<usize> = out.last_mut().unwrap();
                    if v.last() != Some(&off) {
                        v.push(off);
                    }
                }
                off += t.len();
            }
            P::H(..) => {
                out.push(Vec::new());
                off = 0;
            }
        }
    }
    out
}

pub fn split_differs_in_multibyte_run(a: &[P], b: &[P]) -> bool {
    let (sa, sb) = (skel(a), skel(b));
    if sa.runs.len() != sb.runs.len() {
        return false;
    }
    let (ca, cb) = (cuts(a), cuts(b));
    (0..sa.runs.len()).any(|i| ca[i] != cb[i] && (!sa.runs[i].is_ascii() || !sb.runs[i].is_ascii()))
}

pub fn empty_fragment_adjacent_to_hole(p: &[P]) -> bool {
    (0..p.len()).any(|i| {
        p[i].is_empty_text() && ((i > 0 && p[i - 1].is_hole()) || (i + 1 < p.len() && p[i + 1].is_hole()))
    })
}

pub fn empty_fragment_before_hole(p: &[P]) -> bool {
    (0..p.len()).any(|i| p[i].is_empty_text() && i + 1 < p.len() && p[i + 1].is_hole())
}

// ---------------------------------------------------------------------------------------------
// Derived partners

/// Re-split of a skeleton: per run the cut positions (indices into the run's character boundaries,
/// mapped monotonically) and whether empty pieces are kept; flavours are cycled over the parts.
#[derive(Serialize, Deserialize, Debug, Clone, Default)]
pub struct Resplit {
    pub runs: Vec<(Vec<u32>, bool)>,
    pub flavors: Vec<u8>,
}

pub fn resplit(sk: &Skel, r: &Resplit) -> Vec<P> {
    let mut out = Vec::new();
    let mut k = 0usize;
    let next_flavor = |k: &mut usize| {
        let f = if r.flavors.is_empty() { Flavor::Ref } else { flavor(r.flavors[*k % r.flavors.len()]) };
        *k += 1;
        f
    };
    for (i, run) in sk.runs.iter().enumerate() {
        let default = (Vec::new(), false);
        let (cut_picks, keep_empty) = if r.runs.is_empty() { &default } else { &r.runs[i % r.runs.len()] };
        let mut bounds: Vec<usize> = run.char_indices().map(|(i, _)| i).collect();
        bounds.push(run.len());
        let mut at: Vec<usize> = cut_picks.iter().map(|c| bounds[pick(*c, bounds.len())]).collect();
        at.sort();
        let mut prev = 0;
        at.push(run.len());
        for end in at.iter() {
            let piece = &run[prev..*end];
            prev = *end;
            // empty pieces (cuts at the ends, repeated cuts, an empty run) only survive with keep_empty
            if piece.is_empty() && !*keep_empty {
                continue;
            }
            out.push(P::T(piece.to_string(), next_flavor(&mut k)));
        }
        if let Some((l, f, _)) = sk.holes.get(i) {
            out.push(P::H(l.clone(), *f, next_flavor(&mut k)));
        }
    }
    out
}

#[derive(Serialize, Deserialize, Debug, Clone)]
pub enum Edit {
    ReplaceChar(u32, u32, u8),
    InsertChar(u32, u32, u8),
    DeleteChar(u32, u32),
    RenameHole(u32, u8),
    DropHole(u32),
    InsertHole(u32, u32, u8),
    HoleToText(u32),
    SwapHoles(u32),
    SetFmt(u32, Option<u8>),
}

fn char_bounds(s: &str) -> Vec<usize> {
    let mut b: Vec<usize> = s.char_indices().map(|(i, _)| i).collect();
    b.push(s.len());
    b
}

pub fn apply_edit(sk: &mut Skel, e: &Edit) {
    match e {
        Edit::ReplaceChar(r, p, c) => {
            let n = sk.runs.len();
            let run = &mut sk.runs[pick(*r, n)];
            let mut cs: Vec<char> = run.chars().collect();
            if !cs.is_empty() {
                let i = pick(*p, cs.len());
                cs[i] = TEXT_CHARS[*c as usize % TEXT_CHARS.len()];
                *run = cs.into_iter().collect();
            }
        }
        Edit::InsertChar(r, p, c) => {
            let n = sk.runs.len();
            let run = &mut sk.runs[pick(*r, n)];
            let b = char_bounds(run);
            run.insert(b[pick(*p, b.len())], TEXT_CHARS[*c as usize % TEXT_CHARS.len()]);
        }
        Edit::DeleteChar(r, p) => {
            let n = sk.runs.len();
            let run = &mut sk.runs[pick(*r, n)];
            let b = char_bounds(run);
            if b.len() > 1 {
                run.remove(b[pick(*p, b.len() - 1)]);
            }
        }
        Edit::RenameHole(h, l) => {
            if !sk.holes.is_empty() {
                let i = pick(*h, sk.holes.len());
                sk.holes[i].0 = LABELS[*l as usize % LABELS.len()].to_string();
            }
        }
        Edit::DropHole(h) => {
            if !sk.holes.is_empty() {
                let i = pick(*h, sk.holes.len());
                sk.holes.remove(i);
                let next = sk.runs.remove(i + 1);
                sk.runs[i].push_str(&next);
            }
        }
        Edit::InsertHole(r, p, l) => {
            let i = pick(*r, sk.runs.len());
            let b = char_bounds(&sk.runs[i]);
            let at = b[pick(*p, b.len())];
            let tail = sk.runs[i].split_off(at);
            sk.runs.insert(i + 1, tail);
            sk.holes.insert(i, (LABELS[*l as usize % LABELS.len()].to_string(), None, Flavor::Ref));
        }
        Edit::HoleToText(h) => {
            if !sk.holes.is_empty() {
                let i = pick(*h, sk.holes.len());
                let (l, _, _) = sk.holes.remove(i);
                let next = sk.runs.remove(i + 1);
                sk.runs[i].push('{');
                sk.runs[i].push_str(&l);
                sk.runs[i].push('}');
                sk.runs[i].push_str(&next);
            }
        }
        Edit::SwapHoles(h) => {
            if sk.holes.len() >= 2 {
                let i = pick(*h, sk.holes.len() - 1);
                sk.holes.swap(i, i + 1);
            }
        }
        Edit::SetFmt(h, f) => {
            if !sk.holes.is_empty() {
                let i = pick(*h, sk.holes.len());
                sk.holes[i].1 = f.map(|f| f % N_FMT);
            }
        }
    }
}

#[derive(Serialize, Deserialize, Debug, Clone)]
pub enum Derive {
    /// same meaning, different fragmentation (equal by construction)
    Resplit(Resplit),
    /// one or two edits of the meaning, then re-split (almost always unequal; the oracle decides)
    Mutant(Vec<Edit>, Resplit),
    /// unrelated
    Independent(Vec<P>),
}

pub fn derive(base: &[P], d: &Derive) -> Vec<P> {
    match d {
        Derive::Resplit(r) => resplit(&skel(base), r),
        Derive::Mutant(edits, r) => {
            let mut sk = skel(base);
            for e in edits {
                apply_edit(&mut sk, e);
            }
            resplit(&sk, r)
        }
        Derive::Independent(p) => p.clone(),
    }
}

// ---------------------------------------------------------------------------------------------
// Building real templates

#[derive(Serialize, Deserialize, Debug, Clone, Copy, PartialEq, Eq)]
pub enum Form {
    New,
    NewRef,
    FromSlice,
    NewOwned,
    Literal,
    LiteralRef,
}

#[derive(Serialize, Deserialize, Debug, Clone, Copy, PartialEq, Eq)]
pub enum Conv {
    ByRef,
    ToOwned,
    Clone,
}

#[derive(Serialize, Deserialize, Debug, Clone)]
pub struct Shape {
    pub form: Form,
    pub conv: Vec<Conv>,
}

/// SAFETY contract: the returned reference is only used while the `Built` that owns the string is
/// alive; every `Part`/`Template` created from it is a local of the check function declared AFTER
/// (hence dropped BEFORE) that `Built`. `Template::new`/`Part::text`/`Template::literal` demand
/// `'static` data; generated data cannot be `'static` without leaking 20 M cases' worth of memory.
unsafe fn extend(s: &str) -> &'static str {
    &*(s as *const str)
}

/// Owns the strings and the part array a template is built over.
pub struct Built {
    // field order = drop order: parts (which point into `spec`/`lit`) go first
    parts: Vec<Part<'static>>,
    lit: Option<Box<str>>,
    spec: Vec<P>,
}

fn str_of(s: &str, fl: Flavor) -> Str<'static> {
    let st = unsafe { extend(s) };
    match fl {
        Flavor::Static => Str::new(st),
        Flavor::Ref => Str::new_ref(st),
        Flavor::Owned => Str::new_owned(s),
        Flavor::Shared => Str::new_shared(s),
    }
}

fn part_of(p: &P) -> Part<'static> {
    match p {
        P::T(t, fl) => {
            let st = unsafe { extend(t) };
            match fl {
                Flavor::Static => Part::text(st),
                Flavor::Ref => Part::text_ref(st),
                Flavor::Owned => Part::text_owned(&**t),
                Flavor::Shared => Part::text_str(str_of(t, *fl)),
            }
        }
        P::H(l, f, fl) => {
            let st = unsafe { extend(l) };
            let part = match fl {
                Flavor::Static => Part::hole(st),
                Flavor::Ref => Part::hole_ref(st),
                Flavor::Owned => Part::hole_owned(&**l),
                Flavor::Shared => Part::hole_str(str_of(l, *fl)),
            };
            match f {
                Some(id) => part.with_formatter(emit_formatter(*id)),
                None => part,
            }
        }
    }
}

impl Built {
    pub fn new(spec: Vec<P>) -> Built {
        let lit = if spec.iter().all(|p| !p.is_hole()) {
            let mut s = String::new();
            for p in &spec {
                if let P::T(t, _) = p {
                    s.push_str(t);
                }
            }
            Some(s.into_boxed_str())
        } else {
            None
        };
        let parts = spec.iter().map(part_of).collect();
        Built { parts, lit, spec }
    }

    pub fn spec(&self) -> &[P] {
        &self.spec
    }

    /// The form that will really be used (literal forms need a hole-free template).
    pub fn effective_form(&self, form: Form) -> Form {
        match (form, &self.lit) {
            (Form::Literal, None) => Form::New,
            (Form::LiteralRef, None) => Form::NewRef,
            (f, _) => f,
        }
    }

    /// The part list the template built with `form` really has.
    pub fn effective_parts(&self, form: Form) -> Vec<P> {
        match (self.effective_form(form), &self.lit) {
            (Form::Literal, Some(l)) => vec![P::T(l.to_string(), Flavor::Static)],
            (Form::LiteralRef, Some(l)) => vec![P::T(l.to_string(), Flavor::Ref)],
            _ => self.spec.clone(),
        }
    }

    pub fn template(&self, form: Form) -> Template<'_> {
        match self.effective_form(form) {
            Form::New => {
                // SAFETY: see `extend`
                let parts: &'static [Part<'static>] = unsafe { &*(&self.parts[..] as *const [Part<'static>]) };
                Template::new(parts)
            }
            Form::NewRef => Template::new_ref(&self.parts),
            Form::FromSlice => Template::from(&self.parts[..]),
            Form::NewOwned => Template::new_owned(self.parts.clone()),
            Form::Literal => Template::literal(unsafe { extend(self.lit.as_deref().unwrap()) }),
            Form::LiteralRef => Template::literal_ref(self.lit.as_deref().unwrap()),
        }
    }
}

pub fn convert<'b>(t: &'b Template<'_>, c: Conv) -> Template<'b> {
    match c {
        Conv::ByRef => t.by_ref(),
        Conv::ToOwned => t.to_owned(),
        Conv::Clone => t.clone(),
    }
}

pub fn form_class(f: Form) -> &'static str {
    match f {
        Form::New => "form:new",
        Form::NewRef => "form:new_ref",
        Form::FromSlice => "form:from-slice",
        Form::NewOwned => "form:new_owned",
        Form::Literal => "form:literal",
        Form::LiteralRef => "form:literal_ref",
    }
}

pub fn conv_class(c: Conv) -> &'static str {
    match c {
        Conv::ByRef => "conv:by_ref",
        Conv::ToOwned => "conv:to_owned",
        Conv::Clone => "conv:clone",
    }
}

// ---------------------------------------------------------------------------------------------
// Rendering reference

#[derive(Debug, Clone, PartialEq)]
pub enum Ev {
    Text(String),
    /// label, plain display of the value
    Value(String, String),
    /// label, plain display of the value, the value through the formatter
    Fmt(String, String, String),
    Label(String),
}

pub fn first<'a>(props: &'a [(String, Val)], label: &str) -> Option<&'a Val> {
    props.iter().find(|(k, _)| k == label).map(|(_, v)| v)
}

/// The reference rendering: the text and the callbacks a template-aware writer must see.
pub fn ref_render(parts: &[P], props: &[(String, Val)]) -> (String, Vec<Ev>) {
    let mut s = String::new();
    let mut evs = Vec::new();
    for p in parts {
        match p {
            P::T(t, _) => {
                s.push_str(t);
                evs.push(Ev::Text(t.clone()));
            }
            P::H(l, f, _) => match (first(props, l), f) {
                (Some(v), Some(id)) => {
                    let out = ref_fmt(*id, v);
                    s.push_str(&out);
                    evs.push(Ev::Fmt(l.clone(), v.display(), out));
                }
                (Some(v), None) => {
                    let out = v.display();
                    s.push_str(&out);
                    evs.push(Ev::Value(l.clone(), out));
                }
                (None, _) => {
                    s.push('{');
                    s.push_str(l);
                    s.push('}');
                    evs.push(Ev::Label(l.clone()));
                }
            },
        }
    }
    (s, evs)
}

/// Applies a formatter without going through `Formatter::apply` (our own `Display` shim).
struct Through<'a>(&'a Formatter, &'a Value<'a>);
impl<'a> fmt::Display for Through<'a> {
    fn fmt(&self, f: &mut fmt::Formatter<'_>) -> fmt::Result {
        self.0.fmt(self.1.by_ref(), f)
    }
}

/// A writer that overrides every callback and records what it was given.
pub struct Recorder<'a> {
    pub evs: &'a mut Vec<Ev>,
    pub raw: &'a mut String,
}
impl<'a> fmt::Write for Recorder<'a> {
    fn write_str(&mut self, s: &str) -> fmt::Result {
        self.raw.push_str(s);
        Ok(())
    }
}
impl<'a> TplWrite for Recorder<'a> {
    fn write_text(&mut self, text: &str) -> fmt::Result {
        self.evs.push(Ev::Text(text.to_string()));
        Ok(())
    }
    fn write_hole_value(&mut self, label: &str, value: Value) -> fmt::Result {
        self.evs.push(Ev::Value(label.to_string(), value.to_string()));
        Ok(())
    }
    fn write_hole_fmt(&mut self, label: &str, value: Value, formatter: Formatter) -> fmt::Result {
        let through = Through(&formatter, &value).to_string();
        let applied = formatter.apply(value.by_ref()).to_string();
        if through != applied {
            // both are ways of running the same function: record the disagreement visibly
            self.evs.push(Ev::Fmt(label.to_string(), value.to_string(), format!("{through}≠{applied}")));
        } else {
            self.evs.push(Ev::Fmt(label.to_string(), value.to_string(), through));
        }
        Ok(())
    }
    fn write_hole_label(&mut self, label: &str) -> fmt::Result {
        self.evs.push(Ev::Label(label.to_string()));
        Ok(())
    }
}

/// A writer that only implements `fmt::Write` and takes every `template::Write` default.
#[derive(Default)]
pub struct Plain(pub String);
impl fmt::Write for Plain {
    fn write_str(&mut self, s: &str) -> fmt::Result {
        self.0.push_str(s);
        Ok(())
    }
}
impl TplWrite for Plain {}

/// A writer that accepts whole chunks while they fit a byte budget and fails afterwards.
pub struct Budget {
    pub out: String,
    pub budget: usize,
    pub failed: bool,
}
impl fmt::Write for Budget {
    fn write_str(&mut self, s: &str) -> fmt::Result {
        if self.failed || self.out.len() + s.len() > self.budget {
            self.failed = true;
            Err(fmt::Error)
        } else {
            self.out.push_str(s);
            Ok(())
        }
    }
}
impl TplWrite for Budget {}

/// A props type of our own that only implements `for_each` (so `get` is emit's default: first match).
pub struct ListProps<'a>(pub &'a [(String, Val)]);
impl<'a> Props for ListProps<'a> {
    fn for_each<'kv, F: FnMut(Str<'kv>, Value<'kv>) -> std::ops::ControlFlow<()>>(
        &'kv self,
        mut for_each: F,
    ) -> std::ops::ControlFlow<()> {
        for (k, v) in self.0 {
            for_each(Str::new_ref(k), v.value())?;
        }
        std::ops::ControlFlow::Continue(())
    }
}

#[derive(Serialize, Deserialize, Debug, Clone)]
pub struct RenderOpts {
    /// byte budget of the failing writer
    pub budget: u16,
    /// hand the recorder over by value (else through `&mut`, i.e. emit's forwarding impl)
    pub rec_by_value: bool,
    /// 0 = slice of tuples, 1 = own `Props` impl, 2 = `render(Empty).with_props(..)`
    pub props_kind: u8,
}

/// Render `tpl` (whose real parts are `parts`) every way and compare with the reference.
pub fn check_render(cx: &mut Cx, what: &str, tpl: &Template<'_>, parts: &[P], props: &[(String, Val)], o: &RenderOpts) -> Res {
    let (want, want_evs) = ref_render(parts, props);
    let tuples: Vec<(&str, Value<'_>)> = props.iter().map(|(k, v)| (&**k, v.value())).collect();
    let list = ListProps(props);

    // classification
    for p in parts {
        if let P::H(l, f, _) = p {
            match first(props, l) {
                None => cx.class("hole:absent"),
                Some(v) => {
                    cx.class(if f.is_some() { "hole:present-with-formatter" } else { "hole:present-plain" });
                    if props.iter().filter(|(k, _)| k == l).any(|(_, w)| w != v) {
                        cx.class("hole:duplicate-key-with-different-values");
                    }
                }
            }
            cx.class_if(l.is_empty(), "hole:empty-label");
        }
    }
    cx.class_if(!want.is_ascii(), "render:non-ascii-output");

    macro_rules! with_render {
        (|$r:ident| $body:expr) => {
            match o.props_kind % 3 {
                0 => {
                    let $r = tpl.render(&tuples[..]);
                    $body
                }
                1 => {
                    let $r = tpl.render(&list);
                    $body
                }
                _ => {
                    let $r = tpl.render(Empty).with_props(&tuples[..]);
                    $body
                }
            }
        };
    }

    // 1. into a String through Render::write
    let mut s = String::new();
    let r = with_render!(|r| r.write(&mut s));
    vassert!(cx, r.is_ok(), "render/string-writer-error", "{what}: write(String) returned Err for {parts:?}");
    vassert!(cx, s == want, "render/string-differs", "{what}: write(String) gave {s:?}, reference {want:?}; parts {parts:?} props {props:?}");

    // 2. through Display (fmt::Formatter specialisation)
    let d = with_render!(|r| r.to_string());
    vassert!(cx, d == want, "render/display-differs", "{what}: to_string() gave {d:?}, reference {want:?}; parts {parts:?} props {props:?}");
    let mut w = String::new();
    let _ = with_render!(|r| write!(w, "[{}]", r));
    vassert!(cx, w.len() == want.len() + 2 && w[1..w.len() - 1] == want, "render/display-differs", "{what}: write!(\"[{{}}]\") gave {w:?}, reference {want:?}");

    // 3. a recording writer must see exactly one right callback per part, and nothing raw
    let mut evs = Vec::new();
    let mut raw = String::new();
    let r = if o.rec_by_value {
        with_render!(|r| r.write(Recorder { evs: &mut evs, raw: &mut raw }))
    } else {
        let mut rec = Recorder { evs: &mut evs, raw: &mut raw };
        with_render!(|r| r.write(&mut rec))
    };
    vassert!(cx, r.is_ok(), "render/recorder-error", "{what}: write(recorder) returned Err");
    vassert!(cx, evs == want_evs, "render/callbacks-differ", "{what}: recorder saw {evs:?}, reference {want_evs:?}; parts {parts:?} props {props:?}");
    vassert!(cx, raw.is_empty(), "render/raw-write-bypasses-callbacks", "{what}: {raw:?} was written with write_str although every callback is overridden");

    // 4. a writer taking every default method
    let mut plain = Plain::default();
    let r = with_render!(|r| r.write(&mut plain));
    vassert!(cx, r.is_ok() && plain.0 == want, "render/default-writer-differs", "{what}: default-method writer gave {:?} ({r:?}), reference {want:?}", plain.0);

    // 5. a writer that fails: the error must surface, what was accepted must be a prefix
    let mut b = Budget { out: String::new(), budget: o.budget as usize, failed: false };
    let r = with_render!(|r| r.write(&mut b));
    if want.len() <= o.budget as usize {
        vassert!(cx, r.is_ok() && b.out == want, "render/budget-writer-differs", "{what}: roomy writer gave {:?} ({r:?}), reference {want:?}", b.out);
    } else {
        cx.class("render:writer-fails");
        vassert!(cx, r.is_err(), "render/writer-error-swallowed", "{what}: writer failed after {} bytes but write() returned Ok", b.out.len());
        vassert!(cx, want.starts_with(&b.out), "render/budget-writer-differs", "{what}: failing writer accepted {:?}, not a prefix of {want:?}", b.out);
    }

    // 6. through an event's message
    let evt = emit::Event::new(emit::Path::new_raw("c16"), tpl.by_ref(), Empty, &tuples[..]);
    let m = evt.msg().to_string();
    vassert!(cx, m == want, "render/event-msg-differs", "{what}: evt.msg() gave {m:?}, reference {want:?}");
    Ok(())
}

/// Things that do not depend on props: `Display` of the template itself, `as_literal`, `parts()`.
pub fn check_structure(cx: &mut Cx, what: &str, tpl: &Template<'_>, parts: &[P]) -> Res {
    let (want, _) = ref_render(parts, &[]);
    let d = tpl.to_string();
    vassert!(cx, d == want, "render/template-display-differs", "{what}: Template::to_string() gave {d:?}, reference {want:?}");
    let v = Value::from_any(tpl).to_string();
    vassert!(cx, v == want, "render/template-to-value-differs", "{what}: Value::from_any(&tpl) displays {v:?}, reference {want:?}");

    // as_literal: Some exactly for a single text part (rustdoc of as_literal)
    let lit = tpl.as_literal().map(|s| s.get().to_string());
    let want_lit = match parts {
        [P::T(t, _)] => Some(t.clone()),
        _ => None,
    };
    vassert!(cx, lit == want_lit, "structure/as-literal", "{what}: as_literal() = {lit:?}, expected {want_lit:?} for {parts:?}");

    // parts(): the same parts, in order, with labels, text and formatter presence intact
    let got: Vec<(Option<String>, Option<String>, bool)> = tpl
        .parts()
        .map(|p| (p.as_text().map(|s| s.get().to_string()), p.label().map(|s| s.get().to_string()), p.formatter().is_some()))
        .collect();
    let want_parts: Vec<(Option<String>, Option<String>, bool)> = parts
        .iter()
        .map(|p| match p {
            P::T(t, _) => (Some(t.clone()), None, false),
            P::H(l, f, _) => (None, Some(l.clone()), f.is_some()),
        })
        .collect();
    vassert!(cx, got == want_parts, "structure/parts-differ", "{what}: parts() = {got:?}, expected {want_parts:?}");
    Ok(())
}

// ---------------------------------------------------------------------------------------------
// Equality

/// `x == y` observed without letting a panic escape. `None` = panicked and that panic is a listed finding.
pub fn eq_obs(cx: &mut Cx, what: &str, x: &Template<'_>, y: &Template<'_>, xs: &[P], ys: &[P]) -> Result<Option<bool>, Fail> {
    match catch(|| x == y) {
        Ok(r) => Ok(Some(r)),
        Err(p) => {
            cx.fail("eq/panics", format!("{what}: `==` panicked ({}) for {xs:?} vs {ys:?}", p.msg))?;
            Ok(None)
        }
    }
}

fn without_empty(p: &[P]) -> Vec<P> {
    p.iter().filter(|p| !p.is_empty_text()).cloned().collect()
}

/// Judge one observed comparison against the normal-form oracle.
pub fn judge_eq(cx: &mut Cx, what: &str, got: Option<bool>, xs: &[P], ys: &[P]) -> Res {
    let Some(got) = got else { return Ok(()) };
    match (expect_eq(&skel(xs), &skel(ys)), got) {
        (Expect::Equal, false) => {
            // refine the signature: does merely dropping the empty fragments make them compare equal?
            let (bx, by) = (Built::new(without_empty(xs)), Built::new(without_empty(ys)));
            let again = catch(|| bx.template(Form::NewRef) == by.template(Form::NewRef)).unwrap_or(false);
            let sig = if again && (empty_fragment_before_hole(xs) || empty_fragment_before_hole(ys)) {
                "eq/false-negative/empty-fragment-before-hole"
            } else {
                "eq/false-negative"
            };
            cx.fail(sig, format!("{what}: same holes and same text but `==` is false: {xs:?} vs {ys:?}"))
        }
        (Expect::Unequal, true) => cx.fail("eq/false-positive", format!("{what}: holes or text differ but `==` is true: {xs:?} vs {ys:?}")),
        (Expect::Open, _) => {
            cx.dont_care();
            cx.class("eq:formatters-differ-only(open)");
            Ok(())
        }
        _ => Ok(()),
    }
}

/// The algebraic laws on a matrix of observed results (independent of the normal-form oracle).
pub fn check_laws(cx: &mut Cx, m: &[Vec<Option<bool>>], specs: &[&[P]]) -> Res {
    let n = m.len();
    for i in 0..n {
        if m[i][i] == Some(false) {
            cx.fail("eq/not-reflexive", format!("x != x for {:?}", specs[i]))?;
        }
        for j in 0..n {
            if let (Some(a), Some(b)) = (m[i][j], m[j][i]) {
                if a != b {
                    cx.fail("eq/not-symmetric", format!("(x==y)={a} but (y==x)={b} for {:?} vs {:?}", specs[i], specs[j]))?;
                }
            }
            for k in 0..n {
                if m[i][j] == Some(true) && m[j][k] == Some(true) && m[i][k] == Some(false) {
                    cx.fail(
                        "eq/not-transitive",
                        format!("x==y and y==z but x!=z for {:?}, {:?}, {:?}", specs[i], specs[j], specs[k]),
                    )?;
                }
            }
        }
    }
    Ok(())
}

// ---------------------------------------------------------------------------------------------
// The cases

#[derive(Serialize, Deserialize, Debug, Clone)]
pub struct Triple {
    pub base: Vec<P>,
    pub b: Derive,
    pub c: Derive,
    pub shapes: [Shape; 3],
    pub props: Vec<(String, Val)>,
    pub opts: RenderOpts,
}

pub fn check_triple(case: &Triple, cx: &mut Cx) -> Res {
    // the holders are declared first: they outlive every template below
    let ha = Built::new(case.base.clone());
    let hb = Built::new(derive(&case.base, &case.b));
    let hc = Built::new(derive(&case.base, &case.c));
    let holders = [&ha, &hb, &hc];

    // classification / non-triviality (on the part lists as given)
    let mut nontrivial = false;
    for (i, j) in [(0, 1), (0, 2), (1, 2)] {
        let (x, y) = (holders[i].spec(), holders[j].spec());
        if split_differs_in_multibyte_run(x, y) {
            cx.class("split-differs-in-multibyte-run");
            nontrivial = true;
        }
        match expect_eq(&skel(x), &skel(y)) {
            Expect::Equal => cx.class(if x == y { "pair:identical" } else { "pair:equal-by-meaning" }),
            Expect::Unequal => cx.class("pair:unequal"),
            Expect::Open => {}
        }
    }
    for h in holders {
        if empty_fragment_adjacent_to_hole(h.spec()) {
            cx.class("empty-fragment-adjacent-to-hole");
            nontrivial = true;
        }
        cx.class_if(empty_fragment_before_hole(h.spec()), "empty-fragment-before-hole");
        cx.class_if(h.spec().is_empty(), "tpl:no-parts");
        let sk = skel(h.spec());
        let mut labels: Vec<&String> = sk.holes.iter().map(|h| &h.0).collect();
        let n = labels.len();
        labels.sort();
        labels.dedup();
        cx.class_if(labels.len() < n, "tpl:repeated-label");
    }
    cx.nontrivial(nontrivial);
    for d in [&case.b, &case.c] {
        cx.class(match d {
            Derive::Resplit(_) => "partner:resplit",
            Derive::Mutant(..) => "partner:mutant",
            Derive::Independent(_) => "partner:independent",
        });
    }
    if let (Derive::Resplit(_), Derive::Resplit(_)) = (&case.b, &case.c) {
        cx.class("triple:all-equal-by-construction");
    }

    // base-form templates, then the conversion chains (at most two steps each)
    let base: Vec<Template<'_>> = (0..3).map(|i| holders[i].template(case.shapes[i].form)).collect();
    let eff: Vec<Vec<P>> = (0..3).map(|i| holders[i].effective_parts(case.shapes[i].form)).collect();
    for i in 0..3 {
        cx.class(form_class(holders[i].effective_form(case.shapes[i].form)));
        for c in case.shapes[i].conv.iter().take(2) {
            cx.class(conv_class(*c));
        }
    }
    let step1: Vec<Option<Template<'_>>> = (0..3).map(|i| case.shapes[i].conv.first().map(|c| convert(&base[i], *c))).collect();
    let after1: Vec<&Template<'_>> = (0..3).map(|i| step1[i].as_ref().unwrap_or(&base[i])).collect();
    let step2: Vec<Option<Template<'_>>> = (0..3).map(|i| case.shapes[i].conv.get(1).map(|c| convert(after1[i], *c))).collect();
    let fin: Vec<&Template<'_>> = (0..3).map(|i| step2[i].as_ref().unwrap_or(after1[i])).collect();

    // equality matrix over the converted templates
    let names = ["a", "b", "c"];
    let mut m = vec![vec![None; 3]; 3];
    for i in 0..3 {
        for j in 0..3 {
            let what = format!("{}=={}", names[i], names[j]);
            m[i][j] = eq_obs(cx, &what, fin[i], fin[j], &eff[i], &eff[j])?;
            judge_eq(cx, &what, m[i][j], &eff[i], &eff[j])?;
        }
    }
    let specs: Vec<&[P]> = eff.iter().map(|v| &v[..]).collect();
    check_laws(cx, &m, &specs)?;

    // a template and its conversions are the same template
    for i in 0..3 {
        if !case.shapes[i].conv.is_empty() {
            for (x, y, what) in [(&base[i], fin[i], "base==converted"), (fin[i], &base[i], "converted==base")] {
                if let Some(r) = eq_obs(cx, what, x, y, &eff[i], &eff[i])? {
                    vassert!(cx, r, "eq/conversion-changes-identity", "{what} is false for {:?} via {:?}", eff[i], case.shapes[i]);
                }
            }
        }
    }

    // structure + rendering, identical across forms
    for i in 0..3 {
        check_structure(cx, names[i], fin[i], &eff[i])?;
        check_render(cx, names[i], fin[i], &eff[i], &case.props, &case.opts)?;
    }
    if !case.shapes[0].conv.is_empty() {
        check_render(cx, "a(base form)", &base[0], &eff[0], &case.props, &case.opts)?;
    }
    Ok(())
}

/// Small-scope pair: two part sequences over a tiny alphabet, compared both ways.
#[derive(Serialize, Deserialize, Debug, Clone)]
pub struct SmallPair {
    pub a: Vec<u8>,
    pub b: Vec<u8>,
}

pub const SMALL_ALPHABET: usize = 7;
pub fn small_part(i: u8) -> P {
    match i {
        0 => P::T(String::new(), Flavor::Ref),
        1 => P::T("é".into(), Flavor::Ref),
        2 => P::T("x".into(), Flavor::Static),
        3 => P::T("éx".into(), Flavor::Owned),
        4 => P::H("a".into(), None, Flavor::Ref),
        5 => P::H(String::new(), None, Flavor::Static),
        _ => P::T("€".into(), Flavor::Shared),
    }
}

pub fn check_small_pair(case: &SmallPair, cx: &mut Cx) -> Res {
    let a: Vec<P> = case.a.iter().map(|i| small_part(*i)).collect();
    let b: Vec<P> = case.b.iter().map(|i| small_part(*i)).collect();
    let (ha, hb) = (Built::new(a), Built::new(b));
    let nt = split_differs_in_multibyte_run(ha.spec(), hb.spec())
        || empty_fragment_adjacent_to_hole(ha.spec())
        || empty_fragment_adjacent_to_hole(hb.spec());
    cx.nontrivial(nt);
    cx.class(match expect_eq(&skel(ha.spec()), &skel(hb.spec())) {
        Expect::Equal => "small:equal",
        Expect::Unequal => "small:unequal",
        Expect::Open => "small:open",
    });
    let (ta, tb) = (ha.template(Form::NewRef), hb.template(Form::NewRef));
    let ab = eq_obs(cx, "a==b", &ta, &tb, ha.spec(), hb.spec())?;
    judge_eq(cx, "a==b", ab, ha.spec(), hb.spec())?;
    let ba = eq_obs(cx, "b==a", &tb, &ta, hb.spec(), ha.spec())?;
    judge_eq(cx, "b==a", ba, hb.spec(), ha.spec())?;
    if let (Some(x), Some(y)) = (ab, ba) {
        vassert!(cx, x == y, "eq/not-symmetric", "(a==b)={x} (b==a)={y} for {:?} vs {:?}", ha.spec(), hb.spec());
    }
    // owned copies behave the same
    let (oa, ob) = (ta.to_owned(), tb.to_owned());
    let oab = eq_obs(cx, "owned a==b", &oa, &ob, ha.spec(), hb.spec())?;
    if let (Some(x), Some(y)) = (ab, oab) {
        vassert!(cx, x == y, "eq/owned-differs-from-borrowed", "(a==b)={x} but owned copies give {y} for {:?} vs {:?}", ha.spec(), hb.spec());
    }
    Ok(())
}

/// Rendering-focused case: one template, a larger property list.
#[derive(Serialize, Deserialize, Debug, Clone)]
pub struct RenderCase {
    pub parts: Vec<P>,
    pub shape: Shape,
    pub props: Vec<(String, Val)>,
    pub opts: RenderOpts,
}

pub fn check_render_case(case: &RenderCase, cx: &mut Cx) -> Res {
    let h = Built::new(case.parts.clone());
    let eff = h.effective_parts(case.shape.form);
    let base = h.template(case.shape.form);
    cx.class(form_class(h.effective_form(case.shape.form)));
    let s1 = case.shape.conv.first().map(|c| convert(&base, *c));
    let a1 = s1.as_ref().unwrap_or(&base);
    let s2 = case.shape.conv.get(1).map(|c| convert(a1, *c));
    let fin = s2.as_ref().unwrap_or(a1);
    for c in case.shape.conv.iter().take(2) {
        cx.class(conv_class(*c));
    }
    let holes = eff.iter().filter(|p| p.is_hole()).count();
    let hit = eff.iter().filter(|p| matches!(p, P::H(l, _, _) if first(&case.props, l).is_some())).count();
    // non-trivial: at least one hole filled from the properties and one non-ASCII or empty fragment/label around
    cx.nontrivial(hit > 0 && (eff.iter().any(|p| matches!(p, P::T(t, _) if !t.is_ascii() || t.is_empty())) || holes > hit));
    check_structure(cx, "tpl", fin, &eff)?;
    check_render(cx, "tpl", fin, &eff, &case.props, &case.opts)?;
    if !case.shape.conv.is_empty() {
        check_render(cx, "tpl(base form)", &base, &eff, &case.props, &case.opts)?;
    }
    Ok(())
}

// ---------------------------------------------------------------------------------------------
// Display through a `fmt::Formatter` that carries flags (`{:>12.3}`, `{:08}`, `{:+#}` ...)
//
// A `fmt::Formatter` is a writer like any other; the format spec it was created for (width, precision,
// fill/alignment, sign, `#`, `0`) must not change how TEXT is written: fragments verbatim, `{label}` for
// absent holes.

/// A format spec chosen at runtime: one of a few fixed fill/alignment/sign/`#`/`0` variants plus runtime
/// width and precision.
#[derive(Serialize, Deserialize, Debug, Clone, PartialEq)]
pub struct FmtSpec {
    /// index into `FLAG_VARIANTS`
    pub variant: u8,
    pub width: Option<u8>,
    pub precision: Option<u8>,
}

macro_rules! flag_variants {
    ($($id:literal => $fl:literal),* $(,)?) => {
        pub const FLAG_VARIANTS: &[&str] = &[$($fl),*];
        /// `format!("{:<flags><width>.<precision>}", d)` with the flags of `spec`.
        pub fn display_flagged(d: &dyn fmt::Display, spec: &FmtSpec) -> String {
            let w = spec.width.map(|w| w as usize);
            let p = spec.precision.map(|p| p as usize);
            match (spec.variant % FLAG_VARIANTS.len() as u8, w, p) {
                $(
                    ($id, None, None) => format!(concat!("{:", $fl, "}"), d),
                    ($id, Some(w), None) => format!(concat!("{:", $fl, "w$}"), d, w = w),
                    ($id, None, Some(p)) => format!(concat!("{:", $fl, ".p$}"), d, p = p),
                    ($id, Some(w), Some(p)) => format!(concat!("{:", $fl, "w$.p$}"), d, w = w, p = p),
                )*
                _ => unreachable!(),
            }
        }
    };
}
flag_variants!(0 => "", 1 => "<", 2 => ">", 3 => "^", 4 => "*<", 5 => "*>", 6 => "-^", 7 => "+", 8 => "#", 9 => "0", 10 => "+#0", 11 => "_>+#");

impl FmtSpec {
    pub fn text(&self) -> String {
        format!(
            "{{:{}{}{}}}",
            FLAG_VARIANTS[self.variant as usize % FLAG_VARIANTS.len()],
            self.width.map(|w| w.to_string()).unwrap_or_default(),
            self.precision.map(|p| format!(".{p}")).unwrap_or_default()
        )
    }
}

fn val_flagged(v: &Val, spec: &FmtSpec) -> String {
    match v {
        Val::S(x) => display_flagged(x, spec),
        Val::I(x) => display_flagged(x, spec),
        Val::U(x) => display_flagged(x, spec),
        Val::Big(h, l) => display_flagged(&big(*h, *l), spec),
        Val::F(x) => display_flagged(x, spec),
        Val::B(x) => display_flagged(x, spec),
    }
}

/// One piece of the expected flagged output.
#[derive(Debug, Clone, PartialEq)]
pub enum Piece {
    /// must appear exactly: text fragments, `{label}` of absent holes, the output of a hole's own formatter
    /// (our formatter functions use `write!`, whose arguments carry their own specs)
    Fixed(String),
    /// a plain hole with a value: the value is displayed with the formatter's flags inherited; `String` is
    /// what std gives for the native value under the same flags
    Value(String),
}

pub fn ref_flagged(parts: &[P], props: &[(String, Val)], spec: &FmtSpec) -> Vec<Piece> {
    let mut out = Vec::new();
    for p in parts {
        match p {
            P::T(t, _) => out.push(Piece::Fixed(t.clone())),
            P::H(l, f, _) => match (first(props, l), f) {
                (Some(v), Some(id)) => out.push(Piece::Fixed(ref_fmt(*id, v))),
                (Some(v), None) => out.push(Piece::Value(val_flagged(v, spec))),
                (None, _) => out.push(Piece::Fixed(format!("{{{l}}}"))),
            },
        }
    }
    out
}

/// Can `out` be cut into the pieces in order, every `Fixed` verbatim and every `Value` arbitrary?
pub fn matches_verbatim_in_order(out: &str, pieces: &[Piece]) -> bool {
    // merge into: fixed runs separated by wildcards
    let mut runs: Vec<String> = vec![String::new()];
    for p in pieces {
        match p {
            Piece::Fixed(s) => runs.last_mut().unwrap().push_str(s),
            Piece::Value(_) => runs.push(String::new()),
        }
    }
    if runs.len() == 1 {
        return out == runs[0];
    }
    let (first_run, last_run) = (&runs[0], &runs[runs.len() - 1]);
    if out.len() < first_run.len() + last_run.len() || !out.starts_with(first_run.as_str()) || !out.ends_with(last_run.as_str()) {
        return false;
    }
    let mut rest = &out[first_run.len()..out.len() - last_run.len()];
    for mid in &runs[1..runs.len() - 1] {
        match rest.find(mid.as_str()) {
            Some(i) => rest = &rest[i + mid.len()..],
            None => return false,
        }
    }
    true
}

#[derive(Serialize, Deserialize, Debug, Clone)]
pub struct FlagCase {
    pub parts: Vec<P>,
    pub shape: Shape,
    pub props: Vec<(String, Val)>,
    pub spec: FmtSpec,
    /// 0 = slice of tuples, 1 = own `Props` impl, 2 = `render(Empty).with_props(..)`, 3 = `Event::msg()`
    pub via: u8,
}

fn judge_flagged(cx: &mut Cx, what: &str, got: &str, pieces: &[Piece], spec: &FmtSpec, parts: &[P], props: &[(String, Val)]) -> Res {
    let want: String = pieces.iter().map(|p| match p { Piece::Fixed(s) | Piece::Value(s) => s.as_str() }).collect();
    if got == want {
        return Ok(());
    }
    if !matches_verbatim_in_order(got, pieces) {
        return cx.fail(
            "render/flagged-display-text-not-verbatim",
            format!("{what} with {}: got {got:?}; text fragments / {{label}}s must appear verbatim and in order as in {pieces:?}; parts {parts:?} props {props:?}", spec.text()),
        );
    }
    // the text is intact; only the way a VALUE took the inherited flags differs from std's formatting of
    // the native value under the same flags (what the implementation has always done). The statement
    // only says the value is written, so values written WITHOUT the outer flags are accepted as well.
    let unflagged = ref_flagged(parts, props, &FmtSpec { variant: 0, width: None, precision: None });
    let plain: String = unflagged.iter().map(|p| match p { Piece::Fixed(s) | Piece::Value(s) => s.as_str() }).collect();
    if got == plain {
        cx.dont_care();
        cx.class("dontcare:flagged-values-written-without-the-outer-flags");
        return Ok(());
    }
    cx.fail(
        "render/flagged-display-value-formatting-differs",
        format!("{what} with {}: got {got:?}, expected {want:?} (each plain value formatted with the same flags); parts {parts:?} props {props:?}", spec.text()),
    )
}

pub fn check_flag_case(case: &FlagCase, cx: &mut Cx) -> Res {
    let h = Built::new(case.parts.clone());
    let eff = h.effective_parts(case.shape.form);
    let base = h.template(case.shape.form);
    let s1 = case.shape.conv.first().map(|c| convert(&base, *c));
    let a1 = s1.as_ref().unwrap_or(&base);
    let s2 = case.shape.conv.get(1).map(|c| convert(a1, *c));
    let tpl = s2.as_ref().unwrap_or(a1);
    let spec = &case.spec;

    let pieces = ref_flagged(&eff, &case.props, spec);
    let with_values = pieces.iter().any(|p| matches!(p, Piece::Value(_)));
    let chars = |p: &P| match p {
        P::T(t, _) => Some(t.chars().count()),
        _ => None,
    };
    let bites = spec.width.map_or(false, |w| eff.iter().filter_map(chars).any(|n| n < w as usize))
        || spec.precision.map_or(false, |p| eff.iter().filter_map(chars).any(|n| n > p as usize));
    cx.class_if(spec.width.is_some() || spec.precision.is_some(), "display-with-width-or-precision");
    cx.class_if(spec.width.is_some(), "flagged:width");
    cx.class_if(spec.precision.is_some(), "flagged:precision");
    cx.class_if(spec.variant % FLAG_VARIANTS.len() as u8 != 0, "flagged:fill-align-sign-alt-zero");
    cx.class(if with_values { "flagged:plain-hole-with-value" } else { "flagged:no-value-inherits-flags(exact)" });
    cx.class_if(bites, "flagged:width>fragment-or-precision<fragment");
    // non-trivial: a width larger than some text fragment or a precision smaller than one
    cx.nontrivial(bites);

    let tuples: Vec<(&str, Value<'_>)> = case.props.iter().map(|(k, v)| (&**k, v.value())).collect();
    let list = ListProps(&case.props);
    let got = catch(|| match case.via % 4 {
        0 => display_flagged(&tpl.render(&tuples[..]), spec),
        1 => display_flagged(&tpl.render(&list), spec),
        2 => display_flagged(&tpl.render(Empty).with_props(&tuples[..]), spec),
        _ => {
            let evt = emit::Event::new(emit::Path::new_raw("c16"), tpl.by_ref(), Empty, &tuples[..]);
            let out = display_flagged(&evt.msg(), spec);
            out
        }
    });
    let got = match got {
        Ok(g) => g,
        Err(p) => return cx.fail("render/flagged-display-panics", format!("Display of Render with {} panicked: {}; parts {eff:?}", spec.text(), p.msg)),
    };
    judge_flagged(cx, "Display of Render", &got, &pieces, spec, &eff, &case.props)?;

    // the template itself displays as its rendering without properties: no value anywhere, so exact
    let bare = ref_flagged(&eff, &[], spec);
    let got = match catch(|| display_flagged(tpl, spec)) {
        Ok(g) => g,
        Err(p) => return cx.fail("render/flagged-display-panics", format!("Display of Template with {} panicked: {}; parts {eff:?}", spec.text(), p.msg)),
    };
    judge_flagged(cx, "Display of Template", &got, &bare, spec, &eff, &[])
}

// ---------------------------------------------------------------------------------------------
// Engine E6: the same cases decoded from fuzzer bytes (libFuzzer target `template_eq_render`)

/// Byte decoder for the three case types. Every choice consumes whole bytes from the FRONT of the input
/// (`int_in_range` over a range of at most 256 values = one byte, taken modulo the range; 32-bit indices = one byte
/// spread over the 32 bits, which is all `vcore::pick` needs), so inputs can be written by hand: see
/// `/verif/fuzzing/mkcorpus.py`. Exhausted input reads as zeros, i.e. every length becomes 0 and decoding ends.
/// The domain is the one of the proptest generators in `main.rs`, except that template text, hole labels and
/// property keys may also contain arbitrary `char`s (they are only ever copied or compared).
pub mod fuzz {
    use super::*;
    use arbitrary::{Result, Unstructured};

    fn idx(u: &mut Unstructured) -> Result<u32> {
        Ok(u.arbitrary::<u8>()? as u32 * 0x0101_0101)
    }

    fn chars(u: &mut Unstructured, max: usize, free: bool) -> Result<String> {
        let n = u.int_in_range(0..=max)?;
        let mut s = String::new();
        for _ in 0..n {
            let i = u.int_in_range(0..=if free { TEXT_CHARS.len() + 1 } else { TEXT_CHARS.len() - 1 })?;
            s.push(if i < TEXT_CHARS.len() { TEXT_CHARS[i] } else { u.arbitrary::<char>()? });
        }
        Ok(s)
    }

    pub fn text(u: &mut Unstructured) -> Result<String> {
        chars(u, 4, true)
    }

    pub fn label(u: &mut Unstructured) -> Result<String> {
        let i = u.int_in_range(0..=LABELS.len())?;
        if i < LABELS.len() {
            Ok(LABELS[i].to_string())
        } else {
            chars(u, 3, true)
        }
    }

    fn flavor_of(u: &mut Unstructured) -> Result<Flavor> {
        Ok(flavor(u.int_in_range(0..=3)?))
    }

    fn fmt_id(u: &mut Unstructured) -> Result<Option<u8>> {
        let i: u8 = u.int_in_range(0..=4 * N_FMT - 1)?;
        Ok((i < N_FMT).then_some(i))
    }

    pub fn part(u: &mut Unstructured) -> Result<P> {
        Ok(if u.int_in_range(0..=1)? == 0u8 { P::T(text(u)?, flavor_of(u)?) } else { P::H(label(u)?, fmt_id(u)?, flavor_of(u)?) })
    }

    pub fn parts(u: &mut Unstructured, min: usize, max: usize) -> Result<Vec<P>> {
        let n = u.int_in_range(min..=max)?;
        (0..n).map(|_| part(u)).collect()
    }

    fn resplit_of(u: &mut Unstructured) -> Result<Resplit> {
        let n = u.int_in_range(0..=3)?;
        let mut runs = Vec::new();
        for _ in 0..n {
            let m = u.int_in_range(0..=3)?;
            let cuts = (0..m).map(|_| idx(u)).collect::<Result<Vec<u32>>>()?;
            runs.push((cuts, u.arbitrary::<bool>()?));
        }
        let k = u.int_in_range(0..=3)?;
        let flavors = (0..k).map(|_| u.int_in_range(0..=3)).collect::<Result<Vec<u8>>>()?;
        Ok(Resplit { runs, flavors })
    }

    fn edit(u: &mut Unstructured) -> Result<Edit> {
        let ch = |u: &mut Unstructured| u.int_in_range(0..=TEXT_CHARS.len() as u8 - 1);
        let lb = |u: &mut Unstructured| u.int_in_range(0..=LABELS.len() as u8 - 1);
        Ok(match u.int_in_range(0..=8)? {
            0u8 => Edit::ReplaceChar(idx(u)?, idx(u)?, ch(u)?),
            1 => Edit::InsertChar(idx(u)?, idx(u)?, ch(u)?),
            2 => Edit::DeleteChar(idx(u)?, idx(u)?),
            3 => Edit::RenameHole(idx(u)?, lb(u)?),
            4 => Edit::DropHole(idx(u)?),
            5 => Edit::InsertHole(idx(u)?, idx(u)?, lb(u)?),
            6 => Edit::HoleToText(idx(u)?),
            7 => Edit::SwapHoles(idx(u)?),
            _ => Edit::SetFmt(idx(u)?, fmt_id(u)?),
        })
    }

    fn derive_of(u: &mut Unstructured) -> Result<Derive> {
        Ok(match u.int_in_range(0..=9)? {
            0u8..=4 => Derive::Resplit(resplit_of(u)?),
            5..=8 => {
                let n = u.int_in_range(1..=2)?;
                let edits = (0..n).map(|_| edit(u)).collect::<Result<Vec<Edit>>>()?;
                Derive::Mutant(edits, resplit_of(u)?)
            }
            _ => Derive::Independent(parts(u, 0, 6)?),
        })
    }

    fn shape(u: &mut Unstructured) -> Result<Shape> {
        let form = [Form::New, Form::NewRef, Form::FromSlice, Form::NewOwned, Form::Literal, Form::LiteralRef][u.int_in_range(0..=5)?];
        let n = u.int_in_range(0..=2)?;
        let conv = (0..n).map(|_| Ok([Conv::ByRef, Conv::ToOwned, Conv::Clone][u.int_in_range(0..=2)?])).collect::<Result<Vec<Conv>>>()?;
        Ok(Shape { form, conv })
    }

    fn val(u: &mut Unstructured) -> Result<Val> {
        const FIXED: [&str; 5] = ["Rust", "{x}", "a\"b\\", "  ", "längere Zeichenkette"];
        const FLOATS: [f64; 6] = [0.0, -0.0, 1.5, 1e21, 1e-7, 100.0];
        Ok(match u.int_in_range(0..=11)? {
            0u8..=2 => Val::S(chars(u, 4, false)?),
            3 => Val::S(FIXED[u.int_in_range(0..=FIXED.len() - 1)?].to_string()),
            4 => Val::I(u.int_in_range(-20i64..=19)?),
            5 => Val::I(u.arbitrary()?),
            6 => Val::U(if u.arbitrary::<bool>()? { u64::MAX } else { u.arbitrary()? }),
            7 => Val::Big(u.arbitrary()?, u.arbitrary()?),
            8 => Val::F(FLOATS[u.int_in_range(0..=FLOATS.len() - 1)?]),
            9 => Val::F(u.int_in_range(-1_000_000i32..=999_999)? as f64 / 128.0),
            10 => Val::B(u.arbitrary()?),
            _ => Val::I(u.int_in_range(-20i64..=19)?),
        })
    }

    pub fn props(u: &mut Unstructured, max: usize) -> Result<Vec<(String, Val)>> {
        let n = u.int_in_range(0..=max)?;
        let mut out = Vec::new();
        for _ in 0..n {
            let key = if u.int_in_range(0..=9)? == 9u8 { "zz".to_string() } else { label(u)? };
            out.push((key, val(u)?));
        }
        Ok(out)
    }

    fn opts(u: &mut Unstructured) -> Result<RenderOpts> {
        Ok(RenderOpts { budget: u.int_in_range(0..=39)?, rec_by_value: u.arbitrary()?, props_kind: u.int_in_range(0..=2)? })
    }

    pub fn triple(u: &mut Unstructured) -> Result<Triple> {
        Ok(Triple {
            base: parts(u, 0, 6)?,
            b: derive_of(u)?,
            c: derive_of(u)?,
            shapes: [shape(u)?, shape(u)?, shape(u)?],
            props: props(u, 5)?,
            opts: opts(u)?,
        })
    }

    pub fn small_pair(u: &mut Unstructured) -> Result<SmallPair> {
        let seq = |u: &mut Unstructured| -> Result<Vec<u8>> {
            let n = u.int_in_range(0..=4)?;
            (0..n).map(|_| u.int_in_range(0..=SMALL_ALPHABET as u8 - 1)).collect()
        };
        Ok(SmallPair { a: seq(u)?, b: seq(u)? })
    }

    pub fn render_case(u: &mut Unstructured) -> Result<RenderCase> {
        Ok(RenderCase { parts: parts(u, 1, 9)?, shape: shape(u)?, props: props(u, 12)?, opts: opts(u)? })
    }

    /// What one input denotes (first byte modulo 8: 0-4 a triple, 5 a small pair, 6-7 a rendering case).
    #[derive(Debug)]
    pub enum Decoded {
        Triple(Triple),
        Small(SmallPair),
        Render(RenderCase),
    }

    pub fn decode(data: &[u8]) -> Result<Decoded> {
        let mut u = Unstructured::new(data);
        Ok(match u.int_in_range(0..=7)? {
            0u8..=4 => Decoded::Triple(triple(&mut u)?),
            5 => Decoded::Small(small_pair(&mut u)?),
            _ => Decoded::Render(render_case(&mut u)?),
        })
    }
}

/// libFuzzer entry (engine E6): decode the bytes into one of the case types and run the SAME oracles as the proptest
/// generators. Listed known findings are stepped over by signature (`vcore::with_cx`).
pub fn fuzz_entry(data: &[u8]) -> Res {
    let Ok(case) = fuzz::decode(data) else { return Ok(()) };
    vcore::with_cx("C16", |cx| match &case {
        fuzz::Decoded::Triple(c) => check_triple(c, cx),
        fuzz::Decoded::Small(c) => check_small_pair(c, cx),
        fuzz::Decoded::Render(c) => check_render_case(c, cx),
    })
}
