//! E3 — fault-injecting, crash-simulating in-memory filesystem and the history driver for the rolling
//! file worker (DESIGN §2 E3, §C10, §C11). Runs the REAL `emit_file` worker (hook H2) over this model.
//!
//! Filesystem model (the assumptions the oracles rest on): bytes written are visible at once; they are
//! durable only up to the length at the last successful `sync_all`; a crash freezes the filesystem and
//! keeps every file's synced prefix plus a generated prefix of its unsynced suffix (the crash model the
//! property states: "a crash losing any suffix of unsynced data"). A file's directory entry is unsynced data
//! too: it is durable only once `sync_parent` succeeded after the file was created (the mechanism the property
//! is anchored in: "new files are created exclusively and the directory entry synced"), so a crash may lose a
//! file whose entry was never synced, and content in such a file does not count as durable. Deletions that
//! were never synced are NOT resurrected by the model (no verdict depends on them).

use std::collections::BTreeMap;
use std::io;
use std::path::{Path, PathBuf};
use std::sync::{Arc, Mutex};
use std::time::Duration;

use emit::Timestamp;
use emit_file::verif as hook;
use serde::{Deserialize, Serialize};

pub mod e2e;
pub mod fuzz;
pub mod gen;
pub mod oracle;

#[derive(Serialize, Deserialize, Debug, Clone, Copy, PartialEq, Eq)]
pub enum OpKind {
    CreateDirAll,
    SyncParent,
    ReadDir,
    Remove,
    OpenNew,
    OpenExisting,
    Write,
    Flush,
    SyncAll,
    Len,
}

#[derive(Serialize, Deserialize, Debug, Clone, Copy, PartialEq, Eq)]
pub enum FaultKind {
    /// the call fails without effect
    Err,
    /// (writes) `n` bytes reach the file, then the call fails
    PartialErr(u8),
    /// (writes) only `n` bytes are accepted, the call succeeds (short write)
    ShortOk(u8),
    /// the machine stops here: (writes) `n` bytes reach the file; every later call fails without effect
    Crash(u8),
}

#[derive(Debug, Clone, PartialEq)]
pub enum OpOutcome {
    Ok,
    OkLen(usize),
    Failed,
    Crashed,
    AfterCrash,
}

#[derive(Debug, Clone)]
pub struct OpRec {
    pub idx: usize,
    pub kind: OpKind,
    pub path: String,
    /// bytes requested (writes) / bytes that actually reached the file in `wrote`
    pub len: usize,
    pub wrote: usize,
    pub outcome: OpOutcome,
    pub fault: Option<FaultKind>,
    /// worker generation (incremented at every restart / crash recovery)
    pub gen: u32,
    /// index of the batch attempt during which the call was made
    pub attempt: usize,
}

#[derive(Debug, Clone, Default)]
pub struct FileSt {
    pub data: Vec<u8>,
    pub synced_len: usize,
    pub entry_durable: bool,
    pub exists: bool,
    /// the durable content at the time it was deleted (a crash may resurrect it)
    pub deleted_nondurably: bool,
    /// placed in the directory by the harness before the run (a foreign file or an "earlier run")
    pub preexisting: bool,
    pub created_seq: usize,
}

#[derive(Default)]
pub struct FsState {
    pub files: BTreeMap<String, FileSt>,
    pub subdirs: Vec<String>,
    pub log: Vec<OpRec>,
    pub plan: BTreeMap<usize, FaultKind>,
    pub crashed: bool,
    pub gen: u32,
    pub attempt: usize,
    pub next_seq: usize,
    pub dir_created: bool,
    /// never inject the planned fault into flush/sync calls (end-to-end scenarios that need every batch to be retryable)
    pub spare_sync: bool,
    /// a stalled destination: every filesystem call from the `after`-th on blocks while the gate is closed
    pub gate: Option<Arc<Gate>>,
}

#[derive(Clone, Default)]
pub struct Fs(pub Arc<Mutex<FsState>>);

fn pstr(p: &Path) -> String {
    p.to_string_lossy().into_owned()
}

fn err(msg: &str) -> io::Error {
    io::Error::new(io::ErrorKind::Other, msg.to_string())
}

/// A latch the harness owns: while it is closed the filesystem (= the destination) makes no progress.
pub struct Gate {
    pub closed: Mutex<bool>,
    pub cv: std::sync::Condvar,
    /// calls with a lower index pass even while the gate is closed
    pub after: usize,
}

impl Gate {
    pub fn new(after: usize) -> Arc<Gate> {
        Arc::new(Gate { closed: Mutex::new(true), cv: std::sync::Condvar::new(), after })
    }
    pub fn open(&self) {
        *self.closed.lock().unwrap() = false;
        self.cv.notify_all();
    }
}

impl Fs {
    /// common prologue: records the op, applies crash/err faults; returns Err if the op must fail
    fn begin(&self, kind: OpKind, path: &Path, len: usize) -> Result<(usize, Option<FaultKind>), io::Error> {
        let gate = {
            let g = self.0.lock().unwrap();
            g.gate.clone().filter(|gate| g.log.len() >= gate.after)
        };
        if let Some(gate) = gate {
            let mut closed = gate.closed.lock().unwrap();
            while *closed {
                closed = gate.cv.wait(closed).unwrap();
            }
        }
        let mut g = self.0.lock().unwrap();
        let idx = g.log.len();
        let (gen, attempt) = (g.gen, g.attempt);
        if g.crashed {
            g.log.push(OpRec { idx, kind, path: pstr(path), len, wrote: 0, outcome: OpOutcome::AfterCrash, fault: None, gen, attempt });
            return Err(err("machine crashed"));
        }
        let mut fault = g.plan.get(&idx).copied();
        if g.spare_sync && matches!(kind, OpKind::Flush | OpKind::SyncAll) {
            fault = None;
        }
        g.log.push(OpRec { idx, kind, path: pstr(path), len, wrote: 0, outcome: OpOutcome::Ok, fault, gen, attempt });
        if kind != OpKind::Write {
            match fault {
                Some(FaultKind::Crash(_)) => {
                    g.crashed = true;
                    g.log[idx].outcome = OpOutcome::Crashed;
                    return Err(err("machine crashed"));
                }
                Some(_) => {
                    g.log[idx].outcome = OpOutcome::Failed;
                    return Err(err("injected fault"));
                }
                None => {}
            }
        }
        Ok((idx, fault))
    }
}

impl hook::Filesystem for Fs {
    fn create_dir_all(&self, path: &Path) -> io::Result<()> {
        self.begin(OpKind::CreateDirAll, path, 0)?;
        self.0.lock().unwrap().dir_created = true;
        Ok(())
    }

    fn sync_parent(&self, path: &Path) -> io::Result<()> {
        self.begin(OpKind::SyncParent, path, 0)?;
        let mut g = self.0.lock().unwrap();
        // syncing the directory makes every entry change in it durable
        let dir = path.parent().map(pstr).unwrap_or_default();
        for (p, f) in g.files.iter_mut() {
            if Path::new(p).parent().map(pstr).unwrap_or_default() == dir {
                if f.exists {
                    f.entry_durable = true;
                } else {
                    f.deleted_nondurably = false;
                }
            }
        }
        Ok(())
    }

    fn read_dir_files(&self, path: &Path) -> io::Result<Vec<PathBuf>> {
        self.begin(OpKind::ReadDir, path, 0)?;
        let g = self.0.lock().unwrap();
        let dir = pstr(path);
        // directory order is unspecified on real filesystems: return reverse-lexical to not accidentally
        // hand the implementation a sorted listing
        let mut out: Vec<PathBuf> = g
            .files
            .iter()
            .filter(|(p, f)| f.exists && Path::new(p).parent().map(pstr).unwrap_or_default() == dir)
            .map(|(p, _)| PathBuf::from(p))
            .collect();
        out.reverse();
        let mid = out.len() / 2;
        out.rotate_left(mid);
        Ok(out)
    }

    fn remove_file(&self, path: &Path) -> io::Result<()> {
        self.begin(OpKind::Remove, path, 0)?;
        let mut g = self.0.lock().unwrap();
        let idx = g.log.len() - 1;
        match g.files.get_mut(&pstr(path)) {
            Some(f) if f.exists => {
                f.exists = false;
                f.deleted_nondurably = true;
                Ok(())
            }
            _ => {
                g.log[idx].outcome = OpOutcome::Failed;
                Err(io::Error::new(io::ErrorKind::NotFound, "no such file"))
            }
        }
    }

    fn open_new(&self, path: &Path) -> io::Result<Box<dyn hook::File>> {
        self.begin(OpKind::OpenNew, path, 0)?;
        let mut g = self.0.lock().unwrap();
        let idx = g.log.len() - 1;
        let key = pstr(path);
        if g.files.get(&key).map_or(false, |f| f.exists) {
            g.log[idx].outcome = OpOutcome::Failed;
            return Err(io::Error::new(io::ErrorKind::AlreadyExists, "file exists"));
        }
        g.next_seq += 1;
        let seq = g.next_seq;
        g.files.insert(key.clone(), FileSt { exists: true, created_seq: seq, ..Default::default() });
        Ok(Box::new(Handle { fs: self.clone(), path: key }))
    }

    fn open_existing(&self, path: &Path) -> io::Result<Box<dyn hook::File>> {
        self.begin(OpKind::OpenExisting, path, 0)?;
        let mut g = self.0.lock().unwrap();
        let idx = g.log.len() - 1;
        let key = pstr(path);
        if !g.files.get(&key).map_or(false, |f| f.exists) {
            g.log[idx].outcome = OpOutcome::Failed;
            return Err(io::Error::new(io::ErrorKind::NotFound, "no such file"));
        }
        Ok(Box::new(Handle { fs: self.clone(), path: key }))
    }
}

pub struct Handle {
    fs: Fs,
    path: String,
}

impl io::Write for Handle {
    fn write(&mut self, buf: &[u8]) -> io::Result<usize> {
        let (idx, fault) = self.fs.begin(OpKind::Write, Path::new(&self.path), buf.len())?;
        let mut g = self.fs.0.lock().unwrap();
        let (n, result, outcome) = match fault {
            None => (buf.len(), Ok(buf.len()), OpOutcome::OkLen(buf.len())),
            Some(FaultKind::Err) => (0, Err(err("injected write fault")), OpOutcome::Failed),
            Some(FaultKind::PartialErr(k)) => {
                let n = (k as usize).min(buf.len().saturating_sub(1));
                (n, Err(err("injected write fault after partial write")), OpOutcome::Failed)
            }
            Some(FaultKind::ShortOk(k)) => {
                // a short write accepts at least one byte (Ok(0) would make write_all fail with WriteZero)
                let n = (k as usize).clamp(1, buf.len().max(1)).min(buf.len());
                (n, Ok(n), OpOutcome::OkLen(n))
            }
            Some(FaultKind::Crash(k)) => {
                let n = (k as usize).min(buf.len());
                g.crashed = true;
                (n, Err(err("machine crashed")), OpOutcome::Crashed)
            }
        };
        // a file that was deleted while open still accepts writes on a real filesystem; the bytes are
        // simply gone with it
        if let Some(f) = g.files.get_mut(&self.path) {
            f.data.extend_from_slice(&buf[..n]);
        }
        g.log[idx].wrote = n;
        g.log[idx].outcome = outcome;
        result
    }

    fn flush(&mut self) -> io::Result<()> {
        self.fs.begin(OpKind::Flush, Path::new(&self.path), 0)?;
        Ok(())
    }
}

impl hook::File for Handle {
    fn len(&self) -> io::Result<usize> {
        self.fs.begin(OpKind::Len, Path::new(&self.path), 0)?;
        let g = self.fs.0.lock().unwrap();
        Ok(g.files.get(&self.path).map_or(0, |f| f.data.len()))
    }

    fn sync_all(&mut self) -> io::Result<()> {
        self.fs.begin(OpKind::SyncAll, Path::new(&self.path), 0)?;
        let mut g = self.fs.0.lock().unwrap();
        if let Some(f) = g.files.get_mut(&self.path) {
            f.synced_len = f.data.len();
        }
        Ok(())
    }
}

// ---------------------------------------------------------------------------------------------
// Histories

#[derive(Serialize, Deserialize, Debug, Clone, Copy, PartialEq)]
pub enum Roll {
    Day,
    Hour,
    Minute,
}

#[derive(Serialize, Deserialize, Debug, Clone)]
pub struct Cfg {
    pub roll: Roll,
    pub max_files: u8,
    pub size_limit: u32,
    pub reuse: bool,
    /// 0 = "\n", 1 = "\r\n", 2 = "\0"
    pub sep: u8,
    /// index into PREFIXES / EXTS
    pub prefix: u8,
    pub ext: u8,
}

pub const SEPS: [&[u8]; 3] = [b"\n", b"\r\n", b"\0"];
/// file set templates: (prefix, ext) pairs are combined as `logs/<prefix>.<ext>`
pub const PREFIXES: [&str; 6] = ["log", "app", "my.app", "l og", "lög", "log2"];
pub const EXTS: [&str; 4] = ["txt", "log", "json", "t"];

#[derive(Serialize, Deserialize, Debug, Clone)]
pub struct EvSpec {
    /// filler length (the event body is `<e{n}:{filler}>`); `None` = an empty event (bare separator)
    pub filler: Option<u8>,
}

#[derive(Serialize, Deserialize, Debug, Clone)]
pub enum Step {
    Batch {
        events: Vec<EvSpec>,
        /// sender-side overflow: this many throw-away events are pushed and then `clear()`ed before the
        /// batch's own events are pushed (what `Sender::send` does to a full channel)
        overflow_before: Option<u8>,
    },
    /// advance (or step back) the clock by this many milliseconds
    Clock(i64),
    Restart,
}

#[derive(Serialize, Deserialize, Debug, Clone)]
pub struct PreFile {
    /// index into a name table built from the config (own-looking and foreign names)
    pub name: u8,
    pub content: u8,
}

#[derive(Serialize, Deserialize, Debug, Clone)]
pub struct Hist {
    pub cfg: Cfg,
    pub pre: Vec<PreFile>,
    /// start of the clock: milliseconds since 2024-01-01T00:00:00Z
    pub start_ms: u64,
    pub steps: Vec<Step>,
    /// op index -> fault
    pub faults: Vec<(u16, FaultKind)>,
    /// choices used to derive post-crash images (consumed in order)
    pub image: Vec<u32>,
    pub rng_seed: u64,
    /// the clock advances by this many milliseconds on every reading (0 = only between steps)
    #[serde(default)]
    pub tick_ms: u32,
}

pub const EPOCH_2024_MS: u64 = 1_704_067_200_000;

#[derive(Clone)]
pub struct VClock(pub Arc<Mutex<u64>>);

impl emit::Clock for VClock {
    fn now(&self) -> Option<Timestamp> {
        let mut g = self.0.lock().unwrap();
        let t = *g;
        // a real clock moves between two readings: every reading advances the clock by the tick
        *g += TICK.with(|t| t.get());
        Timestamp::from_unix(Duration::from_millis(t))
    }
}

thread_local! {
    /// milliseconds the virtual clock advances per reading (set per history by `run`)
    pub static TICK: std::cell::Cell<u64> = const { std::cell::Cell::new(0) };
}

/// non-repeating pseudo-random ids (a bijective mix of a counter)
#[derive(Clone)]
pub struct VRng(pub Arc<Mutex<u64>>);

impl emit::Rng for VRng {
    fn fill<A: AsMut<[u8]>>(&self, mut arr: A) -> Option<A> {
        let mut g = self.0.lock().unwrap();
        for chunk in arr.as_mut().chunks_mut(8) {
            *g = g.wrapping_add(1);
            // multiplication by an odd constant is a bijection on u32: distinct counters give distinct ids
            let v = ((*g as u32).wrapping_mul(0x9E37_79B1) ^ 0x5bd1_e995) as u64;
            let bytes = v.to_le_bytes();
            chunk.copy_from_slice(&bytes[..chunk.len()]);
        }
        Some(arr)
    }
}

#[derive(Debug, Clone, PartialEq)]
pub enum AttemptResult {
    Ok,
    Retry(usize),
    NoRetry,
    Panic(String),
}

#[derive(Debug, Clone)]
pub struct Attempt {
    pub step: usize,
    pub batch: usize,
    pub attempt_no: u32,
    pub clock_ms: u64,
    /// clock value when the attempt returned (>= clock_ms; differs only with a ticking clock)
    pub clock_end_ms: u64,
    /// full event bytes (body + separator) submitted with this attempt
    pub events: Vec<Vec<u8>>,
    pub result: AttemptResult,
    pub ops: (usize, usize),
    pub gen: u32,
    /// remaining_bytes was stale because of a sender-side clear
    pub after_overflow: bool,
    /// snapshot of the durable image right after the attempt returned: path -> synced bytes
    pub durable_after: BTreeMap<String, Vec<u8>>,
    /// synced bytes of files whose directory entry had never been synced at that instant
    pub entry_unsynced_after: BTreeMap<String, Vec<u8>>,
    /// own-set listing (existing files) right after the attempt returned
    pub listing_after: Vec<String>,
}

#[derive(Debug, Clone)]
pub struct CrashRec {
    pub at_op: usize,
    pub after_attempt: usize,
    /// the image the new worker starts from: path -> bytes
    pub image: BTreeMap<String, Vec<u8>>,
    /// files the crash took away because their directory entry had never been synced
    pub lost_entries: Vec<String>,
}

pub struct Run {
    pub cfg: Cfg,
    pub dir: String,
    pub prefix: String,
    pub ext: String,
    pub sep: &'static [u8],
    pub log: Vec<OpRec>,
    pub attempts: Vec<Attempt>,
    pub crashes: Vec<CrashRec>,
    pub restarts: Vec<usize>,
    /// every event ever submitted (full bytes)
    pub all_events: Vec<Vec<u8>>,
    /// final state of every file (incl. deleted)
    pub files: BTreeMap<String, FileSt>,
    /// pre-existing files: path -> original content
    pub pre: BTreeMap<String, Vec<u8>>,
    pub config_error: Option<String>,
    pub faults_hit: usize,
}

pub fn template(cfg: &Cfg) -> String {
    format!("logs/{}.{}", PREFIXES[cfg.prefix as usize % PREFIXES.len()], EXTS[cfg.ext as usize % EXTS.len()])
}

fn event_bytes(n: usize, spec: &EvSpec, sep: &[u8]) -> Vec<u8> {
    let mut v = Vec::new();
    if let Some(f) = spec.filler {
        v.extend_from_slice(format!("<e{n}:").as_bytes());
        for i in 0..f {
            v.push(b'a' + (i % 26));
        }
        v.push(b'>');
    }
    v.extend_from_slice(sep);
    v
}

/// names for pre-existing directory content, derived from the configuration (DESIGN §C11): files of
/// "earlier runs" of this set, sibling sets whose prefix extends / is extended by ours, look-alikes.
pub fn pre_name(cfg: &Cfg, idx: u8) -> String {
    let p = PREFIXES[cfg.prefix as usize % PREFIXES.len()];
    let e = EXTS[cfg.ext as usize % EXTS.len()];
    let names = [
        // own-looking files from earlier runs (valid grammar, old and future periods)
        format!("{p}.2023-12-31-23-59.00000001.0000aaaa.{e}"),
        format!("{p}.2024-01-01-00-00.00000002.0000bbbb.{e}"),
        format!("{p}.2031-01-01-00-00.00000003.0000cccc.{e}"),
        // the template itself and look-alikes that are NOT part of the set
        format!("{p}.{e}"),
        format!("{p}2.2024-01-01-00-00.00000004.0000dddd.{e}"),
        format!("{p}ger.2024-01-01-00-00.00000005.0000eeee.{e}"),
        format!("{p}.2024-01-01-00-00.00000006.0000ffff.my{e}"),
        format!("{p}.2024-01-01-00-00.00000007.00001111.{e}.bak"),
        format!("x{p}.2024-01-01-00-00.00000008.00002222.{e}"),
        format!("{p}-notes.{e}"),
        format!("{p}.readme.{e}"),
        "unrelated.bin".to_string(),
    ];
    names[idx as usize % names.len()].clone()
}

pub const N_PRE_NAMES: u8 = 12;

/// Is `name` a member of the set `prefix.period.counter.id.ext` by the documented naming scheme?
pub fn is_own_name(name: &str, prefix: &str, ext: &str) -> bool {
    let Some(rest) = name.strip_prefix(prefix) else { return false };
    let Some(rest) = rest.strip_prefix('.') else { return false };
    let Some(rest) = rest.strip_suffix(ext) else { return false };
    let Some(rest) = rest.strip_suffix('.') else { return false };
    let parts: Vec<&str> = rest.split('.').collect();
    if parts.len() != 3 {
        return false;
    }
    let period_ok = {
        let segs: Vec<&str> = parts[0].split('-').collect();
        (3..=5).contains(&segs.len())
            && segs[0].len() == 4
            && segs[1..].iter().all(|s| s.len() == 2)
            && segs.iter().all(|s| s.bytes().all(|b| b.is_ascii_digit()))
    };
    // widths are not part of the statement (the crate docs show 8 + 8, a maintainer may widen them):
    // counter = digits, id = hex digits
    period_ok
        && !parts[1].is_empty()
        && parts[1].bytes().all(|b| b.is_ascii_digit())
        && !parts[2].is_empty()
        && parts[2].bytes().all(|b| b.is_ascii_hexdigit())
}

fn snapshot_durable(g: &FsState) -> BTreeMap<String, Vec<u8>> {
    g.files
        .iter()
        .filter(|(_, f)| f.exists && f.entry_durable)
        .map(|(p, f)| (p.clone(), f.data[..f.synced_len].to_vec()))
        .collect()
}

/// Synced content of files whose directory entry was never synced (a crash may lose the whole file).
fn snapshot_entry_unsynced(g: &FsState) -> BTreeMap<String, Vec<u8>> {
    g.files
        .iter()
        .filter(|(_, f)| f.exists && !f.entry_durable)
        .map(|(p, f)| (p.clone(), f.data[..f.synced_len].to_vec()))
        .collect()
}

/// Run a history against the real worker.
pub fn run(h: &Hist) -> Run {
    TICK.with(|t| t.set(h.tick_ms as u64));
    let sep: &'static [u8] = SEPS[h.cfg.sep as usize % SEPS.len()];
    let fs = Fs::default();
    let clock = VClock(Arc::new(Mutex::new(EPOCH_2024_MS + h.start_ms)));
    let rng = VRng(Arc::new(Mutex::new(h.rng_seed)));
    let tpl = template(&h.cfg);
    let mut pre = BTreeMap::new();
    {
        let mut g = fs.0.lock().unwrap();
        for (i, f) in h.faults.iter().enumerate() {
            let _ = i;
            g.plan.insert(f.0 as usize, f.1);
        }
        for pf in &h.pre {
            let name = pre_name(&h.cfg, pf.name);
            let path = format!("logs/{name}");
            let content: Vec<u8> = match pf.content % 4 {
                0 => Vec::new(),
                1 => b"foreign content without trailing separator".to_vec(),
                2 => {
                    let mut v = b"<old:complete>".to_vec();
                    v.extend_from_slice(sep);
                    v
                }
                _ => b"<old:trunc".to_vec(),
            };
            g.next_seq += 1;
            let seq = g.next_seq;
            g.files.insert(
                path.clone(),
                FileSt { data: content.clone(), synced_len: content.len(), entry_durable: true, exists: true, preexisting: true, created_seq: seq, ..Default::default() },
            );
            pre.insert(path, content);
        }
        g.subdirs.push("logs/sub".into());
    }
    let mk_worker = |fs: &Fs| {
        hook::Worker::new(
            fs.clone(),
            clock.clone(),
            rng.clone(),
            hook::Config {
                file_set: PathBuf::from(&tpl),
                roll_by: match h.cfg.roll {
                    Roll::Day => hook::Roll::Day,
                    Roll::Hour => hook::Roll::Hour,
                    Roll::Minute => hook::Roll::Minute,
                },
                reuse_files: h.cfg.reuse,
                max_files: h.cfg.max_files as usize,
                max_file_size_bytes: h.cfg.size_limit as usize,
                separator: sep,
            },
        )
    };
    let mut run = Run {
        cfg: h.cfg.clone(),
        dir: String::new(),
        prefix: String::new(),
        ext: String::new(),
        sep,
        log: Vec::new(),
        attempts: Vec::new(),
        crashes: Vec::new(),
        restarts: Vec::new(),
        all_events: Vec::new(),
        files: BTreeMap::new(),
        pre,
        config_error: None,
        faults_hit: 0,
    };
    let mut worker = match mk_worker(&fs) {
        Ok(w) => w,
        Err(e) => {
            run.config_error = Some(e.to_string());
            return run;
        }
    };
    {
        let (d, p, e) = worker.dir_prefix_ext();
        run.dir = d.to_string();
        run.prefix = p.to_string();
        run.ext = e.to_string();
    }
    let mut ev_no = 0usize;
    let mut batch_no = 0usize;
    let mut image_choices = h.image.iter().copied().chain(std::iter::repeat(0xffff_ffff));

    'steps: for (si, step) in h.steps.iter().enumerate() {
        match step {
            Step::Clock(d) => {
                let mut c = clock.0.lock().unwrap();
                *c = (*c as i64 + *d).clamp(0, 253_402_300_799_000) as u64;
            }
            Step::Restart => {
                drop(worker);
                fs.0.lock().unwrap().gen += 1;
                run.restarts.push(run.attempts.len());
                worker = mk_worker(&fs).expect("config was valid");
            }
            Step::Batch { events, overflow_before } => {
                let mut batch = hook::Batch::new();
                if let Some(k) = overflow_before {
                    for i in 0..(*k).max(1) {
                        let mut junk = format!("<junk{i}:zzzzzzzzzzzzzzzzzzzzzzzzzzzzzzzzzzzzzzzz>").into_bytes();
                        junk.extend_from_slice(sep);
                        batch.push(&junk);
                    }
                    batch.clear();
                }
                let mut evs: Vec<Vec<u8>> = Vec::new();
                for spec in events {
                    ev_no += 1;
                    let b = event_bytes(ev_no, spec, sep);
                    batch.push(&b);
                    evs.push(b.clone());
                    run.all_events.push(b);
                }
                if evs.is_empty() {
                    continue;
                }
                batch_no += 1;
                let mut pending: Option<hook::Batch> = Some(batch);
                let mut attempt_no = 0;
                while let Some(b) = pending.take() {
                    attempt_no += 1;
                    let remaining = b.remaining();
                    let op0 = {
                        let mut g = fs.0.lock().unwrap();
                        g.attempt = run.attempts.len();
                        g.log.len()
                    };
                    let clock_ms = *clock.0.lock().unwrap();
                    let res = vcore::catch(|| worker.on_batch(b));
                    let (result, next) = match res {
                        Ok(Ok(())) => (AttemptResult::Ok, None),
                        Ok(Err(Some(rem))) => {
                            let n = rem.len();
                            (AttemptResult::Retry(n), Some(rem))
                        }
                        Ok(Err(None)) => (AttemptResult::NoRetry, None),
                        Err(p) => (AttemptResult::Panic(p.msg), None),
                    };
                    let (op1, crashed, durable, entry_unsynced, listing, gen) = {
                        let g = fs.0.lock().unwrap();
                        let listing: Vec<String> = g
                            .files
                            .iter()
                            .filter(|(p, f)| f.exists && Path::new(p).file_name().and_then(|n| n.to_str()).map_or(false, |n| is_own_name(n, &run.prefix, &run.ext)))
                            .map(|(p, _)| p.clone())
                            .collect();
                        (g.log.len(), g.crashed, snapshot_durable(&g), snapshot_entry_unsynced(&g), listing, g.gen)
                    };
                    let was_panic = matches!(result, AttemptResult::Panic(_));
                    let clock_end_ms = *clock.0.lock().unwrap();
                    run.attempts.push(Attempt {
                        step: si,
                        batch: batch_no,
                        attempt_no,
                        clock_ms,
                        clock_end_ms,
                        events: remaining,
                        result: result.clone(),
                        ops: (op0, op1),
                        gen,
                        after_overflow: overflow_before.is_some(),
                        durable_after: durable,
                        entry_unsynced_after: entry_unsynced,
                        listing_after: listing,
                    });
                    if crashed {
                        // the machine is down: drop the worker, derive the post-crash image, restart
                        drop(worker);
                        let image = {
                            let mut g = fs.0.lock().unwrap();
                            let at_op = g.log.iter().rposition(|o| o.outcome == OpOutcome::Crashed).unwrap_or(0);
                            let mut image = BTreeMap::new();
                            let mut files = BTreeMap::new();
                            let mut lost_entries: Vec<String> = Vec::new();
                            let old = std::mem::take(&mut g.files);
                            for (p, f) in old {
                                if !f.exists {
                                    files.insert(p, f);
                                    continue;
                                }
                                // the crash model of the property: any suffix of unsynced data is lost --
                                // including the directory entry of a file created since the last
                                // successful sync of its directory (then the whole file is gone)
                                let unsynced = f.data.len() - f.synced_len;
                                let choice = image_choices.next().unwrap();
                                if !f.entry_durable && choice & 1 == 0 {
                                    lost_entries.push(p.clone());
                                    continue;
                                }
                                let extra = vcore::pick(choice, unsynced + 1);
                                let data = f.data[..f.synced_len + extra].to_vec();
                                image.insert(p.clone(), data.clone());
                                files.insert(
                                    p,
                                    FileSt { synced_len: data.len(), data, entry_durable: true, exists: true, deleted_nondurably: false, preexisting: f.preexisting, created_seq: f.created_seq },
                                );
                            }
                            g.files = files;
                            g.crashed = false;
                            g.gen += 1;
                            // remaining faults in the plan stay in force (a later fault may hit the new worker)
                            run.crashes.push(CrashRec { at_op, after_attempt: run.attempts.len() - 1, image: image.clone(), lost_entries });
                            image
                        };
                        let _ = image;
                        worker = mk_worker(&fs).expect("config was valid");
                        // the batch in flight at the crash is gone with the process
                        continue 'steps;
                    }
                    if was_panic {
                        // the channel catches the panic and drops the batch; the worker value lives on
                        break;
                    }
                    if let Some(rem) = next {
                        if rem.len() > 0 && attempt_no <= 10 {
                            // the channel waits 700 ms … 10 s between attempts
                            *clock.0.lock().unwrap() += 700;
                            pending = Some(rem);
                        }
                    }
                }
            }
        }
    }
    drop(worker);
    let g = fs.0.lock().unwrap();
    run.log = g.log.clone();
    run.files = g.files.clone();
    run.faults_hit = g.log.iter().filter(|o| o.fault.is_some() && o.outcome != OpOutcome::AfterCrash).count();
    run
}
