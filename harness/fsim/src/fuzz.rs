//! Engine E6 over engine E3: file-worker histories decoded from fuzzer bytes (libFuzzer targets `file_c10`,
//! `file_c11`). Same case type (`Hist`), same interpreter (`crate::run`: the REAL emit_file worker over the model
//! filesystem) and same oracles (`oracle::judge` through `gen::check`) as the proptest generators; the histories are
//! chosen by coverage feedback from `emit_file` instead of being drawn independently. Fixed-width header (configuration,
//! clock start, pre-existing files, fault plan, post-crash image choices), then one step per 1–6 bytes.
use crate::gen::{check, Prop};
use crate::*;

struct Cur<'a>(&'a [u8]);
impl Cur<'_> {
    fn u8(&mut self) -> Option<u8> {
        let (b, rest) = self.0.split_first()?;
        self.0 = rest;
        Some(*b)
    }
    fn u16(&mut self) -> Option<u64> {
        Some(u64::from(self.u8()?) << 8 | u64::from(self.u8()?))
    }
}

pub const MAX_STEPS: usize = 16;

pub fn decode(data: &[u8]) -> Option<Hist> {
    let mut c = Cur(data);
    let roll = [Roll::Day, Roll::Hour, Roll::Minute][(c.u8()? % 3) as usize];
    let max_files = 1 + c.u8()? % 5;
    let b = c.u8()?;
    let size_limit = match b % 8 {
        0 => 0,
        7 => 1 << 30,
        k => [10u32, 40, 100, 200, 600, 2000][(k - 1) as usize] + u32::from(b >> 3),
    };
    let b = c.u8()?;
    let cfg = Cfg { roll, max_files, size_limit, reuse: b & 1 == 1, sep: (b >> 1) % 3, ext: (b >> 3) % 4, prefix: (b >> 5) % 6 };
    let tick_ms = [0u32, 0, 0, 1, 3, 100, 2000, 30_000][(c.u8()? % 8) as usize];
    let class = c.u8()?;
    let v = c.u16()?;
    let start_ms = match class % 4 {
        0 => v * 481_219,
        1 => (v >> 8) * 365 / 256 * 86_400_000 + 86_400_000 - (v & 0xff) * 8,
        2 => (v >> 4) % 8000 * 3_600_000 + 3_600_000 - (v & 0xf) * 130,
        _ => v % 60_000,
    };
    let rng_seed = u64::from(c.u8()?).wrapping_mul(0x9E37_79B9_7F4A_7C15);
    let mut pre = Vec::new();
    for _ in 0..c.u8()? % 6 {
        let b = c.u8()?;
        pre.push(PreFile { name: (b & 31) % N_PRE_NAMES, content: (b >> 5) % 4 });
    }
    let mut faults = Vec::new();
    for _ in 0..c.u8()? % 4 {
        let at = u16::from(c.u8()? % 100);
        let k = c.u8()?;
        let arg = (k >> 2) % 40;
        faults.push((at, match k % 4 {
            0 => FaultKind::Err,
            1 => FaultKind::PartialErr(arg),
            2 => FaultKind::ShortOk(1 + arg % 19),
            _ => FaultKind::Crash(arg),
        }));
    }
    let mut image = Vec::new();
    for _ in 0..c.u8()? % 8 {
        image.push(u32::from(c.u8()?) << 24);
    }
    let mut steps = Vec::new();
    while steps.len() < MAX_STEPS {
        let Some(b) = c.u8() else { break };
        let step = match b & 7 {
            4 | 5 => {
                let Some(v) = c.u16() else { break };
                let v = v as i64;
                Step::Clock(match (b >> 3) % 8 {
                    0 => 0,
                    1 => 1 + v % 999,
                    2 => 1000 + v % 119_000,
                    3 => 120_000 + v * 120,
                    4 => 8_000_000 + v * 2900,
                    5 => -(v % 5000),
                    6 => -5000 - v * 1500,
                    _ => 60_000,
                })
            }
            6 => Step::Restart,
            k => {
                let n = 1 + (b >> 3) % 5;
                let mut events = Vec::new();
                for _ in 0..n {
                    let Some(e) = c.u8() else { break };
                    events.push(EvSpec { filler: if e == 255 { None } else { Some(e % 48) } });
                }
                if events.is_empty() {
                    break;
                }
                Step::Batch { events, overflow_before: (k == 7).then_some(1 + (b >> 6) % 3) }
            }
        };
        steps.push(step);
    }
    if steps.is_empty() {
        return None;
    }
    Some(Hist { cfg, pre, start_ms, steps, faults, image, rng_seed, tick_ms })
}

pub fn id(which: Prop) -> &'static str {
    match which {
        Prop::C10 => "C10",
        Prop::C11 => "C11",
    }
}

/// libFuzzer entry: decode, run the real worker over the model filesystem, judge with `which`'s oracle.
pub fn entry(data: &[u8], which: Prop) -> vcore::Res {
    let Some(h) = decode(data) else { return Ok(()) };
    vcore::with_cx(id(which), |cx| check(&h, which, cx))
}
