//! End-to-end clause of C07 for the rolling file emitter: the REAL `FileSet` (real channel, real
//! background thread, real worker) over the model filesystem (hook H2 `verif_spawn_with`).
//! "When a blocking flush returns true, every event emitted before it is written and synced."
//!
//! The OS schedules the worker thread, so this samples interleavings; the oracle is schedule independent.

use std::path::PathBuf;
use std::sync::{Arc, Barrier, Mutex};
use std::time::Duration;

use emit::Emitter;
use serde::{Deserialize, Serialize};
use vcore::proptest::prelude::*;
use vcore::Cx;

use crate::{Fs, Roll, VClock, VRng, EPOCH_2024_MS};

#[derive(Serialize, Deserialize, Debug, Clone, PartialEq)]
pub enum EOp {
    Emit(u8),
    /// an event the writer REFUSES after it has produced some output (custom writer: fails part-way; default JSON
    /// writer: a property JSON cannot express, a map keyed by a sequence). It must leave no trace in any record.
    EmitRefused(u8),
    Flush,
    Spin(u16),
    Clock(u32),
}

#[derive(Serialize, Deserialize, Debug, Clone)]
pub struct FlushCase {
    pub threads: Vec<Vec<EOp>>,
    pub roll: Roll,
    pub size_limit: u32,
    pub reuse: bool,
    pub default_writer: bool,
    /// retryable IO faults (never on flush/sync) keyed by filesystem-call index; hook H1 shortens the back-off
    #[serde(default)]
    pub faults: Vec<(u16, crate::FaultKind)>,
    /// custom writer only, fault-free cases only: 0 = "\n", 1 = "\r\n", 2 = ",\n"
    #[serde(default)]
    pub sep: u8,
    /// custom writer only: what the writer itself puts after the record: 0 nothing, 1 a bare "\n" (the LAST byte of
    /// every separator above, the whole separator only for "\n"), 2 the whole separator
    #[serde(default)]
    pub tail: u8,
}

pub const E2E_SEPS: [&[u8]; 3] = [b"\n", b"\r\n", b",\n"];

pub fn flush_case() -> impl Strategy<Value = FlushCase> {
    let op = prop_oneof![
        8 => (0u8..60).prop_map(EOp::Emit),
        1 => (0u8..60).prop_map(EOp::EmitRefused),
        2 => Just(EOp::Flush),
        2 => (0u16..3000).prop_map(EOp::Spin),
        1 => prop_oneof![0u32..50, 50u32..100_000, 100_000u32..5_000_000].prop_map(EOp::Clock),
    ];
    (
        prop::collection::vec(prop::collection::vec(op, 1..25).prop_map(|mut v| { v.push(EOp::Flush); v }), 1..=3),
        prop_oneof![Just(Roll::Day), Just(Roll::Hour), Just(Roll::Minute)],
        prop_oneof![100u32..2000, Just(1u32 << 30)],
        any::<bool>(),
        any::<bool>(),
        prop_oneof![
            2 => Just(Vec::new()),
            1 => prop::collection::vec(
                (0u16..60, prop_oneof![Just(crate::FaultKind::Err), (0u8..30).prop_map(crate::FaultKind::PartialErr), (1u8..10).prop_map(crate::FaultKind::ShortOk)]),
                1..4,
            ),
        ],
        prop_oneof![2 => Just(0u8), 1 => Just(1u8), 1 => Just(2u8)],
        prop_oneof![2 => Just(0u8), 1 => Just(1u8), 1 => Just(2u8)],
    )
        .prop_map(|(threads, roll, size_limit, reuse, default_writer, faults, sep, tail)| FlushCase { threads, roll, size_limit, reuse, default_writer, faults, sep, tail })
}

fn synced_bytes(fs: &Fs) -> Vec<u8> {
    let g = fs.0.lock().unwrap();
    let mut all = Vec::new();
    for f in g.files.values() {
        if f.exists {
            all.extend_from_slice(&f.data[..f.synced_len]);
        }
    }
    all
}

fn contains(hay: &[u8], needle: &[u8]) -> bool {
    hay.windows(needle.len()).any(|w| w == needle)
}

pub fn check_flush(c: &FlushCase, cx: &mut Cx) -> vcore::Res {
    let fs = Fs::default();
    {
        let mut g = fs.0.lock().unwrap();
        g.spare_sync = true;
        for (i, k) in &c.faults {
            g.plan.insert(*i as usize, *k);
        }
    }
    // hook H1: the channel's 700 ms … 10 s back-off (and idle delay) divided so retries cost milliseconds
    emit_batcher::verif::set_delay_divisor(if c.faults.is_empty() { 1 } else { 2000 });
    cx.class_if(!c.faults.is_empty(), "file-e2e:with-io-faults");
    let clock = VClock(Arc::new(Mutex::new(EPOCH_2024_MS + 1_000_000)));
    let rng = VRng(Arc::new(Mutex::new(7)));
    // multi-byte separators in fault-free cases only: under IO faults a separator can itself be cut short, which the
    // worker-level histories judge with a full tokeniser (C10 `histories`, separator "\r\n")
    let sep: &'static [u8] = if c.default_writer || !c.faults.is_empty() { b"\n" } else { E2E_SEPS[(c.sep % 3) as usize] };
    let tail: &'static [u8] = if c.default_writer { b"" } else { match c.tail % 3 { 0 => b"", 1 => b"\n", _ => sep } };
    cx.class_if(sep.len() > 1, "file-e2e:multi-byte-separator");
    cx.class_if(sep.len() > 1 && tail == b"\n", "file-e2e:writer-ends-with-the-last-separator-byte-only");
    cx.class_if(!tail.is_empty() && tail == sep, "file-e2e:writer-writes-the-separator-itself");
    let builder = if c.default_writer {
        emit_file::set(PathBuf::from("logs/e2e.txt"))
    } else {
        emit_file::set_with_writer(
            PathBuf::from("logs/e2e.txt"),
            move |buf, evt| {
                use std::io::Write;
                let msg = evt.msg().to_string();
                if let Some(rest) = msg.strip_prefix('!') {
                    // part of the record is produced, then the writer gives up on the event
                    write!(buf, "<{}", &rest[..rest.len() / 2])?;
                    return Err(std::io::Error::new(std::io::ErrorKind::InvalidData, "scripted refusal"));
                }
                write!(buf, "<{}>", msg)?;
                buf.write_all(tail)
            },
            sep,
        )
    };
    let builder = match c.roll {
        Roll::Day => builder.roll_by_day(),
        Roll::Hour => builder.roll_by_hour(),
        Roll::Minute => builder.roll_by_minute(),
    }
    .max_files(10_000)
    .max_file_size_bytes(c.size_limit as usize)
    .reuse_files(c.reuse);
    let files = match builder.verif_spawn_with(fs.clone(), clock.clone(), rng) {
        Ok(f) => Arc::new(f),
        Err(e) => return cx.fail("file-e2e/spawn-failed", format!("{e}")),
    };
    let barrier = Arc::new(Barrier::new(c.threads.len()));
    let mut handles = Vec::new();
    for (ti, ops) in c.threads.iter().enumerate() {
        let (files, fs, clock, barrier, ops) = (files.clone(), fs.clone(), clock.clone(), barrier.clone(), ops.clone());
        handles.push(std::thread::spawn(move || -> Result<(usize, usize, usize, usize), String> {
            let mut mine: Vec<String> = Vec::new();
            let mut refused = 0usize;
            let (mut flushes_true, mut flushes_false) = (0, 0);
            barrier.wait();
            for op in &ops {
                match op {
                    EOp::Emit(filler) => {
                        let id = format!("t{ti}e{}:{}", mine.len(), "x".repeat(*filler as usize));
                        let evt = emit::Event::new(
                            emit::Path::new_raw("verif"),
                            emit::Template::literal_ref(&id),
                            emit::Empty,
                            emit::Empty,
                        );
                        files.emit(&evt);
                        drop(evt);
                        mine.push(id);
                    }
                    EOp::EmitRefused(filler) => {
                        refused += 1;
                        let id = format!("!refused-t{ti}:{}", "y".repeat(*filler as usize));
                        let unrepresentable: std::collections::BTreeMap<Vec<i32>, i32> = [(vec![1, 2], 3)].into_iter().collect();
                        let evt = emit::Event::new(
                            emit::Path::new_raw("verif"),
                            emit::Template::literal_ref(&id),
                            emit::Empty,
                            [("zz_refused", emit::Value::from_sval(&unrepresentable))],
                        );
                        files.emit(&evt);
                    }
                    EOp::Flush => {
                        if files.blocking_flush(Duration::from_secs(20)) {
                            flushes_true += 1;
                            let synced = synced_bytes(&fs);
                            for id in &mine {
                                if !contains(&synced, id.as_bytes()) {
                                    return Err(format!(
                                        "blocking_flush returned true but event {id:?}, emitted earlier on the same thread, is not in synced file content"
                                    ));
                                }
                            }
                        } else {
                            flushes_false += 1;
                        }
                    }
                    EOp::Spin(k) => {
                        for _ in 0..*k {
                            std::hint::spin_loop();
                        }
                    }
                    EOp::Clock(ms) => *clock.0.lock().unwrap() += *ms as u64,
                }
            }
            Ok((mine.len(), flushes_true, flushes_false, refused))
        }));
    }
    let mut total_true = 0;
    let mut total_refused = 0;
    let mut verdict = Ok(());
    for h in handles {
        match h.join() {
            Ok(Ok((_, t, f, r))) => {
                total_true += t;
                total_refused += r;
                if f > 0 {
                    cx.dont_care(); // a flush that times out makes no claim
                }
            }
            Ok(Err(msg)) => verdict = Err(msg),
            Err(_) => verdict = Err("emitter thread panicked".to_string()),
        }
    }
    let created = fs.0.lock().unwrap().files.len();
    cx.class_if(created >= 2, "file-e2e:rolled");
    cx.class_if(c.threads.len() >= 2, "file-e2e:threads>=2");
    cx.class_if(total_true > 0, "file-e2e:flush-true");
    cx.class_if(total_refused > 0, "file-e2e:event-refused-by-the-writer");
    cx.class_if(total_refused > 0 && c.default_writer, "file-e2e:event-refused-by-the-default-json-writer");
    cx.nontrivial(total_true > 0 && (c.threads.len() >= 2 || created >= 2));
    drop(files);
    // C10's "emit appends the separator if the formatter did not": after the worker has shut down every
    // separator-delimited record is exactly one formatted event (no two events run together)
    if verdict.is_ok() {
        let g = fs.0.lock().unwrap();
        'files: for (path, f) in g.files.iter() {
            let mut rest: &[u8] = &f.data;
            let mut recs: Vec<&[u8]> = Vec::new();
            while let Some(at) = rest.windows(sep.len()).position(|w| w == sep) {
                recs.push(&rest[..at]);
                rest = &rest[at + sep.len()..];
            }
            recs.push(rest);
            for rec in recs {
                // what the writer itself appended after the record (a bare "\n" in front of a multi-byte separator)
                let rec = if sep.len() > 1 && tail == b"\n" { rec.strip_suffix(b"\n").unwrap_or(rec) } else { rec };
                if rec.is_empty() {
                    continue;
                }
                let truncated_ok = !c.faults.is_empty() && {
                    // a fault may leave a truncated prefix of ONE event (of the formatted text of any event)
                    if c.default_writer {
                        rec.first() == Some(&b'{') && rec.windows(7).filter(|w| w == b"\"mdl\":\"").count() <= 1 && rec.iter().filter(|b| **b == b'{').count() <= 1
                    } else {
                        rec.first() == Some(&b'<') && rec.iter().filter(|b| **b == b'<').count() == 1
                    }
                };
                let ok = truncated_ok || if c.default_writer {
                    rec.first() == Some(&b'{') && rec.last() == Some(&b'}') && rec.windows(7).filter(|w| w == b"\"mdl\":\"").count() == 1
                } else {
                    rec.first() == Some(&b'<') && rec.last() == Some(&b'>') && rec.iter().filter(|b| **b == b'<').count() == 1
                };
                if contains(rec, b"refused-t") {
                    verdict = Err(format!("file-e2e/record-not-one-event|{path}: record {:?} carries output of an event the writer refused", String::from_utf8_lossy(rec)));
                    break 'files;
                }
                if !ok {
                    verdict = Err(format!("file-e2e/record-not-one-event|{path}: record {:?} is not exactly one formatted event", String::from_utf8_lossy(rec)));
                    break 'files;
                }
            }
        }
    }
    match verdict {
        Ok(()) => Ok(()),
        Err(msg) if msg.starts_with("file-e2e/record-not-one-event|") => cx.fail("file-e2e/record-not-one-event", msg),
        Err(msg) => cx.fail("file-e2e/flush-true-but-not-synced", msg),
    }
}

// ---------------------------------------------------------------------------------------------
// Channel laws of the file emitter's batch type (C09: "emitter-specific channels implement len/clear")

#[derive(Serialize, Deserialize, Debug, Clone, PartialEq)]
pub enum BOp {
    Push(u8),
    Clear,
    /// hand the batch to a worker whose n-th write fails, take the remainder back
    FailAt(u8),
}

pub fn batch_ops() -> impl Strategy<Value = Vec<BOp>> {
    prop::collection::vec(prop_oneof![6 => (0u8..40).prop_map(BOp::Push), 2 => Just(BOp::Clear), 1 => (0u8..12).prop_map(BOp::FailAt)], 1..30)
}

/// After any push/clear sequence `len()` equals the number of items a model queue holds, `clear()` gives 0,
/// and a batch handed back for retry after a failed write still holds every item (the whole batch is retried).
pub fn check_batch_laws(ops: &Vec<BOp>, cx: &mut Cx) -> vcore::Res {
    use emit_file::verif as hook;
    let mut batch = hook::Batch::new();
    let mut model: Vec<Vec<u8>> = Vec::new();
    let mut n = 0u32;
    for op in ops {
        match op {
            BOp::Push(k) => {
                n += 1;
                let mut ev = format!("<e{n}:{}>", "y".repeat(*k as usize)).into_bytes();
                ev.push(b'\n');
                batch.push(&ev);
                model.push(ev);
            }
            BOp::Clear => {
                batch.clear();
                model.clear();
                cx.class("batch-laws:clear");
                if batch.len() != 0 {
                    return cx.fail("C09/file-batch/len-after-clear", format!("len() = {} right after clear()", batch.len()));
                }
            }
            BOp::FailAt(k) => {
                if model.is_empty() {
                    continue;
                }
                cx.class("batch-laws:failed-write");
                let fs = Fs::default();
                // op indices: 0 create_dir_all, 1 read_dir, 2 open_new, 3 sync_parent, then one write per event
                fs.0.lock().unwrap().plan.insert(4 + (*k as usize % model.len()), crate::FaultKind::PartialErr(2));
                let mut worker = hook::Worker::new(
                    fs.clone(),
                    VClock(Arc::new(Mutex::new(EPOCH_2024_MS))),
                    VRng(Arc::new(Mutex::new(1))),
                    hook::Config { file_set: PathBuf::from("logs/b.txt"), roll_by: hook::Roll::Hour, reuse_files: false, max_files: 4, max_file_size_bytes: 1 << 30, separator: b"\n" },
                )
                .map_err(|e| vcore::Fail::new("C09/file-batch/config", e.to_string()))?;
                match worker.on_batch(std::mem::replace(&mut batch, hook::Batch::new())) {
                    Err(Some(rem)) => batch = rem,
                    Ok(()) => {
                        model.clear();
                    }
                    Err(None) => {
                        model.clear();
                    }
                }
            }
        }
        if batch.len() != model.len() {
            return cx.fail(
                "C09/file-batch/len-differs-from-model",
                format!("after {op:?}: len() = {} but the batch holds {} items by the model", batch.len(), model.len()),
            );
        }
        if batch.remaining() != model {
            return cx.fail("C09/file-batch/content-differs-from-model", format!("after {op:?}: content differs from the model"));
        }
    }
    cx.nontrivial(ops.iter().any(|o| matches!(o, BOp::Clear | BOp::FailAt(_))) && ops.iter().filter(|o| matches!(o, BOp::Push(_))).count() >= 2);
    Ok(())
}


// ---------------------------------------------------------------------------------------------------
// C09 at the emitter: "the caller is never made to wait on the destination however slow, stalled or
// unreachable it is", and what is pending stays within the channel's capacity.

#[derive(Serialize, Deserialize, Debug, Clone)]
pub struct StallCase {
    /// events each emitting thread emits (the file set's channel holds 10 000)
    pub threads: Vec<u32>,
    /// the filesystem stalls from this call on (0 = the worker never gets anywhere)
    pub stall_after: u8,
    pub filler: u8,
}

pub fn stall_case() -> impl Strategy<Value = StallCase> {
    (
        prop::collection::vec(prop_oneof![3 => 0u32..400, 2 => 400u32..6_000, 1 => 6_000u32..13_000], 1..=3),
        prop_oneof![2 => Just(0u8), 2 => 1u8..8, 1 => 8u8..40],
        0u8..40,
    )
        .prop_map(|(threads, stall_after, filler)| StallCase { threads, stall_after, filler })
}

const FILE_SET_CAPACITY: usize = 10_000;

pub fn check_never_blocks(c: &StallCase, cx: &mut Cx) -> vcore::Res {
    let total: usize = c.threads.iter().map(|n| *n as usize).sum();
    cx.class("file-e2e-stalled-destination");
    cx.class_if(total > FILE_SET_CAPACITY, "file-e2e-stall:more-events-than-capacity");
    cx.class_if(total > 2 * FILE_SET_CAPACITY, "file-e2e-stall:overflow-certain");
    cx.class_if(c.stall_after == 0, "file-e2e-stall:worker-never-gets-anywhere");
    cx.class_if(c.stall_after > 0, "file-e2e-stall:worker-stalls-mid-way");
    cx.nontrivial(total > FILE_SET_CAPACITY || c.threads.len() > 1);
    let fs = Fs::default();
    let gate = crate::Gate::new(c.stall_after as usize);
    fs.0.lock().unwrap().gate = Some(gate.clone());
    emit_batcher::verif::set_delay_divisor(1);
    let clock = VClock(Arc::new(Mutex::new(EPOCH_2024_MS + 1_000_000)));
    let rng = VRng(Arc::new(Mutex::new(7)));
    let files = match emit_file::set(PathBuf::from("logs/stall.txt")).max_files(100).verif_spawn_with(fs.clone(), clock, rng) {
        Ok(f) => Arc::new(f),
        Err(e) => return cx.fail("file-e2e/spawn-failed", format!("{e}")),
    };
    let (tx, rx) = std::sync::mpsc::channel::<usize>();
    for (ti, n) in c.threads.iter().enumerate() {
        let (files, tx, n, filler) = (files.clone(), tx.clone(), *n, c.filler);
        std::thread::spawn(move || {
            let text = format!("t{ti}:{}", "x".repeat(filler as usize));
            for _ in 0..n {
                let evt = emit::Event::new(emit::Path::new_raw("verif"), emit::Template::literal_ref(&text), emit::Empty, emit::Empty);
                files.emit(&evt);
            }
            let _ = tx.send(ti);
        });
    }
    drop(tx);
    let mut done = 0;
    let deadline = std::time::Instant::now() + Duration::from_secs(30);
    while done < c.threads.len() {
        match rx.recv_timeout(deadline.saturating_duration_since(std::time::Instant::now())) {
            Ok(_) => done += 1,
            Err(_) => break,
        }
    }
    let mut res = Ok(());
    if done < c.threads.len() {
        // the emitting threads are stuck behind the latch: open it so that they (and the worker) can end
        gate.open();
        return cx.fail(
            "C09/file-emit-blocked-by-stalled-destination",
            format!("{} of {} emitting threads had not returned from `emit` after 30 s while the filesystem was stalled (events per thread {:?})", c.threads.len() - done, c.threads.len(), c.threads),
        );
    }
    // everything was emitted while the destination made no progress: what is pending is bounded
    let mut m = std::collections::BTreeMap::new();
    {
        use emit::metric::Source;
        struct S<'a>(std::cell::RefCell<&'a mut std::collections::BTreeMap<String, usize>>);
        impl<'a> emit::metric::sampler::Sampler for S<'a> {
            fn metric<P: emit::Props>(&self, metric: emit::metric::Metric<P>) {
                let v = metric.value().by_ref().cast::<usize>().unwrap_or(usize::MAX);
                self.0.borrow_mut().insert(metric.name().get().to_string(), v);
            }
        }
        files.metric_source().sample_metrics(S(std::cell::RefCell::new(&mut m)));
    }
    // the file set re-exports its channel's metrics with a `file_` prefix
    let find = |name: &str| m.iter().find(|(k, _)| k.as_str() == name || k.strip_prefix("file_") == Some(name)).map(|(_, v)| *v);
    let pending = find("queue_length");
    let truncated = find("queue_full_truncated").unwrap_or(0);
    match pending {
        None => res = cx.fail("harness/file-metrics", format!("no queue_length metric among {:?}", m.keys().collect::<Vec<_>>())),
        Some(p) if p > FILE_SET_CAPACITY => {
            res = cx.fail("C09/file-pending-exceeds-capacity", format!("{p} events are pending in the file set's channel (capacity {FILE_SET_CAPACITY}) after {total} emits against a stalled filesystem"));
        }
        Some(p) => {
            // the worker can have taken at most one batch (<= capacity) before it stalled
            if total > 2 * FILE_SET_CAPACITY && truncated == 0 {
                res = cx.fail("C09/file-overflow-not-counted", format!("{total} emits against a stalled filesystem, {p} pending, but queue_full_truncated is 0"));
            }
            cx.class_if(truncated > 0, "file-e2e-stall:truncation-counted");
        }
    }
    gate.open();
    let _ = files.blocking_flush(Duration::from_secs(20));
    res
}
