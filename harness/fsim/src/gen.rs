//! Generators for file-worker histories.

use vcore::proptest::prelude::*;
use vcore::Cx;

use crate::oracle::judge;
use crate::*;

#[derive(Clone, Copy, PartialEq)]
pub enum Focus {
    /// C10: faults and crashes everywhere, modest configuration variety
    Faults,
    /// C11: configuration / clock / directory variety, usually fault free
    Config,
}

pub fn cfg(focus: Focus) -> impl Strategy<Value = Cfg> {
    let tricky = focus == Focus::Config;
    (
        prop_oneof![Just(Roll::Day), Just(Roll::Hour), Just(Roll::Minute)],
        prop_oneof![3 => 1u8..=5, 1 => Just(1u8), 1 => Just(2u8)],
        prop_oneof![3 => 10u32..200, 3 => 200u32..2000, 2 => Just(1u32 << 30), 1 => Just(0u32)],
        any::<bool>(),
        prop_oneof![4 => Just(0u8), 2 => Just(1u8), 1 => Just(2u8)],
        if tricky { prop_oneof![3 => Just(0u8), 3 => 0u8..6].boxed() } else { prop_oneof![8 => Just(0u8), 1 => 0u8..6].boxed() },
        0u8..4,
    )
        .prop_map(|(roll, max_files, size_limit, reuse, sep, prefix, ext)| Cfg { roll, max_files, size_limit, reuse, sep, prefix, ext })
}

pub fn step(focus: Focus) -> impl Strategy<Value = Step> {
    let ev = prop_oneof![12 => (0u8..48).prop_map(|f| EvSpec { filler: Some(f) }), 1 => Just(EvSpec { filler: None })];
    let batch = (prop::collection::vec(ev, 1..6), prop_oneof![12 => Just(None), 1 => (1u8..4).prop_map(Some)])
        .prop_map(|(events, overflow_before)| Step::Batch { events, overflow_before });
    let clock = prop_oneof![
        2 => Just(0i64),
        3 => 1i64..1000,
        3 => 1000i64..120_000,
        2 => 120_000i64..8_000_000,
        1 => 8_000_000i64..200_000_000,
        1 => -5_000i64..0,
        1 => -100_000_000i64..-5_000,
    ]
    .prop_map(Step::Clock);
    match focus {
        Focus::Faults => prop_oneof![8 => batch, 3 => clock, 1 => Just(Step::Restart)].boxed(),
        Focus::Config => prop_oneof![7 => batch, 5 => clock, 2 => Just(Step::Restart)].boxed(),
    }
}

pub fn fault_kind() -> impl Strategy<Value = FaultKind> {
    prop_oneof![
        3 => Just(FaultKind::Err),
        3 => (0u8..40).prop_map(FaultKind::PartialErr),
        1 => (1u8..20).prop_map(FaultKind::ShortOk),
        3 => (0u8..40).prop_map(FaultKind::Crash),
    ]
}

pub fn hist(focus: Focus) -> impl Strategy<Value = Hist> {
    let faults = match focus {
        Focus::Faults => prop::collection::vec((0u16..70, fault_kind()), 0..=3).boxed(),
        Focus::Config => prop_oneof![6 => Just(Vec::new()), 1 => prop::collection::vec((0u16..70, fault_kind()), 1..=2)].boxed(),
    };
    let pre = match focus {
        Focus::Faults => prop_oneof![3 => Just(Vec::new()), 1 => prop::collection::vec((0u8..N_PRE_NAMES, 0u8..4).prop_map(|(name, content)| PreFile { name, content }), 1..4)].boxed(),
        Focus::Config => prop::collection::vec((0u8..N_PRE_NAMES, 0u8..4).prop_map(|(name, content)| PreFile { name, content }), 0..6).boxed(),
    };
    (
        cfg(focus),
        pre,
        // start near interesting period boundaries: minute/hour/day edges of 2024-01-01..2024-12-31
        prop_oneof![
            2 => 0u64..31_536_000_000,
            1 => (0u64..365, 0u64..2000).prop_map(|(d, back)| d * 86_400_000 + 86_400_000 - back),
            1 => (0u64..8000, 0u64..2000).prop_map(|(h, back)| h * 3_600_000 + 3_600_000 - back),
            // inside the minute of the pre-existing own file `….2024-01-01-00-00.…` (a restart that finds a current file)
            1 => 0u64..60_000,
        ],
        prop::collection::vec(step(focus), 1..14),
        faults,
        prop::collection::vec(any::<u32>(), 0..12),
        any::<u64>(),
        // a real clock moves between two readings inside one batch
        prop_oneof![3 => Just(0u32), 2 => 1u32..5, 1 => 5u32..2000, 1 => 2000u32..40_000],
    )
        .prop_map(|(cfg, pre, start_ms, steps, faults, image, rng_seed, tick_ms)| Hist { cfg, pre, start_ms, steps, faults, image, rng_seed, tick_ms })
}

/// All single-fault placements of a fault-free history: every fault kind at every op index.
pub fn single_fault_placements(h: Hist) -> impl Iterator<Item = Hist> + Send {
    let mut base = h;
    base.faults.clear();
    let n = crate::run(&base).log.len().min(400);
    let kinds = [
        FaultKind::Err,
        FaultKind::PartialErr(0),
        FaultKind::PartialErr(3),
        FaultKind::PartialErr(200),
        FaultKind::ShortOk(1),
        FaultKind::ShortOk(7),
        FaultKind::Crash(0),
        FaultKind::Crash(5),
        FaultKind::Crash(200),
    ];
    (0..n).flat_map(move |i| {
        let base = base.clone();
        kinds.into_iter().map(move |k| {
            let mut h = base.clone();
            h.faults = vec![(i as u16, k)];
            h
        })
    })
}

#[derive(Clone, Copy, PartialEq)]
pub enum Prop {
    C10,
    C11,
}

pub fn check(h: &Hist, which: Prop, cx: &mut Cx) -> vcore::Res {
    let run = crate::run(h);
    let mut v = judge(&run, h);
    let s = &v.stats;
    cx.class_if(s.fault_on_write, "fault-on-write");
    cx.class_if(s.fault_on_sync_flush, "fault-on-sync-or-flush");
    cx.class_if(s.fault_on_open_dir, "fault-on-open-or-dir");
    cx.class_if(s.crash, "crash");
    cx.class_if(s.reuse_after_crash, "reuse-after-crash");
    cx.class_if(s.reuse_after_fault, "reuse-after-failed-attempt");
    cx.class_if(s.retried_batches > 0, "batch-retried");
    cx.class_if(s.prefix_tokens > 0, "truncated-record-present");
    cx.class_if(s.size_roll, "size-roll");
    cx.class_if(s.time_roll, "time-roll");
    cx.class_if(s.restart, "restart");
    cx.class_if(s.backward_clock, "backward-clock");
    cx.class_if(s.equal_clock_creation, "same-millisecond-creation");
    cx.class_if(s.foreign_sibling, "foreign-sibling");
    cx.class_if(s.prefix_related_sibling, "prefix-related-sibling");
    {
        let own_pre = h.pre.iter().filter(|f| f.name < 3).map(|f| f.name).collect::<std::collections::BTreeSet<_>>();
        let current = h.start_ms < 60_000 && h.cfg.roll == crate::Roll::Minute && own_pre.contains(&1);
        cx.class_if(current, "start-inside-the-period-of-a-pre-existing-own-file");
        cx.class_if(current && h.cfg.reuse && own_pre.len() > h.cfg.max_files as usize, "directory-over-limit-at-start/reuse-finds-a-current-file");
    }
    cx.class_if(s.deletions > 0, "retention-deleted");
    cx.class_if(s.overflow, "sender-overflow");
    cx.class_if(s.ticking_clock, "ticking-clock");
    cx.class_if(s.period_changes_mid_batch, "period-changes-mid-batch");
    cx.class_if(h.cfg.max_files == 1, "max_files=1");
    cx.class_if(h.cfg.sep == 1, "two-byte-separator");
    cx.class_if(h.cfg.reuse, "reuse-on");
    cx.class_if(s.acked_batches >= 2, "acked>=2");
    match which {
        Prop::C10 => cx.nontrivial(s.faults_hit > 0 && (s.fault_on_write || s.fault_on_sync_flush || s.fault_on_open_dir || s.crash)),
        Prop::C11 => cx.nontrivial((s.size_roll || s.time_roll) && (s.restart || s.foreign_sibling || s.backward_clock)),
    }
    let (mine, others) = match which {
        Prop::C10 => (std::mem::take(&mut v.c10), v.c11.iter().filter(|f| f.sig != "C11/name-order/same-millisecond").count()),
        Prop::C11 => (std::mem::take(&mut v.c11), v.c10.len()),
    };
    cx.class_if(others > 0, "other-property-oracle-failed");
    for fail in mine {
        cx.fail(fail.sig, fail.msg)?;
    }
    Ok(())
}
