//! Oracles for C10 (durability, no mangling) and C11 (naming, rolling, retention, own set only),
//! derived from the property texts and the crate-level documentation of `emit_file`.

use std::collections::{BTreeMap, BTreeSet};
use std::path::Path;

use vcore::Fail;

use crate::*;

#[derive(Default, Debug)]
pub struct Stats {
    pub fault_on_write: bool,
    pub fault_on_sync_flush: bool,
    pub fault_on_open_dir: bool,
    pub crash: bool,
    pub reuse_after_crash: bool,
    pub reuse_after_fault: bool,
    pub acked_batches: usize,
    pub retried_batches: usize,
    pub prefix_tokens: usize,
    pub size_roll: bool,
    pub time_roll: bool,
    pub restart: bool,
    pub backward_clock: bool,
    pub equal_clock_creation: bool,
    pub foreign_sibling: bool,
    pub prefix_related_sibling: bool,
    pub deletions: usize,
    pub files_created: usize,
    pub overflow: bool,
    pub faults_hit: usize,
    pub period_changes_mid_batch: bool,
    pub ticking_clock: bool,
}

#[derive(Default)]
pub struct V {
    pub c10: Vec<Fail>,
    pub c11: Vec<Fail>,
    pub stats: Stats,
}

fn find(hay: &[u8], needle: &[u8], from: usize) -> Option<usize> {
    if needle.is_empty() || hay.len() < needle.len() {
        return None;
    }
    (from..=hay.len() - needle.len()).find(|&i| &hay[i..i + needle.len()] == needle)
}

#[derive(Debug, PartialEq)]
pub enum Tok {
    Complete,
    Empty,
    Prefix,
    Mangled,
}

/// Split `data` at separators and classify each record against the set of event bodies.
pub fn tokenise(data: &[u8], sep: &[u8], bodies: &BTreeSet<Vec<u8>>, fulls: &[Vec<u8>]) -> Vec<(Vec<u8>, Tok)> {
    let mut out = Vec::new();
    let mut pos = 0;
    while pos < data.len() {
        let (tok, terminated, next) = match find(data, sep, pos) {
            Some(i) => (&data[pos..i], true, i + sep.len()),
            None => (&data[pos..], false, data.len()),
        };
        // with a multi-byte separator, writes of the separator itself can be cut short (also repeatedly:
        // every recovery starts with another separator): strip trailing strict prefixes of the separator
        let mut tok = tok;
        let mut stripped = false;
        'strip: loop {
            for k in (1..sep.len()).rev() {
                if tok.ends_with(&sep[..k]) {
                    tok = &tok[..tok.len() - k];
                    stripped = true;
                    continue 'strip;
                }
            }
            break;
        }
        let class = if tok.is_empty() {
            if stripped { Tok::Prefix } else { Tok::Empty }
        } else if stripped && bodies.contains(tok) {
            // a complete event whose separator was cut short
            Tok::Prefix
        } else if terminated && bodies.contains(tok) {
            Tok::Complete
        } else if fulls.iter().any(|e| e.len() > tok.len() && e.starts_with(tok)) {
            Tok::Prefix
        } else {
            Tok::Mangled
        };
        out.push((tok.to_vec(), class));
        pos = next;
    }
    out
}

fn contains_record(data: &[u8], sep: &[u8], full_event: &[u8]) -> bool {
    // the event (body + separator) starting at a record boundary
    let mut from = 0;
    while let Some(i) = find(data, full_event, from) {
        if i == 0 || (i >= sep.len() && &data[i - sep.len()..i] == sep) {
            return true;
        }
        from = i + 1;
    }
    false
}

fn period(roll: Roll, ms: u64) -> (String, u64) {
    let ts = emit::Timestamp::from_unix(std::time::Duration::from_millis(ms)).unwrap();
    let p = ts.to_parts();
    let day_ms = ms % 86_400_000;
    match roll {
        Roll::Day => (format!("{:04}-{:02}-{:02}", p.years, p.months, p.days), day_ms),
        Roll::Hour => (format!("{:04}-{:02}-{:02}-{:02}", p.years, p.months, p.days, p.hours), day_ms % 3_600_000),
        Roll::Minute => (format!("{:04}-{:02}-{:02}-{:02}-{:02}", p.years, p.months, p.days, p.hours, p.minutes), day_ms % 60_000),
    }
}

fn fname(path: &str) -> &str {
    Path::new(path).file_name().and_then(|n| n.to_str()).unwrap_or("")
}

pub fn judge(run: &Run, h: &Hist) -> V {
    let mut v = V::default();
    let f = |sig: &str, msg: String| Fail::new(sig, msg);
    let sep = run.sep;
    if let Some(e) = &run.config_error {
        v.c11.push(f("C11/valid-template-rejected", format!("template {:?} rejected: {e}", template(&run.cfg))));
        return v;
    }

    // ---- bookkeeping shared by both properties --------------------------------------------------
    let mut old_bodies: Vec<Vec<u8>> = vec![b"<old:complete>".to_vec()];
    old_bodies.push(b"foreign content without trailing separator".to_vec());
    old_bodies.push(b"<old:trunc".to_vec());
    let mut fulls: Vec<Vec<u8>> = run.all_events.clone();
    for b in &old_bodies {
        let mut e = b.clone();
        e.extend_from_slice(sep);
        fulls.push(e);
    }
    // the recovery separator is itself an (empty) record: a truncated one is a strict prefix of it
    fulls.push(sep.to_vec());
    // throw-away events of the overflow simulation never reach the worker; if they show up it is a
    // resurrection
    let bodies: BTreeSet<Vec<u8>> = fulls.iter().map(|e| e[..e.len() - sep.len()].to_vec()).filter(|b| !b.is_empty()).collect();

    for o in &run.log {
        if o.fault.is_some() && o.outcome != OpOutcome::AfterCrash {
            v.stats.faults_hit += 1;
            match o.kind {
                OpKind::Write => v.stats.fault_on_write = true,
                OpKind::Flush | OpKind::SyncAll => v.stats.fault_on_sync_flush = true,
                _ => v.stats.fault_on_open_dir = true,
            }
        }
        if o.kind == OpKind::Remove && o.outcome == OpOutcome::Ok {
            v.stats.deletions += 1;
        }
        if o.kind == OpKind::OpenNew && o.outcome == OpOutcome::Ok {
            v.stats.files_created += 1;
        }
    }
    v.stats.crash = !run.crashes.is_empty();
    v.stats.ticking_clock = h.tick_ms > 0;
    v.stats.restart = !run.restarts.is_empty();
    v.stats.backward_clock = h.steps.iter().any(|s| matches!(s, Step::Clock(d) if *d < 0));
    v.stats.overflow = h.steps.iter().any(|s| matches!(s, Step::Batch { overflow_before: Some(_), .. }));
    for (p, _) in &run.pre {
        let n = fname(p);
        if !is_own_name(n, &run.prefix, &run.ext) {
            v.stats.foreign_sibling = true;
            if n.starts_with(&run.prefix) {
                v.stats.prefix_related_sibling = true;
            }
        }
    }

    // original event list per batch, the attempt that acknowledged it
    let mut batch_events: BTreeMap<usize, Vec<Vec<u8>>> = BTreeMap::new();
    for a in &run.attempts {
        if a.attempt_no == 1 {
            batch_events.insert(a.batch, a.events.clone());
        } else {
            v.stats.retried_batches += 1;
        }
    }

    // ======================================= C10 ==================================================
    // (1) durability at the instant of acknowledgement
    let mut acked: Vec<(usize, usize, Vec<Vec<u8>>)> = Vec::new(); // (attempt idx, batch, events)
    for (ai, a) in run.attempts.iter().enumerate() {
        if a.result != AttemptResult::Ok {
            continue;
        }
        v.stats.acked_batches += 1;
        let evs = batch_events.get(&a.batch).cloned().unwrap_or_default();
        for e in &evs {
            if e.len() == sep.len() {
                continue; // an empty event is indistinguishable from any other bare separator
            }
            if !a.durable_after.values().any(|d| contains_record(d, sep, e)) {
                let anywhere = run.files.values().any(|fl| contains_record(&fl.data, sep, e));
                if let Some((p, _)) = a.entry_unsynced_after.iter().find(|(_, d)| contains_record(d, sep, e)) {
                    v.c10.push(f(
                        "C10/acked-event-in-file-whose-directory-entry-was-never-synced",
                        format!(
                            "batch {} was reported written (attempt {}) but event {:?} is only in {p}, created since the last successful sync of its directory: a crash now loses the whole file",
                            a.batch,
                            a.attempt_no,
                            String::from_utf8_lossy(e)
                        ),
                    ));
                    break;
                }
                v.c10.push(f(
                    if anywhere { "C10/acked-event-not-synced" } else { "C10/acked-event-missing" },
                    format!(
                        "batch {} was reported written (attempt {}) but event {:?} is not a complete record in synced content of a durable file{}",
                        a.batch,
                        a.attempt_no,
                        String::from_utf8_lossy(e),
                        if anywhere { " (it is present in unsynced bytes / a file that was never synced)" } else { "" }
                    ),
                ));
                break;
            }
        }
        acked.push((ai, a.batch, evs));
    }
    // ... and on every post-crash image
    for c in &run.crashes {
        for (ai, batch, evs) in &acked {
            if *ai > c.after_attempt {
                continue;
            }
            // the acknowledging attempt itself may be the one that crashed later in the same call? no:
            // an attempt that returned Ok completed before the crash op
            if run.attempts[*ai].ops.1 > c.at_op {
                continue;
            }
            for e in evs {
                if e.len() == sep.len() {
                    continue;
                }
                if c.image.values().any(|d| contains_record(d, sep, e)) {
                    continue;
                }
                // retention may have deleted the file that held it
                let holders: Vec<&String> = run.attempts[*ai].durable_after.iter().chain(run.attempts[*ai].entry_unsynced_after.iter()).filter(|(_, d)| contains_record(d, sep, e)).map(|(p, _)| p).collect();
                let removed = holders.iter().any(|p| run.log.iter().any(|o| o.kind == OpKind::Remove && o.outcome == OpOutcome::Ok && &&o.path == p && o.idx < c.at_op));
                if !removed {
                    v.c10.push(f(
                        "C10/acked-event-lost-in-crash",
                        format!("event {:?} of acknowledged batch {batch} is missing from the post-crash image (crash at op {})", String::from_utf8_lossy(e), c.at_op),
                    ));
                    break;
                }
            }
        }
    }
    // (2) no mangling, in every file and every post-crash image
    let had_damage_source = v.stats.faults_hit > 0 || v.stats.crash || run.pre.values().any(|c| !c.is_empty() && !c.ends_with(sep));
    let mut check_bytes = |where_: &str, data: &[u8], v: &mut V| {
        for (tok, class) in tokenise(data, sep, &bodies, &fulls) {
            match class {
                Tok::Mangled => {
                    v.c10.push(f(
                        "C10/mangled-record",
                        format!("{where_}: record {:?} is neither a complete event, empty, nor a truncated prefix of one event", String::from_utf8_lossy(&tok)),
                    ));
                    return;
                }
                Tok::Prefix => {
                    v.stats.prefix_tokens += 1;
                    if !had_damage_source {
                        v.c10.push(f(
                            "C10/truncated-record-without-fault",
                            format!("{where_}: truncated record {:?} although no fault or crash was injected", String::from_utf8_lossy(&tok)),
                        ));
                        return;
                    }
                }
                _ => {}
            }
        }
    };
    for (p, fl) in &run.files {
        let n = fname(p);
        if is_own_name(n, &run.prefix, &run.ext) {
            check_bytes(&format!("file {n}"), &fl.data, &mut v);
        }
    }
    for c in &run.crashes {
        for (p, d) in &c.image {
            if is_own_name(fname(p), &run.prefix, &run.ext) {
                check_bytes(&format!("post-crash image of {}", fname(p)), d, &mut v);
            }
        }
    }
    // reuse after crash / fault classification
    for (ai, a) in run.attempts.iter().enumerate() {
        let reused = run.log[a.ops.0..a.ops.1].iter().any(|o| o.kind == OpKind::OpenExisting && o.outcome == OpOutcome::Ok);
        if reused {
            if run.crashes.iter().any(|c| c.after_attempt < ai) {
                v.stats.reuse_after_crash = true;
            }
            if ai > 0 && run.attempts[ai - 1].result != AttemptResult::Ok {
                v.stats.reuse_after_fault = true;
            }
        }
    }

    // ======================================= C11 ==================================================
    let dir = &run.dir;
    // (f) no panic
    for a in &run.attempts {
        if let AttemptResult::Panic(msg) = &a.result {
            v.c11.push(f("C11/worker-panicked", format!("processing batch {} panicked: {msg} (max_files={})", a.batch, run.cfg.max_files)));
            break;
        }
    }
    // (e) audit: every path the worker opens, creates or deletes is an own-set name
    for o in &run.log {
        if matches!(o.kind, OpKind::OpenExisting | OpKind::OpenNew | OpKind::Remove) {
            let n = fname(&o.path);
            let in_dir = Path::new(&o.path).parent().map(|p| p.to_string_lossy().into_owned()).unwrap_or_default() == *dir;
            if !in_dir || !is_own_name(n, &run.prefix, &run.ext) {
                let what = match o.kind {
                    OpKind::OpenExisting => "opened for appending",
                    OpKind::OpenNew => "created",
                    _ => "deleted",
                };
                v.c11.push(f(
                    &format!("C11/foreign-file-{}", match o.kind { OpKind::OpenExisting => "appended", OpKind::OpenNew => "created", _ => "deleted" }),
                    format!("{:?} was {what} but is not a member of the set {}.<period>.<counter>.<id>.{}", o.path, run.prefix, run.ext),
                ));
                break;
            }
        }
    }
    for (p, original) in &run.pre {
        if is_own_name(fname(p), &run.prefix, &run.ext) {
            continue;
        }
        match run.files.get(p) {
            Some(fl) if fl.exists && fl.data == *original => {}
            Some(fl) if !fl.exists => v.c11.push(f("C11/foreign-file-deleted", format!("{p:?} does not belong to the set but was deleted"))),
            Some(fl) => v.c11.push(f("C11/foreign-file-modified", format!("{p:?} does not belong to the set but its content changed from {} to {} bytes", original.len(), fl.data.len()))),
            None => v.c11.push(f("C11/foreign-file-deleted", format!("{p:?} vanished"))),
        }
    }
    // per attempt: one file, named for the period of the clock reading
    let mut created_in_order: Vec<(String, u64, usize)> = Vec::new(); // (name, clock_ms, attempt)
    let mut prev_ok: Option<(usize, String)> = None; // (attempt idx, path) of the last acknowledged attempt in this generation
    let mut prev_gen = 0u32;
    for (ai, a) in run.attempts.iter().enumerate() {
        let ops = &run.log[a.ops.0..a.ops.1];
        let written: BTreeSet<&String> = ops.iter().filter(|o| o.kind == OpKind::Write).map(|o| &o.path).collect();
        if written.len() > 1 {
            v.c11.push(f("C11/batch-split-over-files", format!("attempt {ai} wrote to {} files: {written:?}", written.len())));
        }
        let (want_period, want_counter) = period(run.cfg.roll, a.clock_ms);
        for o in ops.iter().filter(|o| o.kind == OpKind::OpenNew && o.outcome == OpOutcome::Ok) {
            created_in_order.push((fname(&o.path).to_string(), a.clock_ms, ai));
            let n = fname(&o.path);
            if is_own_name(n, &run.prefix, &run.ext) {
                let rest = &n[run.prefix.len() + 1..n.len() - run.ext.len() - 1];
                let parts: Vec<&str> = rest.split('.').collect();
                // period + counter must be those of ONE clock reading taken while the batch was processed
                let fits = (a.clock_ms..=a.clock_end_ms.max(a.clock_ms)).step_by(1).take(200_000).any(|t| {
                    let (p, c) = period(run.cfg.roll, t);
                    // numeric equality: zero padding is judged by the name-order clause, not here
                    parts[0] == p && parts[1].parse::<u64>().ok() == Some(c)
                });
                if !fits {
                    if parts[0] != want_period && parts[0] != period(run.cfg.roll, a.clock_end_ms).0 {
                        v.c11.push(f("C11/wrong-period-in-name", format!("file {n} created while the clock read {}..{} should carry period {want_period}", a.clock_ms, a.clock_end_ms)));
                    } else {
                        v.c11.push(f(
                            "C11/wrong-counter-in-name",
                            format!("file {n} created while the clock read {}..{}: period and counter are not those of one reading in that interval (at the start: {want_period} / {:08})", a.clock_ms, a.clock_end_ms, want_counter),
                        ));
                    }
                }
            }
        }
        for p in &written {
            let n = fname(p);
            if is_own_name(n, &run.prefix, &run.ext) {
                let rest = &n[run.prefix.len() + 1..n.len() - run.ext.len() - 1];
                let got_period = rest.split('.').next().unwrap_or("");
                if got_period != want_period && got_period != period(run.cfg.roll, a.clock_end_ms).0 {
                    v.c11.push(f(
                        "C11/written-file-has-other-period",
                        format!("events written at clock {} (period {want_period}) went to {n}", a.clock_ms),
                    ));
                }
            }
        }
        // same-file-or-new rule
        if a.gen != prev_gen {
            prev_ok = None;
            prev_gen = a.gen;
        }
        let this_path: Option<String> = written.iter().next().map(|s| (*s).clone());
        let created_here = ops.iter().any(|o| o.kind == OpKind::OpenNew && o.outcome == OpOutcome::Ok);
        let opened_existing = ops.iter().any(|o| o.kind == OpKind::OpenExisting && o.outcome == OpOutcome::Ok);
        let attempt_fault_free = ops.iter().all(|o| o.fault.is_none() && o.outcome != OpOutcome::AfterCrash);
        if let (Some((pi, ppath)), Some(tp)) = (&prev_ok, &this_path) {
            // the previous attempt in this process was acknowledged and nothing failed since
            let period_stable = period(run.cfg.roll, a.clock_end_ms).0 == want_period;
            if !period_stable {
                v.stats.period_changes_mid_batch = true;
            }
            if *pi + 1 == ai && a.attempt_no == 1 && attempt_fault_free && period_stable {
                let prev = &run.attempts[*pi];
                let (prev_period, _) = period(run.cfg.roll, prev.clock_ms);
                let size_before: usize = prev.durable_after.get(ppath).or_else(|| prev.entry_unsynced_after.get(ppath)).map_or(0, |d| d.len());
                let batch_bytes: usize = a.events.iter().map(|e| e.len()).sum();
                let fits = size_before + batch_bytes <= run.cfg.size_limit as usize;
                let same_period = prev_period == want_period;
                if same_period && fits {
                    if tp != ppath || created_here {
                        v.c11.push(f(
                            if a.after_overflow { "C11/rolled-without-cause/after-overflow" } else { "C11/rolled-without-cause" },
                            format!(
                                "batch {} (clock {}, {} bytes) started {} although the period is unchanged ({want_period}) and the current file {} ({size_before} bytes) has room (limit {})",
                                a.batch, a.clock_ms, batch_bytes, fname(tp), fname(ppath), run.cfg.size_limit
                            ),
                        ));
                    }
                } else {
                    if !same_period {
                        v.stats.time_roll = true;
                    } else {
                        v.stats.size_roll = true;
                    }
                    if tp == ppath || !created_here {
                        v.c11.push(f(
                            if same_period { "C11/size-limit-not-rolled" } else { "C11/period-change-not-rolled" },
                            format!(
                                "batch {} (clock {}, {} bytes) kept writing to {} ({size_before} bytes, limit {}, file period {prev_period}, current period {want_period})",
                                a.batch, a.clock_ms, batch_bytes, fname(ppath), run.cfg.size_limit
                            ),
                        ));
                    }
                }
            }
        } else if prev_ok.is_none() && this_path.is_some() && a.attempt_no == 1 && attempt_fault_free {
            // first batch of a process: a new file, or (reuse on) an existing one
            if opened_existing && !run.cfg.reuse {
                v.c11.push(f("C11/reused-although-reuse-off", format!("batch {} appended to an existing file after a restart with reuse_files(false)", a.batch)));
            }
        }
        if a.result == AttemptResult::Ok {
            prev_ok = this_path.map(|p| (ai, p));
            // (c) retention after every acknowledged batch
            // a failed delete or directory listing legitimately leaves files behind (C11 does not
            // quantify over IO faults); the bound is judged on histories where retention could work
            let retention_faulted = run.log[..a.ops.1]
                .iter()
                .any(|o| matches!(o.kind, OpKind::Remove | OpKind::ReadDir) && (o.fault.is_some() || o.outcome == OpOutcome::Failed || o.outcome == OpOutcome::AfterCrash));
            if a.listing_after.len() > run.cfg.max_files as usize && !retention_faulted {
                v.c11.push(f(
                    "C11/more-files-than-max",
                    format!("after batch {} the set holds {} files, max_files = {}: {:?}", a.batch, a.listing_after.len(), run.cfg.max_files, a.listing_after.iter().map(|p| fname(p)).collect::<Vec<_>>()),
                ));
            }
        } else {
            prev_ok = None;
        }
    }
    // oldest deleted first (by name order, which is creation order while the clock does not go back)
    if !v.stats.backward_clock {
        let mut existing: BTreeSet<String> = run.pre.keys().filter(|p| is_own_name(fname(p), &run.prefix, &run.ext)).map(|p| fname(p).to_string()).collect();
        let mut remove_failed = false;
        for o in &run.log {
            match (o.kind, &o.outcome) {
                (OpKind::OpenNew, OpOutcome::Ok) => {
                    existing.insert(fname(&o.path).to_string());
                }
                (OpKind::Remove, OpOutcome::Failed) => remove_failed = true,
                (OpKind::Remove, OpOutcome::Ok) => {
                    let n = fname(&o.path).to_string();
                    if let Some(min) = existing.iter().next() {
                        // (a delete that failed leaves an older file behind; not this property's domain)
                        if *min != n && is_own_name(&n, &run.prefix, &run.ext) && run.crashes.is_empty() && !remove_failed {
                            v.c11.push(f("C11/not-oldest-deleted-first", format!("deleted {n} while the older {min} still exists")));
                        }
                    }
                    existing.remove(&n);
                }
                _ => {}
            }
        }
        // (d) descending name order = most recently created first
        for w in created_in_order.windows(2) {
            let (a, b) = (&w[0], &w[1]);
            if !is_own_name(&a.0, &run.prefix, &run.ext) || !is_own_name(&b.0, &run.prefix, &run.ext) {
                continue;
            }
            if a.1 == b.1 {
                v.stats.equal_clock_creation = true;
            }
            if b.0 <= a.0 {
                v.c11.push(f(
                    if a.1 == b.1 { "C11/name-order/same-millisecond" } else { "C11/name-order" },
                    format!("{} was created after {} (clock {} then {}) but does not sort after it", b.0, a.0, a.1, b.1),
                ));
                if a.1 != b.1 {
                    break;
                }
            }
        }
    }
    v
}
