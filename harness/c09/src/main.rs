use chan::e2::{self, Prop};
use chan::e7;
use vcore::proptest::prelude::*;
use vcore::Level;

const RULE: &str = "same history generator weighted towards overflow: capacities 1-8, send / try_send / async send (timeout 0|inf) sequences against a receiver that never runs, runs slowly or whose processor never returns (unresolved batch); the queue_length, queue_full_truncated and queue_full_blocked metrics are sampled after every operation; small-scope exhaustive mode; E7 with many sender threads against a worker parked on a harness latch; E7 async sends (emit_batcher::tokio::send, timeouts 0, 1-30 ms and the far end of Duration, 1-4 concurrent tasks, tokio::flush and try_send alongside) on current-thread / multi-thread / paused-clock runtimes against a receiver that is slow, whose processor never returns or that was never started, placed on its own thread or on the runtime of the senders. Oracle: pending (queue_length) equals the model and never exceeds capacity; send on full discards the whole older queue, keeps the new item, counts one truncation; try_send/async send on full hand back exactly the item (pending unchanged) and accept iff there is room; blocked sends are counted; all sender calls return while the worker is held on the latch; after the worker is released every item a fallible/async send reported as enqueued is delivered exactly once and no handed-back item is. Non-trivial = at least one overflow.";

fn main() {
    vcore::run(
        "C09",
        Level::Exploration,
        RULE,
        &[
            "E2 drives Receiver::exec, tokio::send/flush futures and all sender calls from one thread; because all state shared by the halves is behind one mutex and the receiver runs at most one critical section between two suspension points, every lock-granularity interleaving of the two-thread system corresponds to a placement of sender operations between receiver steps",
            "the hand-off instant is observed through when_empty callbacks (documented to fire at a point where the current batch is empty) and through the processor invocation",
            "'bounded' is judged against generous absolute bounds (<= 64 attempts per batch, retry waits <= 10 min, idle waits <= 1 min), not against the current constants of emit_batcher::bounded; the retry budget is learned from the run and must be identical for every batch that is given up and at least one retry",
            "E7 samples OS schedules (it does not own them); its oracles are ticket-ordered history invariants that hold for every interleaving; the 30 s watchdogs are the only use of wall-clock time",
            "condvar/oneshot wake-up paths (sync.rs, tokio.rs) are only exercised by E7, i.e. sampled",
        ],
        |s| {
            // the channel promises never to block its callers: a case that does not return is a violation
            s.hang_is_violation(120);
            s.require("self-reported-metrics", 2000);
            s.require("send-inside-receiver-allocation", 1000);
        s.require("overflow-via-send", 5000);
        s.require("overflow-via-try_send", 5000);
        s.require("overflow-via-async-send", 5000);
        s.require("e7:stalled-worker", 200);
        s.require("e7:handed-back", 50);
            // artifacts of the libFuzzer target `chan_c09` (engine E6 over E2) are replayed through the same entry
            s.manual("fuzz-artifact", Vec::<Vec<u8>>::new(), |bytes, cx| {
                cx.nontrivial(true);
                match chan::fuzz::entry(bytes, Prop::C09) {
                    Ok(()) => Ok(()),
                    Err(f) => cx.fail(f.sig, format!("{}; decoded case: {:?}", f.msg, chan::fuzz::decode(bytes))),
                }
            });
            s.gen("e2-random", s.n(400_000, 12_000_000), || e2::case(e2::W_C09), |c, cx| e2::check(c, Prop::C09, cx));
            let max_len = if s.quick() { 6 } else { 7 };
            s.enumerate("e2-small-scope", e2::small_cases(max_len, &[1, 2]), |c, cx| e2::check(&c.to_case(), Prop::C09, cx));
            // the emitter built on the channel: emit never waits on a stalled filesystem, pending stays bounded
            s.require("file-e2e-stall:more-events-than-capacity", 100);
            s.require("file-e2e-stall:truncation-counted", 50);
            s.gen("file-e2e-stalled-destination", s.n(2_000, 40_000), fsim::e2e::stall_case, |c, cx| fsim::e2e::check_never_blocks(c, cx));
            // the OTLP twin (real emit_otlp emitter, endpoint that holds / refuses / never reads; harness/c12/src/e2e.rs)
            c12::e2e::register_c09(s);
            s.gen("file-batch-channel-laws", s.n(100_000, 3_000_000), fsim::e2e::batch_ops, |c, cx| fsim::e2e::check_batch_laws(c, cx));
            // the same workloads against a LIVE worker (few stalls): silent discards on the receiver's side
            // (idle path, hand-off) only show when the worker actually runs
            s.gen("e7-os-threads-live", s.n(12_000, 300_000), || e7::workload(1), |c, cx| e7::check(c, Prop::C09, cx));
            // blocking sends from every calling context, timeouts from zero to the far end of Duration: the item is
            // enqueued or handed back, the call neither panics nor hangs
            s.require("timeout:far-end-of-duration/blocking-send-on-full-channel", 10);
            s.gen("e7-blocking-sends", s.n(720, 12_000), || e7::blocking_case().prop_map(|mut c| { c.flush = false; c }), |c, cx| e7::check_blocking(c, cx));
            // hand-back deadline after a lost wake-up (cases sleep for seconds; one per thread)
            s.require("deadline:handed-back-on-time", 2);
            s.gen("e7-blocking-send-deadline", s.n(2, 40), e7::deadline_batch, |c, cx| e7::check_deadline(c, cx));
            // the ASYNC fallible send with finite non-zero timeouts (E2 only sees 0 and "never"): real runtimes
            // (current-thread, multi-thread, paused clock), receiver slow / processor never returns / never started,
            // on its own thread or on the senders' runtime; every item is enqueued (and later delivered) or handed back
            s.require("async:finite-timeout-expired-item-handed-back", 150);
            s.require("async:finite-timeout-expired-item-handed-back/multi-thread", 40);
            s.require("async:finite-timeout-expired-item-handed-back/current-thread", 40);
            s.require("async:finite-timeout-expired-item-handed-back/live-slow-receiver", 10);
            s.require("async:some-send-waited-and-some-send-got-in", 50);
            s.gen("e7-async-send-timeouts", s.n(2_400, 60_000), e7::async_case, |c, cx| e7::check_async(c, Prop::C09, cx));
            s.gen("e7-os-threads", s.n(3_000, 150_000), || e7::workload(8), |c, cx| e7::check(c, Prop::C09, cx));
        },
    )
}
