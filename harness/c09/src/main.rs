// stub: check for C09 not built yet
fn main() {
    eprintln!("C09: check not built yet");
    std::process::exit(2);
}
