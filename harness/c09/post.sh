#!/usr/bin/env bash
# libFuzzer campaign for C09 (target chan_c09: engine E6 over E2 -- channel histories decoded from bytes by chan::fuzz,
# run against the real emit_batcher channel under the deterministic scheduler, judged by C09's oracle in the target).
# ~1-2 k exec/s under ASan on one core: quick 20 k runs, thorough 360 k runs over 12 jobs.
exec "$(dirname "$0")/../../tools/fuzz_campaign.sh" C09 chan_c09 "$1" "$2" 20000 360000 160 chan_history
