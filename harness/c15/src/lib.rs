//! C15 — text forms round-trip; every parser is total (DESIGN §C15).
//!
//! Oracles live here (so the libFuzzer target `parse_any` and the replay path call exactly the same
//! functions); `main.rs` only registers generators.

use std::time::Duration;

use emit::{Kind, Level, SpanId, Timestamp, TraceId};
use emit_traceparent::{TraceFlags, Traceparent};
use vcore::{catch, Cx, Fail, Res};

// ---------------------------------------------------------------------------------------------
// Independent references

/// What the documented grammar says about a text.
#[derive(Debug, Clone, PartialEq)]
pub enum Class<T> {
    MustAccept(T),
    MustReject,
    DontCare,
}

pub fn is_leap(y: i64) -> bool {
    (y % 4 == 0 && y % 100 != 0) || y % 400 == 0
}

pub fn days_in_month(y: i64, m: i64) -> i64 {
    match m {
        1 | 3 | 5 | 7 | 8 | 10 | 12 => 31,
        4 | 6 | 9 | 11 => 30,
        2 => {
            if is_leap(y) {
                29
            } else {
                28
            }
        }
        _ => 0,
    }
}

/// Days since 1970-01-01 of a proleptic Gregorian date (H. Hinnant's `days_from_civil`).
pub fn days_from_civil(y: i64, m: i64, d: i64) -> i64 {
    let y = if m <= 2 { y - 1 } else { y };
    let era = if y >= 0 { y } else { y - 399 } / 400;
    let yoe = y - era * 400;
    let mp = (m + 9) % 12;
    let doy = (153 * mp + 2) / 5 + d - 1;
    let doe = yoe * 365 + yoe / 4 - yoe / 100 + doy;
    era * 146097 + doe - 719468
}

/// Inverse (`civil_from_days`).
pub fn civil_from_days(z: i64) -> (i64, i64, i64) {
    let z = z + 719468;
    let era = if z >= 0 { z } else { z - 146096 } / 146097;
    let doe = z - era * 146097;
    let yoe = (doe - doe / 1460 + doe / 36524 - doe / 146096) / 365;
    let y = yoe + era * 400;
    let doy = doe - (365 * yoe + yoe / 4 - yoe / 100);
    let mp = (5 * doy + 2) / 153;
    let d = doy - (153 * mp + 2) / 5 + 1;
    let m = if mp < 10 { mp + 3 } else { mp - 9 };
    (if m <= 2 { y + 1 } else { y }, m, d)
}

pub const MAX_SECS: u64 = 253402300799;

fn dig(b: u8) -> Option<i64> {
    if b.is_ascii_digit() {
        Some((b - b'0') as i64)
    } else {
        None
    }
}

fn num(bs: &[u8]) -> Option<i64> {
    let mut v = 0i64;
    for b in bs {
        v = v * 10 + dig(*b)?;
    }
    Some(v)
}

/// Reference recogniser for RFC 3339 UTC timestamps as documented: `dddd-dd-ddTdd:dd:dd[.d{1,9}]Z`.
pub fn ref_timestamp(s: &str) -> Class<(u64, u32)> {
    let b = s.as_bytes();
    // strict shape
    let strict = (|| {
        if b.len() < 20 || b.len() > 30 {
            return None;
        }
        let y = num(b.get(0..4)?)?;
        if b[4] != b'-' {
            return None;
        }
        let mo = num(&b[5..7])?;
        if b[7] != b'-' {
            return None;
        }
        let d = num(&b[8..10])?;
        if b[10] != b'T' {
            return None;
        }
        let h = num(&b[11..13])?;
        if b[13] != b':' {
            return None;
        }
        let mi = num(&b[14..16])?;
        if b[16] != b':' {
            return None;
        }
        let sec = num(&b[17..19])?;
        let nanos = if b.len() == 20 {
            if b[19] != b'Z' {
                return None;
            }
            0
        } else {
            if b[19] != b'.' || b[b.len() - 1] != b'Z' {
                return None;
            }
            let frac = &b[20..b.len() - 1];
            if frac.is_empty() || frac.len() > 9 {
                return None;
            }
            let v = num(frac)?;
            v * 10i64.pow(9 - frac.len() as u32)
        };
        Some((y, mo, d, h, mi, sec, nanos))
    })();
    if let Some((y, mo, d, h, mi, sec, nanos)) = strict {
        let in_range = y >= 1970
            && (1..=12).contains(&mo)
            && d >= 1
            && d <= days_in_month(y, mo)
            && h <= 23
            && mi <= 59
            && sec <= 59;
        if in_range {
            let secs = days_from_civil(y, mo, d) * 86400 + h * 3600 + mi * 60 + sec;
            return Class::MustAccept((secs as u64, nanos as u32));
        }
        // well shaped, but a field is out of range (or before 1970): the outcome is open, only
        // totality is demanded
        return Class::DontCare;
    }
    // lenient shapes other RFC 3339 readers accept: outcome open
    let lenient = (|| {
        if b.len() < 20 {
            return None;
        }
        num(b.get(0..4)?)?;
        if b[4] != b'-' || b[7] != b'-' {
            return None;
        }
        num(&b[5..7])?;
        num(&b[8..10])?;
        if !matches!(b[10], b'T' | b't' | b' ') {
            return None;
        }
        num(&b[11..13])?;
        num(&b[14..16])?;
        num(&b[17..19])?;
        if b[13] != b':' || b[16] != b':' {
            return None;
        }
        let mut i = 19;
        if b[i] == b'.' {
            i += 1;
            let st = i;
            while i < b.len() && b[i].is_ascii_digit() {
                i += 1;
            }
            if i == st {
                return None;
            }
        }
        let zone = &b[i..];
        if zone == b"Z" || zone == b"z" {
            return Some(());
        }
        if zone.len() == 6
            && matches!(zone[0], b'+' | b'-')
            && zone[3] == b':'
            && num(&zone[1..3]).is_some()
            && num(&zone[4..6]).is_some()
        {
            return Some(());
        }
        None
    })();
    if lenient.is_some() {
        Class::DontCare
    } else {
        Class::MustReject
    }
}

fn hexval(b: u8) -> Option<u128> {
    match b {
        b'0'..=b'9' => Some((b - b'0') as u128),
        b'a'..=b'f' => Some((b - b'a' + 10) as u128),
        b'A'..=b'F' => Some((b - b'A' + 10) as u128),
        _ => None,
    }
}

fn hexnum(bs: &[u8]) -> Option<u128> {
    let mut v = 0u128;
    for b in bs {
        v = (v << 4) | hexval(*b)?;
    }
    Some(v)
}

/// exactly `n` hex digits, not all zero
pub fn ref_id(bs: &[u8], n: usize) -> Class<u128> {
    if bs.len() != n {
        return Class::MustReject;
    }
    match hexnum(bs) {
        Some(0) | None => Class::MustReject,
        Some(v) => Class::MustAccept(v),
    }
}

pub fn ref_flags(bs: &[u8]) -> Class<u8> {
    if bs.len() != 2 {
        return Class::MustReject;
    }
    match hexnum(bs) {
        Some(v) => Class::MustAccept(v as u8),
        None => Class::MustReject,
    }
}

/// 55 bytes, `00-<32 hex>-<16 hex>-<2 hex>`; all-zero ids denote "absent" (as the repository's
/// round-trip test requires). Other versions: open.
pub fn ref_traceparent(s: &str) -> Class<(Option<u128>, Option<u64>, u8)> {
    let b = s.as_bytes();
    if b.len() >= 3 && hexnum(&b[0..2]).is_some() && &b[0..2] != b"00" && b[2] == b'-' {
        return Class::DontCare;
    }
    if b.len() != 55 || &b[0..3] != b"00-" || b[35] != b'-' || b[52] != b'-' {
        return Class::MustReject;
    }
    let (Some(t), Some(sp), Some(f)) = (hexnum(&b[3..35]), hexnum(&b[36..52]), hexnum(&b[53..55])) else {
        return Class::MustReject;
    };
    Class::MustAccept((
        if t == 0 { None } else { Some(t) },
        if sp == 0 { None } else { Some(sp as u64) },
        f as u8,
    ))
}

/// The documented lenient level rule: ignoring surrounding whitespace, the leading run of ASCII
/// letters must be a non-empty, case-insensitive prefix of a level name; unmatched trailing
/// characters must not be ASCII control characters.
pub fn ref_level(s: &str) -> Class<Level> {
    let t = s.trim();
    let letters: String = t.chars().take_while(|c| c.is_ascii_alphabetic()).collect();
    let tail = &t[letters.len()..];
    if letters.is_empty() {
        // a text that does not start with a letter of a level name
        if t.chars().next().map_or(true, |c| c.is_ascii()) {
            return Class::MustReject;
        }
        return Class::MustReject;
    }
    let up = letters.to_ascii_uppercase();
    let names: [(&str, Level); 6] = [
        ("INFORMATION", Level::Info),
        ("DEBUG", Level::Debug),
        ("DBG", Level::Debug),
        ("ERROR", Level::Error),
        ("WARNING", Level::Warn),
        ("WRN", Level::Warn),
    ];
    let hit = names.iter().find(|(n, _)| n.starts_with(&up)).map(|(_, l)| *l);
    match hit {
        None => Class::MustReject,
        Some(l) => {
            if tail.chars().all(|c| c.is_ascii() && !c.is_ascii_control()) {
                Class::MustAccept(l)
            } else {
                // control or non-ASCII characters in the unmatched tail: the documentation only
                // promises acceptance for non-control tails; how deep the parser looks is open
                Class::DontCare
            }
        }
    }
}

pub fn ref_kind(s: &str) -> Class<Kind> {
    let exact = |t: &str| {
        if t.eq_ignore_ascii_case("span") {
            Some(Kind::Span)
        } else if t.eq_ignore_ascii_case("metric") {
            Some(Kind::Metric)
        } else {
            None
        }
    };
    if let Some(k) = exact(s) {
        return Class::MustAccept(k);
    }
    if exact(s.trim()).is_some() {
        return Class::DontCare; // whitespace padding is not documented either way
    }
    Class::MustReject
}

fn xid_start(c: char) -> bool {
    unicode_ident::is_xid_start(c)
}
fn xid_continue(c: char) -> bool {
    unicode_ident::is_xid_continue(c)
}

/// Non-empty identifier segments joined by exactly `::`.
pub fn ref_path(s: &str) -> Class<()> {
    if s.is_empty() {
        return Class::MustReject;
    }
    let mut all_start_ok = true;
    for seg in s.split("::") {
        if seg.is_empty() {
            return Class::MustReject;
        }
        if !seg.chars().all(xid_continue) {
            return Class::MustReject; // includes any stray ':' and any non-identifier character
        }
        if !xid_start(seg.chars().next().unwrap()) {
            all_start_ok = false;
        }
    }
    if all_start_ok {
        Class::MustAccept(())
    } else {
        Class::DontCare
    }
}

// ---------------------------------------------------------------------------------------------
// Oracles

fn ts(secs: u64, nanos: u32) -> Option<Timestamp> {
    Timestamp::from_unix(Duration::new(secs, nanos))
}

fn judge<T: PartialEq + std::fmt::Debug, U: std::fmt::Debug>(
    cx: &mut Cx,
    what: &str,
    text: &dyn std::fmt::Debug,
    class: &Class<T>,
    got: Result<Option<T>, Fail>,
    _u: Option<U>,
) -> Res {
    match got {
        Err(p) => cx.fail(format!("{what}/panic"), format!("{what}({text:?}) {}", p.msg)),
        Ok(got) => match (class, got) {
            (Class::MustAccept(v), Some(g)) => {
                if *v != g {
                    cx.fail(
                        format!("{what}/wrong-value"),
                        format!("{what}({text:?}) = {g:?}, reference says {v:?}"),
                    )
                } else {
                    Ok(())
                }
            }
            (Class::MustAccept(v), None) => cx.fail(
                format!("{what}/rejects-valid"),
                format!("{what}({text:?}) rejected, reference says {v:?}"),
            ),
            (Class::MustReject, Some(g)) => cx.fail(
                format!("{what}/accepts-invalid"),
                format!("{what}({text:?}) accepted as {g:?}, grammar says reject"),
            ),
            (Class::MustReject, None) => Ok(()),
            (Class::DontCare, _) => {
                cx.dont_care();
                Ok(())
            }
        },
    }
}

/// Every entry point that parses `s` as a timestamp.
pub fn check_timestamp_text(s: &str, cx: &mut Cx) -> Res {
    let class = match ref_timestamp(s) {
        Class::MustAccept((secs, nanos)) => Class::MustAccept(ts(secs, nanos).expect("reference in range")),
        Class::MustReject => Class::MustReject,
        Class::DontCare => Class::DontCare,
    };
    match &class {
        Class::MustAccept(_) => cx.class("ts:must-accept"),
        Class::MustReject => cx.class("ts:must-reject"),
        Class::DontCare => cx.class("ts:dont-care"),
    }
    let b = s.as_bytes();
    if b.len() >= 19 && b.len() <= 30 && !s.is_ascii() {
        cx.class("ts:multibyte-in-window");
    }
    judge(cx, "Timestamp::from_str", &s, &class, catch(|| s.parse::<Timestamp>().ok()), None::<()>)?;
    judge(cx, "Timestamp::try_from_str", &s, &class, catch(|| Timestamp::try_from_str(s).ok()), None::<()>)?;
    // `parse(impl Display)` buffers into 30 bytes: identical verdicts (anything longer is rejected
    // by both the grammar and the buffer)
    judge(cx, "Timestamp::parse", &s, &class, catch(|| Timestamp::parse(s).ok()), None::<()>)?;
    // the text arriving as a property value
    judge(
        cx,
        "Value(str).cast::<Timestamp>",
        &s,
        &class,
        catch(|| emit::Value::from(s).cast::<Timestamp>()),
        None::<()>,
    )?;
    let owned = s.to_string();
    judge(
        cx,
        "Value(display).cast::<Timestamp>",
        &s,
        &class,
        catch(|| emit::Value::capture_display(&owned).cast::<Timestamp>()),
        None::<()>,
    )?;
    judge(
        cx,
        "OwnedValue.cast::<Timestamp>",
        &s,
        &class,
        catch(|| emit::Value::from(s).to_owned().by_ref().cast::<Timestamp>()),
        None::<()>,
    )?;
    Ok(())
}

pub fn check_trace_id_bytes(bs: &[u8], cx: &mut Cx) -> Res {
    let class = match ref_id(bs, 32) {
        Class::MustAccept(v) => Class::MustAccept(TraceId::from_u128(v).unwrap()),
        Class::MustReject => Class::MustReject,
        Class::DontCare => Class::DontCare,
    };
    cx.class(if matches!(class, Class::MustAccept(_)) { "id:must-accept" } else { "id:must-reject" });
    judge(cx, "TraceId::try_from_hex_slice", &bs, &class, catch(|| TraceId::try_from_hex_slice(bs).ok()), None::<()>)?;
    if let Ok(s) = std::str::from_utf8(bs) {
        judge(cx, "TraceId::from_str", &s, &class, catch(|| s.parse::<TraceId>().ok()), None::<()>)?;
        judge(cx, "TraceId::try_from_hex", &s, &class, catch(|| TraceId::try_from_hex(s).ok()), None::<()>)?;
        judge(cx, "Value(str).cast::<TraceId>", &s, &class, catch(|| emit::Value::from(s).cast::<TraceId>()), None::<()>)?;
        let owned = s.to_string();
        judge(
            cx,
            "Value(display).cast::<TraceId>",
            &s,
            &class,
            catch(|| emit::Value::capture_display(&owned).cast::<TraceId>()),
            None::<()>,
        )?;
    }
    Ok(())
}

pub fn check_span_id_bytes(bs: &[u8], cx: &mut Cx) -> Res {
    let class = match ref_id(bs, 16) {
        Class::MustAccept(v) => Class::MustAccept(SpanId::from_u64(v as u64).unwrap()),
        Class::MustReject => Class::MustReject,
        Class::DontCare => Class::DontCare,
    };
    cx.class(if matches!(class, Class::MustAccept(_)) { "id:must-accept" } else { "id:must-reject" });
    judge(cx, "SpanId::try_from_hex_slice", &bs, &class, catch(|| SpanId::try_from_hex_slice(bs).ok()), None::<()>)?;
    if let Ok(s) = std::str::from_utf8(bs) {
        judge(cx, "SpanId::from_str", &s, &class, catch(|| s.parse::<SpanId>().ok()), None::<()>)?;
        judge(cx, "SpanId::try_from_hex", &s, &class, catch(|| SpanId::try_from_hex(s).ok()), None::<()>)?;
        judge(cx, "Value(str).cast::<SpanId>", &s, &class, catch(|| emit::Value::from(s).cast::<SpanId>()), None::<()>)?;
        let owned = s.to_string();
        judge(
            cx,
            "Value(display).cast::<SpanId>",
            &s,
            &class,
            catch(|| emit::Value::capture_display(&owned).cast::<SpanId>()),
            None::<()>,
        )?;
    }
    Ok(())
}

pub fn check_flags_bytes(bs: &[u8], cx: &mut Cx) -> Res {
    let class = match ref_flags(bs) {
        Class::MustAccept(v) => Class::MustAccept(TraceFlags::from_u8(v)),
        Class::MustReject => Class::MustReject,
        Class::DontCare => Class::DontCare,
    };
    cx.class(if matches!(class, Class::MustAccept(_)) { "flags:must-accept" } else { "flags:must-reject" });
    judge(cx, "TraceFlags::try_from_hex_slice", &bs, &class, catch(|| TraceFlags::try_from_hex_slice(bs).ok()), None::<()>)
}

pub fn check_traceparent_text(s: &str, cx: &mut Cx) -> Res {
    let class = match ref_traceparent(s) {
        Class::MustAccept((t, sp, f)) => Class::MustAccept(Traceparent::new(
            t.and_then(TraceId::from_u128),
            sp.and_then(SpanId::from_u64),
            TraceFlags::from_u8(f),
        )),
        Class::MustReject => Class::MustReject,
        Class::DontCare => Class::DontCare,
    };
    match &class {
        Class::MustAccept(_) => cx.class("tp:must-accept"),
        Class::MustReject => cx.class("tp:must-reject"),
        Class::DontCare => cx.class("tp:dont-care"),
    }
    judge(cx, "Traceparent::try_from_str", &s, &class, catch(|| Traceparent::try_from_str(s).ok()), None::<()>)?;
    judge(cx, "Traceparent::from_str", &s, &class, catch(|| s.parse::<Traceparent>().ok()), None::<()>)
}

pub fn check_level_text(s: &str, cx: &mut Cx) -> Res {
    let class = ref_level(s);
    match &class {
        Class::MustAccept(_) => cx.class("level:must-accept"),
        Class::MustReject => cx.class("level:must-reject"),
        Class::DontCare => cx.class("level:dont-care"),
    }
    judge(cx, "Level::from_str", &s, &class, catch(|| s.parse::<Level>().ok()), None::<()>)?;
    judge(cx, "Level::try_from_str", &s, &class, catch(|| Level::try_from_str(s).ok()), None::<()>)?;
    judge(cx, "Value(str).cast::<Level>", &s, &class, catch(|| emit::Value::from(s).cast::<Level>()), None::<()>)?;
    let owned = s.to_string();
    judge(
        cx,
        "Value(display).cast::<Level>",
        &s,
        &class,
        catch(|| emit::Value::capture_display(&owned).cast::<Level>()),
        None::<()>,
    )
}

pub fn check_kind_text(s: &str, cx: &mut Cx) -> Res {
    let class = ref_kind(s);
    match &class {
        Class::MustAccept(_) => cx.class("kind:must-accept"),
        Class::MustReject => cx.class("kind:must-reject"),
        Class::DontCare => cx.class("kind:dont-care"),
    }
    judge(cx, "Kind::from_str", &s, &class, catch(|| s.parse::<Kind>().ok()), None::<()>)?;
    judge(cx, "Kind::try_from_str", &s, &class, catch(|| Kind::try_from_str(s).ok()), None::<()>)?;
    judge(cx, "Value(str).cast::<Kind>", &s, &class, catch(|| emit::Value::from(s).cast::<Kind>()), None::<()>)
}

pub fn check_path_text(s: &str, cx: &mut Cx) -> Res {
    let class = ref_path(s);
    match &class {
        Class::MustAccept(_) => cx.class("path:must-accept"),
        Class::MustReject => cx.class("path:must-reject"),
        Class::DontCare => cx.class("path:dont-care"),
    }
    let as_bool = |c: &Class<()>| match c {
        Class::MustAccept(()) => Class::MustAccept(()),
        Class::MustReject => Class::MustReject,
        Class::DontCare => Class::DontCare,
    };
    judge(
        cx,
        "is_valid_path",
        &s,
        &as_bool(&class),
        catch(|| if emit::path::is_valid_path(s) { Some(()) } else { None }),
        None::<()>,
    )?;
    judge(
        cx,
        "Path::new_ref",
        &s,
        &as_bool(&class),
        catch(|| emit::Path::new_ref(s).ok().map(|p| assert_eq!(p.to_string(), s))),
        None::<()>,
    )?;
    judge(
        cx,
        "Value(str).cast::<Path>",
        &s,
        &as_bool(&class),
        catch(|| emit::Value::from(s).cast::<emit::Path>().map(|p| assert_eq!(p.to_string(), s))),
        None::<()>,
    )?;
    // a valid path's segments are exactly the reference's
    if let Class::MustAccept(()) = class {
        let segs = catch(|| {
            emit::Path::new_ref(s)
                .unwrap()
                .segments()
                .map(|s| s.to_string())
                .collect::<Vec<_>>()
        });
        match segs {
            Err(p) => cx.fail("Path::segments/panic", p.msg)?,
            Ok(segs) => {
                let want: Vec<String> = s.split("::").map(|s| s.to_string()).collect();
                if segs != want {
                    cx.fail("Path::segments/wrong", format!("segments({s:?}) = {segs:?}"))?;
                }
            }
        }
    }
    Ok(())
}

/// Any text whatsoever through every parser (totality + recogniser agreement).
pub fn check_any_text(s: &str, cx: &mut Cx) -> Res {
    check_timestamp_text(s, cx)?;
    check_trace_id_bytes(s.as_bytes(), cx)?;
    check_span_id_bytes(s.as_bytes(), cx)?;
    check_flags_bytes(s.as_bytes(), cx)?;
    check_traceparent_text(s, cx)?;
    check_level_text(s, cx)?;
    check_kind_text(s, cx)?;
    check_path_text(s, cx)?;
    Ok(())
}

// ---------------------------------------------------------------------------------------------
// Value round trips

fn fmt_ts(t: Timestamp, precision: Option<u8>) -> String {
    match precision {
        None => format!("{t}"),
        Some(p) => format!("{:.*}", p as usize, t),
    }
}

fn truncate_nanos(nanos: u32, precision: Option<u8>) -> u32 {
    let p = precision.map(|p| p.min(9)).unwrap_or(9) as u32;
    let unit = 10u32.pow(9 - p);
    nanos / unit * unit
}

/// format -> parse returns the instant truncated to the formatted precision; the text has the
/// documented shape; calendar parts agree with the independent civil calendar in both directions.
pub fn check_timestamp_value(secs: u64, nanos: u32, precision: Option<u8>, cx: &mut Cx) -> Res {
    let Some(t) = ts(secs, nanos) else {
        return cx.fail("ts/from_unix-rejects-in-range", format!("from_unix({secs},{nanos}) = None"));
    };
    cx.class(match precision {
        None => "ts:precision-default",
        Some(0) => "ts:precision-0",
        Some(1..=8) => "ts:precision-1..8",
        Some(9) => "ts:precision-9",
        Some(_) => "ts:precision->9",
    });
    let text = match catch(|| fmt_ts(t, precision)) {
        Ok(x) => x,
        Err(p) => return cx.fail("ts/format-panic", p.msg),
    };
    // shape
    let want_nanos = truncate_nanos(nanos, precision);
    match ref_timestamp(&text) {
        Class::MustAccept((s2, n2)) => {
            if s2 != secs || n2 != want_nanos {
                cx.fail(
                    "ts/format-wrong-instant",
                    format!("format({secs},{nanos},{precision:?}) = {text:?} which denotes ({s2},{n2})"),
                )?;
            }
        }
        other => cx.fail(
            "ts/format-not-rfc3339",
            format!("format({secs},{nanos},{precision:?}) = {text:?} classified {other:?}"),
        )?,
    }
    let digits = precision.map(|p| p.min(9)).unwrap_or(9) as usize;
    let want_len = if digits == 0 { 20 } else { 21 + digits };
    if text.len() != want_len {
        cx.fail("ts/format-wrong-precision", format!("{text:?} has length {} want {want_len}", text.len()))?;
    }
    // round trip through every entry point
    let want = ts(secs, want_nanos).unwrap();
    let entry: [(&str, Result<Option<Timestamp>, Fail>); 5] = [
        ("from_str", catch(|| text.parse::<Timestamp>().ok())),
        ("try_from_str", catch(|| Timestamp::try_from_str(&text).ok())),
        ("parse", catch(|| Timestamp::parse(&text).ok())),
        ("value-cast", catch(|| emit::Value::from(&*text).cast::<Timestamp>())),
        ("to_value-cast", catch(|| {
            // the typed value itself, captured and cast back (full precision)
            use emit::value::ToValue;
            t.to_value().cast::<Timestamp>()
        })),
    ];
    for (name, r) in entry {
        let want = if name == "to_value-cast" { t } else { want };
        match r {
            Err(p) => cx.fail(format!("ts/roundtrip-panic/{name}"), format!("{name}({text:?}): {}", p.msg))?,
            Ok(None) => cx.fail(format!("ts/roundtrip-rejected/{name}"), format!("{name}({text:?}) rejected its own output"))?,
            Ok(Some(g)) => {
                if g != want {
                    cx.fail(format!("ts/roundtrip-wrong/{name}"), format!("{name}({text:?}) = {g:?} want {want:?}"))?;
                }
            }
        }
    }
    // owned value (buffered as text) keeps the instant
    {
        use emit::value::ToValue;
        let owned = t.to_value().to_owned();
        if owned.by_ref().cast::<Timestamp>() != Some(t) {
            cx.fail("ts/owned-value-cast", format!("owned value of {text:?} does not cast back"))?;
        }
    }
    // calendar parts both ways against the independent implementation
    let parts = t.to_parts();
    let (y, m, d) = civil_from_days((secs / 86400) as i64);
    let sod = secs % 86400;
    let want_parts = (y as u16, m as u8, d as u8, (sod / 3600) as u8, (sod / 60 % 60) as u8, (sod % 60) as u8, nanos);
    let got_parts = (parts.years, parts.months, parts.days, parts.hours, parts.minutes, parts.seconds, parts.nanos);
    if got_parts != want_parts {
        cx.fail("ts/to_parts", format!("to_parts({secs},{nanos}) = {got_parts:?} want {want_parts:?}"))?;
    }
    match catch(|| Timestamp::from_parts(parts)) {
        Err(p) => cx.fail("ts/from_parts-panic", p.msg)?,
        Ok(back) => {
            if back != Some(t) {
                cx.fail("ts/from_parts", format!("from_parts(to_parts({secs},{nanos})) = {back:?}"))?;
            }
        }
    }
    Ok(())
}

/// For equal precision, string order = instant order (of the truncated instants).
pub fn check_timestamp_order(a: (u64, u32), b: (u64, u32), precision: Option<u8>, cx: &mut Cx) -> Res {
    let (ta, tb) = (ts(a.0, a.1).unwrap(), ts(b.0, b.1).unwrap());
    let (sa, sb) = (fmt_ts(ta, precision), fmt_ts(tb, precision));
    let ka = (a.0, truncate_nanos(a.1, precision));
    let kb = (b.0, truncate_nanos(b.1, precision));
    if sa.cmp(&sb) != ka.cmp(&kb) {
        cx.fail(
            "ts/order",
            format!("{sa:?} vs {sb:?} order {:?} but instants order {:?}", sa.cmp(&sb), ka.cmp(&kb)),
        )?;
    }
    if (ta.cmp(&tb)) != (a.cmp(&b)) {
        cx.fail("ts/ord-impl", format!("Ord of {a:?} {b:?}"))?;
    }
    Ok(())
}

pub fn check_trace_id_value(v: u128, upper: bool, cx: &mut Cx) -> Res {
    let Some(id) = TraceId::from_u128(v) else {
        if v == 0 {
            return Ok(());
        }
        return cx.fail("traceid/from_u128", format!("{v} rejected"));
    };
    let text = id.to_string();
    let want = format!("{v:032x}");
    if text != want {
        cx.fail("traceid/format", format!("{text:?} want {want:?}"))?;
    }
    if std::str::from_utf8(&id.to_hex()).ok() != Some(&*want) {
        cx.fail("traceid/to_hex", format!("to_hex differs from display for {want}"))?;
    }
    if format!("{id:?}") != format!("{want:?}") {
        cx.fail("traceid/debug", format!("debug {:?}", id))?;
    }
    if TraceId::from_bytes(id.to_bytes()) != Some(id) || id.to_u128() != v {
        cx.fail("traceid/bytes", format!("bytes roundtrip {want}"))?;
    }
    let text = if upper { text.to_uppercase() } else { text };
    check_trace_id_bytes(text.as_bytes(), cx)?;
    // typed value and integer forms
    {
        use emit::value::ToValue;
        if id.to_value().cast::<TraceId>() != Some(id) {
            cx.fail("traceid/to_value", format!("{want}"))?;
        }
        if id.to_value().to_owned().by_ref().cast::<TraceId>() != Some(id) {
            cx.fail("traceid/owned-value", format!("{want}"))?;
        }
        if emit::Value::from(v).cast::<TraceId>() != Some(id) {
            cx.fail("traceid/from-u128-value", format!("{want}"))?;
        }
    }
    Ok(())
}

pub fn check_span_id_value(v: u64, upper: bool, cx: &mut Cx) -> Res {
    let Some(id) = SpanId::from_u64(v) else {
        if v == 0 {
            return Ok(());
        }
        return cx.fail("spanid/from_u64", format!("{v} rejected"));
    };
    let text = id.to_string();
    let want = format!("{v:016x}");
    if text != want {
        cx.fail("spanid/format", format!("{text:?} want {want:?}"))?;
    }
    if std::str::from_utf8(&id.to_hex()).ok() != Some(&*want) {
        cx.fail("spanid/to_hex", format!("to_hex differs from display for {want}"))?;
    }
    if SpanId::from_bytes(id.to_bytes()) != Some(id) || id.to_u64() != v {
        cx.fail("spanid/bytes", format!("bytes roundtrip {want}"))?;
    }
    let text = if upper { text.to_uppercase() } else { text };
    check_span_id_bytes(text.as_bytes(), cx)?;
    {
        use emit::value::ToValue;
        if id.to_value().cast::<SpanId>() != Some(id) {
            cx.fail("spanid/to_value", format!("{want}"))?;
        }
        if id.to_value().to_owned().by_ref().cast::<SpanId>() != Some(id) {
            cx.fail("spanid/owned-value", format!("{want}"))?;
        }
        if emit::Value::from(v).cast::<SpanId>() != Some(id) {
            cx.fail("spanid/from-u64-value", format!("{want}"))?;
        }
    }
    Ok(())
}

pub fn check_flags_value(v: u8, cx: &mut Cx) -> Res {
    let f = TraceFlags::from_u8(v);
    let text = f.to_string();
    let want = format!("{v:02x}");
    if text != want {
        cx.fail("flags/format", format!("{text:?} want {want:?}"))?;
    }
    if f.to_u8() != v || f.is_sampled() != (v & 1 == 1) {
        cx.fail("flags/accessors", format!("{v}"))?;
    }
    check_flags_bytes(text.as_bytes(), cx)?;
    check_flags_bytes(text.to_uppercase().as_bytes(), cx)
}

pub fn check_traceparent_value(t: u128, s: u64, f: u8, cx: &mut Cx) -> Res {
    let tp = Traceparent::new(TraceId::from_u128(t), SpanId::from_u64(s), TraceFlags::from_u8(f));
    let text = tp.to_string();
    let want = format!("00-{t:032x}-{s:016x}-{f:02x}");
    if text != want {
        cx.fail("traceparent/format", format!("{text:?} want {want:?}"))?;
    }
    cx.class_if(t == 0 || s == 0, "tp:absent-id");
    check_traceparent_text(&text, cx)
}

pub fn check_level_kind_values(cx: &mut Cx) -> Res {
    for l in [Level::Debug, Level::Info, Level::Warn, Level::Error] {
        let text = l.to_string();
        if text.parse::<Level>().ok() != Some(l) {
            cx.fail("level/roundtrip", format!("{text:?}"))?;
        }
        use emit::value::ToValue;
        if l.to_value().cast::<Level>() != Some(l) || l.to_value().to_owned().by_ref().cast::<Level>() != Some(l) {
            cx.fail("level/value-roundtrip", format!("{text:?}"))?;
        }
        check_level_text(&text, cx)?;
        check_level_text(&text.to_uppercase(), cx)?;
    }
    for k in [Kind::Span, Kind::Metric] {
        let text = k.to_string();
        if text.parse::<Kind>().ok() != Some(k) {
            cx.fail("kind/roundtrip", format!("{text:?}"))?;
        }
        use emit::value::ToValue;
        if k.to_value().cast::<Kind>() != Some(k) || k.to_value().to_owned().by_ref().cast::<Kind>() != Some(k) {
            cx.fail("kind/value-roundtrip", format!("{text:?}"))?;
        }
        check_kind_text(&text, cx)?;
        check_kind_text(&text.to_uppercase(), cx)?;
    }
    Ok(())
}

/// One calendar day, exhaustively enumerable: first and last instant, parts both ways, format/parse.
pub fn check_day(day: u32, cx: &mut Cx) -> Res {
    let (y, m, d) = civil_from_days(day as i64);
    cx.class_if(m == 2 && d == 29, "ts:feb-29");
    cx.class_if(y % 100 == 0 && m == 3 && d == 1, "ts:century-march-1");
    for (sod, nanos) in [(0u64, 0u32), (86399, 999_999_999)] {
        let secs = day as u64 * 86400 + sod;
        let t = ts(secs, nanos).unwrap();
        let p = t.to_parts();
        let got = (p.years as i64, p.months as i64, p.days as i64, p.hours as u64, p.minutes as u64, p.seconds as u64, p.nanos);
        let want = (y, m, d, sod / 3600, sod / 60 % 60, sod % 60, nanos);
        if got != want {
            cx.fail("ts/to_parts", format!("day {day}: {got:?} want {want:?}"))?;
        }
        match catch(|| Timestamp::from_parts(p)) {
            Err(pn) => cx.fail("ts/from_parts-panic", pn.msg)?,
            Ok(back) => {
                if back != Some(t) {
                    cx.fail("ts/from_parts", format!("day {day} sod {sod}: {back:?}"))?;
                }
            }
        }
        let text = t.to_string();
        let want_text = format!(
            "{:04}-{:02}-{:02}T{:02}:{:02}:{:02}.{:09}Z",
            y, m, d, sod / 3600, sod / 60 % 60, sod % 60, nanos
        );
        if text != want_text {
            cx.fail("ts/format", format!("day {day}: {text:?} want {want_text:?}"))?;
        }
        if text.parse::<Timestamp>().ok() != Some(t) {
            cx.fail("ts/roundtrip-wrong/from_str", format!("day {day}: {text:?}"))?;
        }
    }
    Ok(())
}

/// libFuzzer entry (engine E6): the same oracles as the proptest generators, fed from raw bytes.
/// Byte 0 selects how the rest is interpreted so that byte-slice entry points see non-UTF-8 input too.
pub fn fuzz_entry(data: &[u8]) -> Res {
    vcore::with_cx("C15", |cx| {
        let Some((mode, rest)) = data.split_first() else { return Ok(()) };
        match mode % 4 {
            0 => {
                check_trace_id_bytes(rest, cx)?;
                check_span_id_bytes(rest, cx)?;
                check_flags_bytes(rest, cx)
            }
            2 => {
                // the first three bytes are fragment boundaries, the rest is the text
                let (cuts, body) = rest.split_at(rest.len().min(3));
                let mut cuts: Vec<usize> = cuts.iter().map(|b| *b as usize % 72).collect();
                cuts.sort();
                let text = String::from_utf8_lossy(body);
                check_chunked_text(&text, &cuts, cx)
            }
            _ => {
                let text = String::from_utf8_lossy(rest);
                check_any_text(&text, cx)
            }
        }
    })
}

// ---------------------------------------------------------------------------------------------
// Text arriving through `impl Display` in several fragments

/// A `Display` that writes its text in separate `write_str` calls (as numbers, composite types and
/// `format_args!` with runtime arguments do). Fragment boundaries are char boundaries.
pub struct Chunked<'a> {
    pub text: &'a str,
    pub cuts: &'a [usize],
}

impl std::fmt::Display for Chunked<'_> {
    fn fmt(&self, f: &mut std::fmt::Formatter) -> std::fmt::Result {
        let mut last = 0;
        for &c in self.cuts {
            let mut c = c.min(self.text.len());
            while !self.text.is_char_boundary(c) {
                c -= 1;
            }
            if c > last {
                f.write_str(&self.text[last..c])?;
                last = c;
            }
        }
        f.write_str(&self.text[last..])
    }
}

/// The `impl Display` entry points must give the same verdict however the text is cut into fragments
/// (judged by the same recognisers as the one-piece text), and never panic.
pub fn check_chunked_text(text: &str, cuts: &[usize], cx: &mut Cx) -> Res {
    let c = Chunked { text, cuts };
    cx.class_if(cuts.len() >= 1, "chunked:>=2-fragments");
    cx.class_if(text.len() > 32, "chunked:longer-than-every-buffer");
    let ts_class = match ref_timestamp(text) {
        Class::MustAccept((secs, nanos)) => Class::MustAccept(ts(secs, nanos).expect("reference in range")),
        Class::MustReject => Class::MustReject,
        Class::DontCare => Class::DontCare,
    };
    judge(cx, "Timestamp::parse(chunked)", &text, &ts_class, catch(|| Timestamp::parse(&c).ok()), None::<()>)?;
    judge(
        cx,
        "Value(chunked display).cast::<Timestamp>",
        &text,
        &ts_class,
        catch(|| emit::Value::from_display(&c).cast::<Timestamp>()),
        None::<()>,
    )?;
    let tid = match ref_id(text.as_bytes(), 32) {
        Class::MustAccept(v) => Class::MustAccept(TraceId::from_u128(v).unwrap()),
        _ => Class::MustReject,
    };
    judge(cx, "TraceId::try_from_hex(chunked)", &text, &tid, catch(|| TraceId::try_from_hex(&c).ok()), None::<()>)?;
    judge(cx, "Value(chunked display).cast::<TraceId>", &text, &tid, catch(|| emit::Value::from_display(&c).cast::<TraceId>()), None::<()>)?;
    let sid = match ref_id(text.as_bytes(), 16) {
        Class::MustAccept(v) => Class::MustAccept(SpanId::from_u64(v as u64).unwrap()),
        _ => Class::MustReject,
    };
    judge(cx, "SpanId::try_from_hex(chunked)", &text, &sid, catch(|| SpanId::try_from_hex(&c).ok()), None::<()>)?;
    judge(cx, "Value(chunked display).cast::<SpanId>", &text, &sid, catch(|| emit::Value::from_display(&c).cast::<SpanId>()), None::<()>)?;
    // levels, kinds and paths read the whole formatted text: same recognisers
    let lvl = ref_level(text);
    judge(cx, "Value(chunked display).cast::<Level>", &text, &lvl, catch(|| emit::Value::from_display(&c).cast::<Level>()), None::<()>)?;
    let kind = ref_kind(text);
    judge(cx, "Value(chunked display).cast::<Kind>", &text, &kind, catch(|| emit::Value::from_display(&c).cast::<Kind>()), None::<()>)?;
    Ok(())
}

/// Numbers cast to ids / timestamps (floats and integers format in several fragments).
pub fn check_number_casts(f: f64, i: i128, cx: &mut Cx) -> Res {
    for what in ["f64", "i128", "u64"] {
        let r = catch(|| match what {
            "f64" => (
                emit::Value::from(f).cast::<SpanId>().is_some(),
                emit::Value::from(f).cast::<TraceId>().is_some(),
                emit::Value::from(f).cast::<Timestamp>().is_some(),
            ),
            "i128" => (
                emit::Value::from(i).cast::<SpanId>().is_some(),
                emit::Value::from(i).cast::<TraceId>().is_some(),
                emit::Value::from(i).cast::<Timestamp>().is_some(),
            ),
            _ => (
                emit::Value::from(i as u64).cast::<SpanId>().is_some(),
                emit::Value::from(i as u64).cast::<TraceId>().is_some(),
                emit::Value::from(i as u64).cast::<Timestamp>().is_some(),
            ),
        });
        match r {
            Err(p) => cx.fail(format!("number-cast/panic/{what}"), format!("casting {f} / {i} ({what}) to an id or timestamp: {}", p.msg))?,
            Ok((_, _, ts_ok)) => {
                // no number is an RFC 3339 text
                if ts_ok {
                    cx.fail("number-cast/timestamp-from-number", format!("{what} {f}/{i} cast to a Timestamp"))?;
                }
            }
        }
    }
    Ok(())
}
