use c15::*;
use serde::{Deserialize, Serialize};
use vcore::proptest::prelude::*;
use vcore::{pick, Cx, Level as VLevel, Res};

const RULE: &str = "cases are (a) typed values (timestamps over [MIN,MAX] at ns resolution with boundary families, every calendar day 1970-9999, ids, all 256 flag bytes, traceparents, levels, kinds) formatted and re-parsed through every entry point, (b) texts: near-misses of valid texts (<=3 edits from a 30-symbol alphabet incl. signs, separators, multi-byte and NUL), exhaustive 1- and 2-position substitutions of valid timestamps, exhaustive short strings per parser alphabet, all 65536 two-byte flag texts, and random Unicode strings; each text is classified by an independent recogniser as must-accept(value)/must-reject/don't-care and every parse/cast entry point must agree and never panic. Non-trivial = a text within edit distance <=3 of a valid text that is NOT itself the unedited valid text, or a boundary value (first/last instant of a day, MIN/MAX, precision 0 or >9, id with a single set bit / all ones).";

#[derive(Serialize, Deserialize, Debug, Clone)]
struct TsValue {
    secs: u64,
    nanos: u32,
    precision: Option<u8>,
}

fn ts_value() -> impl Strategy<Value = TsValue> {
    let secs = prop_oneof![
        4 => 0u64..=MAX_SECS,
        1 => (0u64..=2_932_896u64, prop_oneof![Just(0u64), Just(1), Just(86399), Just(86398), Just(43200)]).prop_map(|(d, s)| d * 86400 + s),
        1 => prop_oneof![Just(0u64), Just(MAX_SECS), Just(MAX_SECS - 1), Just(951_782_400u64), Just(951_868_799), Just(4_107_542_400u64)],
    ];
    let nanos = prop_oneof![
        3 => 0u32..1_000_000_000,
        1 => prop_oneof![Just(0u32), Just(1), Just(999_999_999), Just(999_999_990), Just(100_000_000), Just(99_999_999), Just(17532)],
        1 => (0u32..9, 1u32..10).prop_map(|(p, d)| d * 10u32.pow(p)),
    ];
    let precision = prop_oneof![
        2 => Just(None),
        6 => (0u8..=9).prop_map(Some),
        1 => (10u8..=40).prop_map(Some),
    ];
    (secs, nanos, precision).prop_map(|(secs, nanos, precision)| TsValue { secs, nanos, precision })
}

#[derive(Serialize, Deserialize, Debug, Clone)]
enum Base {
    Ts(TsValue),
    TraceId(u128, bool),
    SpanId(u64, bool),
    Traceparent(u128, u64, u8),
    Level(u8, u8, u8),
    Kind(u8, u8),
    Path(Vec<u8>),
}

#[derive(Serialize, Deserialize, Debug, Clone)]
enum Edit {
    Replace(u32, u8),
    Insert(u32, u8),
    Delete(u32),
    Truncate(u32),
    Dup(u32),
}

#[derive(Serialize, Deserialize, Debug, Clone)]
struct NearMiss {
    base: Base,
    edits: Vec<Edit>,
}

const ALPHABET: [char; 30] = [
    '0', '1', '9', '5', 'a', 'f', 'F', 'g', 'G', '+', '-', ':', '.', 'T', 'Z', 't', 'z', ' ', 'x', 'é', '€', '😀',
    '\0', '\u{7f}', '_', '/', 'W', 'I', '(', '3',
];

const LEVEL_NAMES: [&str; 8] = ["information", "debug", "dbg", "error", "warning", "wrn", "INFO", "Warn"];
const LEVEL_TAILS: [&str; 8] = ["", "", "1", "(13)", " 4", "-x", "\u{1}", "é"];
const KIND_NAMES: [&str; 6] = ["span", "metric", "SPAN", "Metric", " span", "metric "];
const PATH_SEGS: [&str; 8] = ["a", "b1", "_c", "é", "Σx", "a_b", "x9", "mod_name"];

fn base_text(b: &Base) -> String {
    match b {
        Base::Ts(t) => {
            let ts = emit::Timestamp::from_unix(std::time::Duration::new(t.secs.min(MAX_SECS), t.nanos % 1_000_000_000)).unwrap();
            match t.precision {
                None => format!("{ts}"),
                Some(p) => format!("{:.*}", p as usize, ts),
            }
        }
        Base::TraceId(v, up) => {
            let s = format!("{:032x}", v);
            if *up { s.to_uppercase() } else { s }
        }
        Base::SpanId(v, up) => {
            let s = format!("{:016x}", v);
            if *up { s.to_uppercase() } else { s }
        }
        Base::Traceparent(t, s, f) => format!("00-{t:032x}-{s:016x}-{f:02x}"),
        Base::Level(n, len, tail) => {
            let name = LEVEL_NAMES[*n as usize % LEVEL_NAMES.len()];
            let len = 1 + (*len as usize % name.len());
            format!("{}{}", &name[..len], LEVEL_TAILS[*tail as usize % LEVEL_TAILS.len()])
        }
        Base::Kind(n, _) => KIND_NAMES[*n as usize % KIND_NAMES.len()].to_string(),
        Base::Path(segs) => segs
            .iter()
            .map(|s| PATH_SEGS[*s as usize % PATH_SEGS.len()])
            .collect::<Vec<_>>()
            .join("::"),
    }
}

/// 0..30: the hand-picked alphabet; 30..158: every ASCII code point (incl. all control characters)
fn alpha(a: u8) -> char {
    if (a as usize) < ALPHABET.len() {
        ALPHABET[a as usize]
    } else {
        char::from((a - ALPHABET.len() as u8) % 128)
    }
}

fn apply(text: &str, edits: &[Edit]) -> String {
    let mut cs: Vec<char> = text.chars().collect();
    for e in edits {
        match e {
            Edit::Replace(i, a) => {
                if !cs.is_empty() {
                    let i = pick(*i, cs.len());
                    cs[i] = alpha(*a);
                }
            }
            Edit::Insert(i, a) => {
                let i = pick(*i, cs.len() + 1);
                cs.insert(i, alpha(*a));
            }
            Edit::Delete(i) => {
                if !cs.is_empty() {
                    let i = pick(*i, cs.len());
                    cs.remove(i);
                }
            }
            Edit::Truncate(i) => {
                let i = pick(*i, cs.len() + 1);
                cs.truncate(i);
            }
            Edit::Dup(i) => {
                if !cs.is_empty() {
                    let i = pick(*i, cs.len());
                    let c = cs[i];
                    cs.insert(i, c);
                }
            }
        }
    }
    cs.into_iter().collect()
}

fn near_miss() -> impl Strategy<Value = NearMiss> {
    let base = prop_oneof![
        6 => ts_value().prop_map(Base::Ts),
        2 => (any::<u128>(), any::<bool>()).prop_map(|(v, u)| Base::TraceId(v, u)),
        2 => (any::<u64>(), any::<bool>()).prop_map(|(v, u)| Base::SpanId(v, u)),
        3 => (prop_oneof![any::<u128>(), Just(0u128)], prop_oneof![any::<u64>(), Just(0u64)], any::<u8>()).prop_map(|(t, s, f)| Base::Traceparent(t, s, f)),
        3 => (0u8..8, 0u8..11, 0u8..8).prop_map(|(a, b, c)| Base::Level(a, b, c)),
        1 => (0u8..6, 0u8..1).prop_map(|(a, b)| Base::Kind(a, b)),
        3 => prop::collection::vec(0u8..8, 1..5).prop_map(Base::Path),
    ];
    let edit = prop_oneof![
        4 => (any::<u32>(), prop_oneof![3 => 0u8..30, 1 => 30u8..158]).prop_map(|(i, a)| Edit::Replace(i, a)),
        2 => (any::<u32>(), prop_oneof![3 => 0u8..30, 1 => 30u8..158]).prop_map(|(i, a)| Edit::Insert(i, a)),
        2 => any::<u32>().prop_map(Edit::Delete),
        1 => any::<u32>().prop_map(Edit::Truncate),
        1 => any::<u32>().prop_map(Edit::Dup),
    ];
    (base, prop::collection::vec(edit, 0..=3)).prop_map(|(base, edits)| NearMiss { base, edits })
}

fn check_near_miss(c: &NearMiss, cx: &mut Cx) -> Res {
    let base = base_text(&c.base);
    let text = apply(&base, &c.edits);
    cx.nontrivial(text != base);
    cx.class(match c.edits.len() {
        0 => "edits:0",
        1 => "edits:1",
        2 => "edits:2",
        _ => "edits:3",
    });
    // the parser the base belongs to, then (cheaply) every other parser too: a near-miss of one
    // grammar is a random-ish text for the others
    check_any_text(&text, cx)
}

#[derive(Serialize, Deserialize, Debug, Clone)]
struct Subst {
    base: u8,
    at: Vec<(u8, u8)>,
}

const SUBST_BASES: [&str; 5] = [
    "1970-01-01T00:00:00Z",
    "2024-02-29T23:59:59.123Z",
    "9999-12-31T23:59:59.999999999Z",
    "2000-10-10T10:10:10.5Z",
    "2023-08-13T21:21:43.000017532Z",
];
const SUBST_ALPHABET: [char; 14] = ['0', '1', '9', '+', '-', ':', '.', 'T', 'Z', 'z', ' ', 'x', 'é', '\0'];

fn subst_text(s: &Subst) -> String {
    let mut cs: Vec<char> = SUBST_BASES[s.base as usize].chars().collect();
    for (p, a) in &s.at {
        cs[*p as usize] = SUBST_ALPHABET[*a as usize];
    }
    cs.into_iter().collect()
}

fn check_subst(s: &Subst, cx: &mut Cx) -> Res {
    let text = subst_text(s);
    cx.nontrivial(text != SUBST_BASES[s.base as usize]);
    check_timestamp_text(&text, cx)
}

#[derive(Serialize, Deserialize, Debug, Clone)]
struct Short {
    parser: u8,
    text: String,
}

const SHORT_ALPHABETS: [&[char]; 4] = [
    // path
    &['a', 'b', '_', '1', ':', 'é', ' ', '-', 'A', '.', 'ö', '\u{200d}'],
    // level
    &['i', 'n', 'f', 'o', 'D', 'b', 'g', 'w', 'r', '1', '(', ' ', '\u{1}', 'é'],
    // kind
    &['s', 'p', 'a', 'n', 'S', ' ', 'm', 'e', 't', 'r', 'i', 'c'],
    // ids / flags / generic
    &['0', '1', 'a', 'F', 'g', '-', ' ', 'é', '\0', 'Z'],
];

fn short_strings(parser: u8, max_len: usize) -> impl Iterator<Item = Short> + Send {
    let alpha = SHORT_ALPHABETS[parser as usize];
    (0..=max_len).flat_map(move |len| {
        let n = alpha.len().pow(len as u32);
        (0..n).map(move |mut k| {
            let mut s = String::new();
            for _ in 0..len {
                s.push(alpha[k % alpha.len()]);
                k /= alpha.len();
            }
            Short { parser, text: s }
        })
    })
}

fn check_short(s: &Short, cx: &mut Cx) -> Res {
    cx.nontrivial(!s.text.is_empty());
    match s.parser {
        0 => check_path_text(&s.text, cx),
        1 => check_level_text(&s.text, cx),
        2 => check_kind_text(&s.text, cx),
        _ => {
            check_flags_bytes(s.text.as_bytes(), cx)?;
            check_trace_id_bytes(s.text.as_bytes(), cx)?;
            check_span_id_bytes(s.text.as_bytes(), cx)?;
            check_timestamp_text(&s.text, cx)?;
            check_traceparent_text(&s.text, cx)
        }
    }
}

#[derive(Serialize, Deserialize, Debug, Clone)]
struct Sweep {
    base: u8,
    pos: u8,
    byte: u8,
}

/// (kind, text): 0 = trace id, 1 = span id, 2 = traceparent, 3 = timestamp, 4 = flags
const SWEEP_BASES: [(u8, &str); 10] = [
    (1, "0000000000000001"),
    (0, "10000000000000000000000000000000"),
    (0, "4bf92f3577b34da6a3ce929d0e0e4736"),
    (0, "0000000000000000000000000000000A"),
    (1, "00f067aa0ba902b7"),
    (1, "FFFFFFFFFFFFFFFF"),
    (2, "00-4bf92f3577b34da6a3ce929d0e0e4736-00f067aa0ba902b7-01"),
    (3, "2024-02-29T23:59:59.123456789Z"),
    (3, "1970-01-01T00:00:00Z"),
    (4, "a1"),
];

fn check_sweep(c: &Sweep, cx: &mut Cx) -> Res {
    let (kind, text) = SWEEP_BASES[c.base as usize];
    let mut bytes = text.as_bytes().to_vec();
    bytes[c.pos as usize] = c.byte;
    cx.nontrivial(bytes != text.as_bytes());
    match kind {
        0 => check_trace_id_bytes(&bytes, cx),
        1 => check_span_id_bytes(&bytes, cx),
        4 => check_flags_bytes(&bytes, cx),
        _ => match std::str::from_utf8(&bytes) {
            Ok(s) if kind == 2 => check_traceparent_text(s, cx),
            Ok(s) => check_timestamp_text(s, cx),
            // not UTF-8: the &str entry points cannot be reached with it
            Err(_) => Ok(()),
        },
    }
}

fn main() {
    vcore::run(
        "C15",
        VLevel::Exploration,
        RULE,
        &[
            "the reference recognisers in c15/src/lib.rs encode the documented grammars (RFC 3339 UTC shape, 32/16 hex digits non-zero, 55-byte version-00 traceparent, `::`-joined identifier segments, the documented lenient level rule)",
            "outcomes the property text leaves open are classified don't-care and only checked for totality: out-of-range calendar fields and years before 1970, t/z/space and numeric-offset variants, >9 fraction digits, traceparent versions other than 00, non-ASCII or control characters in a level's unmatched tail, whitespace-padded kinds, path segments of XID_Continue characters that do not start with XID_Start",
            "unicode-ident supplies the XID_Start/XID_Continue character classes to the reference as it does to emit",
        ],
        |s| {
            s.require("ts:must-accept", 100);
            s.require("ts:must-reject", 100);
            s.require("ts:multibyte-in-window", 50);
            s.require("tp:must-accept", 20);
            s.require("path:must-accept", 20);
            s.require("path:must-reject", 20);
            s.require("level:must-accept", 20);
            s.require("ts:precision-0", 20);
            s.require("chunked:>=2-fragments", 1000);
            s.require("chunked:longer-than-every-buffer", 1000);

            // (a) values
            s.gen("ts-value", s.n(200_000, 6_000_000), ts_value, |c, cx| {
                cx.nontrivial(
                    c.secs % 86400 == 0
                        || c.secs % 86400 == 86399
                        || c.secs == MAX_SECS
                        || matches!(c.precision, Some(0) | Some(10..))
                        || c.nanos == 999_999_999,
                );
                check_timestamp_value(c.secs, c.nanos, c.precision, cx)
            });
            s.gen(
                "ts-order",
                s.n(100_000, 3_000_000),
                || {
                    (ts_value(), prop_oneof![Just(0i64), -3i64..=3, -2_000_000_000i64..=2_000_000_000, any::<i32>().prop_map(|v| v as i64 * 1_000_000)])
                        .prop_map(|(a, delta)| (a, delta))
                },
                |(a, delta), cx| {
                    let total = a.secs as i128 * 1_000_000_000 + a.nanos as i128 + *delta as i128;
                    let total = total.clamp(0, MAX_SECS as i128 * 1_000_000_000 + 999_999_999);
                    let b = ((total / 1_000_000_000) as u64, (total % 1_000_000_000) as u32);
                    cx.nontrivial(delta.abs() < 1_000_000_000 && *delta != 0);
                    check_timestamp_order((a.secs, a.nanos), b, a.precision, cx)
                },
            );
            s.enumerate("ts-days-exhaustive", 0u32..=2_932_896, |d, cx| {
                cx.nontrivial(true);
                check_day(*d, cx)
            });
            s.gen(
                "id-values",
                s.n(100_000, 3_000_000),
                || {
                    let t = prop_oneof![
                        3 => any::<u128>(),
                        1 => (0u32..128).prop_map(|b| 1u128 << b),
                        1 => (0u32..128).prop_map(|b| !(1u128 << b)),
                        1 => prop_oneof![Just(1u128), Just(u128::MAX), Just(u64::MAX as u128), Just(u64::MAX as u128 + 1), Just(0xffu128), Just(0x0fu128 << 124)],
                    ];
                    let sp = prop_oneof![
                        3 => any::<u64>(),
                        1 => (0u32..64).prop_map(|b| 1u64 << b),
                        1 => prop_oneof![Just(1u64), Just(u64::MAX), Just(u32::MAX as u64), Just(0xf0u64 << 56)],
                    ];
                    (t, sp, any::<bool>(), any::<u8>())
                },
                |(t, sp, upper, f), cx| {
                    cx.nontrivial(t.count_ones() == 1 || *t == u128::MAX || sp.count_ones() == 1 || *sp == u64::MAX || *upper);
                    check_trace_id_value(*t, *upper, cx)?;
                    check_span_id_value(*sp, *upper, cx)?;
                    check_traceparent_value(*t, *sp, *f, cx)?;
                    check_traceparent_value(0, *sp, *f, cx)?;
                    check_traceparent_value(*t, 0, *f, cx)
                },
            );
            s.enumerate("flags-all-values", 0u16..=255, |v, cx| {
                cx.nontrivial(true);
                check_flags_value(*v as u8, cx)
            });
            s.enumerate("flags-all-2byte-texts", 0u32..=65535, |v, cx| {
                let bs = [(*v >> 8) as u8, *v as u8];
                cx.nontrivial(true);
                check_flags_bytes(&bs, cx)
            });
            s.manual("level-kind-values", [0u8, 1], |_, cx| {
                cx.nontrivial(true);
                check_level_kind_values(cx)?;
                // the all-zero ids are not ids
                check_span_id_bytes(b"0000000000000000", cx)?;
                check_trace_id_bytes(b"00000000000000000000000000000000", cx)
            });

            // artifacts of the libFuzzer target `parse_any` are replayed through the same entry
            s.manual("fuzz-artifact", Vec::<Vec<u8>>::new(), |bytes, cx| {
                cx.nontrivial(true);
                match fuzz_entry(bytes) {
                    Ok(()) => Ok(()),
                    Err(f) => cx.fail(f.sig, f.msg),
                }
            });

            // (b) texts
            s.gen("near-miss", s.n(400_000, 20_000_000), near_miss, check_near_miss);
            let bases: u8 = if s.quick() { 2 } else { 5 };
            s.enumerate(
                "ts-subst-1",
                (0..5u8).flat_map(|b| {
                    let len = SUBST_BASES[b as usize].len() as u8;
                    (0..len).flat_map(move |p| (0..14u8).map(move |a| Subst { base: b, at: vec![(p, a)] }))
                }),
                check_subst,
            );
            s.enumerate(
                "ts-subst-2",
                (0..bases).flat_map(|b| {
                    let len = SUBST_BASES[b as usize].len() as u8;
                    (0..len).flat_map(move |p| {
                        (p + 1..len).flat_map(move |q| {
                            (0..14u8).flat_map(move |a| (0..14u8).map(move |c| Subst { base: b, at: vec![(p, a), (q, c)] }))
                        })
                    })
                }),
                check_subst,
            );
            // every byte value at every position of valid ids / flags / traceparents / timestamps
            // (complete sweep: a decode table that wrongly admits ONE byte value cannot hide)
            s.enumerate(
                "byte-sweep",
                (0..SWEEP_BASES.len() as u8).flat_map(|b| {
                    let len = SWEEP_BASES[b as usize].1.len() as u8;
                    (0..len).flat_map(move |p| (0..=255u8).map(move |v| Sweep { base: b, pos: p, byte: v }))
                }),
                check_sweep,
            );
            // the same texts arriving through `impl Display` in several fragments (incl. totals longer than the
            // 30/32/16-byte buffers with every single fragment short)
            s.gen(
                "chunked-display",
                s.n(200_000, 6_000_000),
                || {
                    (
                        near_miss(),
                        prop_oneof![2 => Just(String::new()), 1 => "[0-9a-fA-F:+Z.-]{1,24}"],
                        prop::collection::vec(0usize..72, 0..6),
                    )
                },
                |(nm, tail, cuts), cx| {
                    let mut text = apply(&base_text(&nm.base), &nm.edits);
                    text.push_str(tail);
                    let mut cuts = cuts.clone();
                    cuts.sort();
                    cx.nontrivial(!cuts.is_empty());
                    check_chunked_text(&text, &cuts, cx)
                },
            );
            s.gen(
                "number-casts",
                s.n(100_000, 3_000_000),
                || {
                    (
                        prop_oneof![any::<f64>(), (1u32..20, 0u32..10).prop_map(|(d, f)| 10f64.powi(d as i32) + f as f64 / 2.0), any::<u64>().prop_map(|v| v as f64 + 0.5)],
                        prop_oneof![any::<i128>(), any::<u64>().prop_map(|v| v as i128), (1u32..39).prop_map(|d| 10i128.pow(d) - 1)],
                    )
                },
                |(f, i), cx| {
                    cx.nontrivial(true);
                    check_number_casts(*f, *i, cx)
                },
            );
            let max_len = if s.quick() { 4 } else { 5 };
            for parser in 0..4u8 {
                s.enumerate(&format!("short-strings-{parser}"), short_strings(parser, max_len), check_short);
            }
            s.gen(
                "random-text",
                s.n(100_000, 5_000_000),
                || {
                    prop_oneof![
                        prop::collection::vec(any::<char>(), 0..40).prop_map(|v| v.into_iter().collect::<String>()),
                        prop::collection::vec(prop::sample::select(ALPHABET.to_vec()), 0..60).prop_map(|v| v.into_iter().collect::<String>()),
                        prop::collection::vec(prop::sample::select(ALPHABET.to_vec()), 19..=30).prop_map(|v| v.into_iter().collect::<String>()),
                        prop::collection::vec(prop::sample::select(ALPHABET.to_vec()), 55..=55).prop_map(|v| v.into_iter().collect::<String>()),
                    ]
                },
                |text, cx| {
                    cx.nontrivial(text.len() >= 16 && !text.is_ascii());
                    check_any_text(text, cx)
                },
            );
        },
    )
}
