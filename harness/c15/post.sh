#!/usr/bin/env bash
# libFuzzer campaign for C15 (target parse_any): quick 1.5 M runs, thorough 60 M runs
exec "$(dirname "$0")/../../tools/fuzz_campaign.sh" C15 parse_any "$1" "$2" 400000 60000000 96
