//! The trace-context runtime of one case, assembled from `emit_traceparent`'s public pieces exactly
//! as `setup_with_sampler(..).and_emit_when(in_sampled_trace_filter(b))` would, but as an explicit
//! value: recorder, `TraceparentFilter<Sampler> AND Option<InSampledTraceFilter>`,
//! `TraceparentCtxt<ThreadLocalCtxt>` (fresh instance) — as itself or behind any of the public wrapper impls of
//! `Ctxt` (`ctxt.rs`), which is why the runtime type is generic in it —, counting clock, non-repeating counter rng.

use std::ops::ControlFlow;
use std::sync::atomic::{AtomicU64, Ordering};
use std::sync::{Arc, Mutex};
use std::time::Duration;

use emit::and::And;
use emit::event::ToEvent;
use emit::platform::thread_local_ctxt::ThreadLocalCtxt;
use emit::runtime::Runtime;
use emit::span::SpanCtxt;
use emit::{Clock, Emitter, Props, Rng, Timestamp};
use emit_traceparent::{in_sampled_trace_filter, InSampledTraceFilter, TraceparentCtxt, TraceparentFilter};

use crate::tree::Case;

pub type Sampler = Box<dyn Fn(&SpanCtxt) -> bool + Send + Sync>;
/// `TraceparentFilter::new()` and `TraceparentFilter::new_with_sampler(s)` are different types; this only
/// dispatches to whichever the case installs.
pub enum TpFilter {
    /// `TraceparentFilter::new()` — what `emit_traceparent::setup()` installs
    Plain(TraceparentFilter),
    /// `TraceparentFilter::new_with_sampler(table)` — what `setup_with_sampler` installs
    Sampling(TraceparentFilter<Sampler>),
}

impl emit::Filter for TpFilter {
    fn matches<E: ToEvent>(&self, evt: E) -> bool {
        match self {
            TpFilter::Plain(f) => f.matches(evt),
            TpFilter::Sampling(f) => f.matches(evt),
        }
    }
}

pub type Rt<C> = Runtime<Recorder, And<TpFilter, Option<InSampledTraceFilter>>, C, CountingClock, CounterRng>;

/// What the interpreter needs of the runtime's ctxt type: frames travel to other threads, the runtime is
/// shared between them. (Not `'static`: `&TraceparentCtxt<..>` is one of the types.)
pub trait RtCtxt: emit::Ctxt<Frame: Send> + Send + Sync {}

impl<C: emit::Ctxt<Frame: Send> + Send + Sync> RtCtxt for C {}

/// The trace-context ctxt itself.
pub type TpCtxt = TraceparentCtxt<ThreadLocalCtxt>;

/// `Traceparent::current()` as plain data.
#[derive(Debug, Clone, Copy, PartialEq, Eq)]
pub struct Tp {
    pub trace: Option<u128>,
    pub span: Option<u64>,
    pub flags: u8,
}

impl Tp {
    pub fn of(tp: &emit_traceparent::Traceparent) -> Tp {
        Tp { trace: tp.trace_id().map(|t| t.to_u128()), span: tp.span_id().map(|s| s.to_u64()), flags: tp.trace_flags().to_u8() }
    }
    pub fn current() -> Tp {
        Tp::of(&emit_traceparent::Traceparent::current())
    }
    pub fn sampled(&self) -> bool {
        self.flags & 1 == 1
    }
    pub fn valid(&self) -> bool {
        self.trace.is_some() && self.span.is_some()
    }
    pub fn text(&self) -> String {
        format!("00-{:032x}-{:016x}-{:02x}", self.trace.unwrap_or(0), self.span.unwrap_or(0), self.flags)
    }
}

/// `SpanCtxt` as plain data.
#[derive(Debug, Clone, Copy, PartialEq, Eq)]
pub struct Sc {
    pub trace: Option<u128>,
    pub parent: Option<u64>,
    pub span: Option<u64>,
}

impl Sc {
    pub fn of(c: &SpanCtxt) -> Sc {
        Sc { trace: c.trace_id().map(|t| t.to_u128()), parent: c.span_parent().map(|s| s.to_u64()), span: c.span_id().map(|s| s.to_u64()) }
    }
}

/// The sequential log of one case (hops are joined before the parent goes on, so there is one order).
#[derive(Debug, Clone)]
pub enum L {
    /// about to start span `node` (same thread, same poll as the start itself)
    Begin(usize),
    /// first statement inside the span's frame
    Body { node: usize, tp: Tp, sc: Sc },
    /// the sampler was called with this argument and answered `answer`
    Sampler { arg: Sc, answer: bool },
    Check { id: usize, tp: Tp, sc: Sc },
    /// the traceparent value handed to `push`
    Pushed { id: usize, tp: Tp },
    /// the header text sent to the next service (None: current traceparent not valid, nothing sent)
    ServiceHeader { id: usize, text: Option<String> },
    /// the traceparent seen before a carried hop and as the first thing on the new thread
    HopEntry { id: usize, before: Tp, inside: Tp },
    /// the hop body was not run because the carried context did not arrive (only with a listed known finding)
    HopSkipped { id: usize },
    /// `Traceparent::current()` on a fresh poll thread right after a migrated poll returned
    PollThreadEnd { tp: Tp },
}

pub type Log = Arc<Mutex<Vec<L>>>;

#[derive(Debug, Clone)]
pub struct Rec {
    pub is_span: bool,
    pub mdl: String,
    pub eid: Option<u64>,
    pub trace_id: Vec<String>,
    pub span_id: Vec<String>,
    pub span_parent: Vec<String>,
}

#[derive(Clone, Default)]
pub struct Recorder(pub Arc<Mutex<Vec<Rec>>>);

impl Emitter for Recorder {
    fn emit<E: ToEvent>(&self, evt: E) {
        let evt = evt.to_event();
        let mut rec = Rec { is_span: false, mdl: evt.mdl().to_string(), eid: None, trace_id: Vec::new(), span_id: Vec::new(), span_parent: Vec::new() };
        let mut kind_seen = false;
        let mut eid_seen = false;
        let _ = evt.props().for_each(|k, v| {
            match k.get() {
                "evt_kind" if !kind_seen => {
                    kind_seen = true;
                    rec.is_span = v.to_string() == "span";
                }
                "eid" if !eid_seen => {
                    eid_seen = true;
                    rec.eid = v.to_string().parse().ok();
                }
                "trace_id" => rec.trace_id.push(v.to_string()),
                "span_id" => rec.span_id.push(v.to_string()),
                "span_parent" => rec.span_parent.push(v.to_string()),
                _ => {}
            }
            ControlFlow::Continue(())
        });
        self.0.lock().unwrap().push(rec);
    }

    fn blocking_flush(&self, _: Duration) -> bool {
        true
    }
}

pub struct CountingClock(AtomicU64);

impl Clock for CountingClock {
    fn now(&self) -> Option<Timestamp> {
        Timestamp::from_unix(Duration::from_secs(1_700_000_000 + self.0.fetch_add(1, Ordering::Relaxed)))
    }
}

/// k-th 64-bit word = splitmix64 finaliser (a bijection) of `seed + k`, skipping the one zero output.
pub struct CounterRng {
    next: AtomicU64,
}

fn mix64(x: u64) -> u64 {
    let mut z = x.wrapping_add(0x9E3779B97F4A7C15);
    z = (z ^ (z >> 30)).wrapping_mul(0xBF58476D1CE4E5B9);
    z = (z ^ (z >> 27)).wrapping_mul(0x94D049BB133111EB);
    z ^ (z >> 31)
}

impl CounterRng {
    fn word(&self) -> u64 {
        loop {
            let v = mix64(self.next.fetch_add(1, Ordering::Relaxed));
            if v != 0 {
                return v;
            }
        }
    }
}

impl Rng for CounterRng {
    fn fill<A: AsMut<[u8]>>(&self, mut arr: A) -> Option<A> {
        for chunk in arr.as_mut().chunks_mut(8) {
            let w = self.word().to_le_bytes();
            chunk.copy_from_slice(&w[..chunk.len()]);
        }
        Some(arr)
    }
}

pub fn build<C: RtCtxt>(case: &Case, ctxt: C) -> (Rt<C>, Recorder, Log) {
    let rec = Recorder::default();
    let log: Log = Arc::new(Mutex::new(Vec::new()));
    let sampler: Sampler = {
        let log = log.clone();
        let table = case.sampler.clone();
        let default = case.sampler_default;
        Box::new(move |c: &SpanCtxt| {
            let mut log = log.lock().unwrap();
            let call = log.iter().filter(|l| matches!(l, L::Sampler { .. })).count();
            let answer = table.get(call).copied().unwrap_or(default);
            log.push(L::Sampler { arg: Sc::of(c), answer });
            answer
        })
    };
    let rt = Runtime::new()
        .with_emitter(rec.clone())
        .with_filter(And::new(
            if case.no_sampler { TpFilter::Plain(TraceparentFilter::new()) } else { TpFilter::Sampling(TraceparentFilter::new_with_sampler(sampler)) },
            case.in_sampled.map(in_sampled_trace_filter),
        ))
        .with_ctxt(ctxt)
        .with_clock(CountingClock(AtomicU64::new(0)))
        .with_rng(CounterRng { next: AtomicU64::new(case.rng) });
    (rt, rec, log)
}
