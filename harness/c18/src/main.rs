use c18::tree::{Carry, Case, CtxtVia, Form, Header, Item, Node, PushVia, RunHow, Via, Wrap};
use vcore::proptest::prelude::*;
use vcore::Level;

const RULE: &str = "a case is a program as data: a span tree (<=20 span nodes, depth <=5; forms: attribute on sync/async fn, new_span! with Frame::call / enter / in_future, guard: parameter completed with complete() or complete_with(custom completion), Result-returning ok_lvl / err_lvl / err: fns sync and async leaving by Ok, return Err or an early ?, and four own-frame hand-off forms where the frame returned by new_span! — for sampled and for unsampled (rejected) spans — is moved to a fresh thread and entered there by call / in_fn / enter, or polled through in_future alternately on fresh threads and the awaiting thread) with emit! events, Traceparent::current()/SpanCtxt::current checks and yields, plus pushed incoming headers (unparsable -> documented fallback, valid sampled/unsampled of another trace, same trace id as the active one, all-zero, half-zero; through Traceparent::push, push(traceparent, tracestate) or header text), next-service hops (format current header, parse and push it on a fresh thread, run child spans there), same-service thread hops (carrying nothing / Frame::current(rt.ctxt()) / Traceparent::current().push() / both; by call or in_future) non-span frames (Frame::current / Frame::push with a plain property) captured at one point — typically at top level before any trace — and entered later somewhere else (inside spans, header frames, other threads) by call / enter guard / in_future / on a fresh thread; planned panics (quiet resume_unwind) that unwind through any of these scopes up to a catch_unwind (explicit Catch item, in async code around every poll; or the top of the hop / service / hand-off thread) after which the same thread is used on; and joins of async tasks with a generated poll schedule (optionally each task wrapped in Frame::current(rt.ctxt()).in_future, and then optionally with polls migrating to fresh threads); the sampler is a generated decision table indexed by call number that records its argument, or no sampler at all is installed (TraceparentFilter::new(), the plain setup(): every locally started trace is sampled and unsampled traces only arrive through incoming headers); the filter is TraceparentFilter optionally AND in_sampled_trace_filter(b); HOW the TraceparentCtxt reaches Runtime<.., C, ..> is generated too: as itself, as &T, Box<T>, Arc<T>, Option<T> (Some), AssertInternal<T>, or erased as Box<dyn ErasedCtxt + Send + Sync> / Arc<dyn ..> / Option<&dyn ..> (the ambient runtime's ctxt type) around a nest of 0-3 further carriers (Box, Arc, Option, AssertInternal, Arc<dyn>; each level erased again), optionally with the ctxt inside TraceparentCtxt erased and wrapped the same way — every public carrier impl of Ctxt in emit_core; non-span frames may also be Frame::root(ctxt, plain property). Run on a private runtime on a fresh thread and judged against a model of the active traceparent. Non-trivial = at least two root spans whose sampler decisions differ, or a pushed incoming header, or a (thread or service) hop.";

const ASSUMPTIONS: [&str; 10] = [
    "the statement is about the trace-context runtime whatever Rust type carries the TraceparentCtxt into it: every carrier emit_core implements Ctxt for (&C, Box<C>, Arc<C>, Option<C>, dyn ErasedCtxt, AssertInternal<C>) is judged by the unchanged oracle; when a program fails behind a carrier but passes on the concrete ctxt, the failure is reported as ctxt-carrier-not-transparent/<carrier> for every carrier in the stack that demonstrably (a recording ctxt behind it) does not hand on each Ctxt method as the same method — that probe only NAMES the failure, it never creates one",
    "a frame made with Frame::root(ctxt, plain property) inside a trace, or entered inside one, is not covered by the statement: nothing inside it is judged (don't-care), what is visible after it is left is; made and entered with no trace around, nothing is active inside it",
    "ids of sampled spans are read from their own span events; the order of sampler calls is read from the log positions of span starts (never predicted); ids inside unsampled traces are learned from the first observation inside the span and must then stay stable and be restored",
    "a root span is one that starts while no VALID traceparent (trace id and span id both present) is active; an all-zero pushed header counts as none (W3C; crate test traceparent_ctxt_ignores_invalid_parent)",
    "with in_sampled_trace_filter(b) the start of a NEW trace is itself an event outside any trace, so the conjunction answers b for it (rustdoc of in_sampled_trace_filter): the sampler is still consulted exactly once (it is the left operand) and the trace is sampled iff decision AND b",
    "left open and counted as don't-care: what the sampled-trace filter answers while an INVALID header is active (events and new roots there; the effective decision of such a root is read from the first observation inside it), which ids an event shows inside an unsampled trace without the sampled-trace filter, whether a half-zero header's single id is reused by the root span below it",
    "without the sampled-trace filter, events inside unsampled traces are still emitted (rustdoc of setup_with_sampler)",
    "inside an unsampled span the current traceparent must be valid (so the decision can travel to the next service, book: `must propagate that decision`) and keep the trace id of the enclosing unsampled trace",
    "spans disabled for reasons other than sampling are not generated (DESIGN Limits); the sampler argument of a root is required to be that root's (trace id, no parent, span id)",
    "SpanCtxt::current().span_parent under a pushed header follows `push keeps the parent only within the same trace`",
];

fn form() -> impl Strategy<Value = Form> {
    prop_oneof![
        3 => Just(Form::SyncFn),
        1 => Just(Form::ManualCall),
        1 => Just(Form::ManualEnter),
        1 => Just(Form::GuardSync),
        3 => Just(Form::AsyncFn),
        1 => Just(Form::ManualFuture),
        1 => Just(Form::GuardAsync),
        1 => Just(Form::ResultOkLvlSync),
        1 => Just(Form::ResultErrLvlSync),
        1 => Just(Form::ResultErrSync),
        1 => Just(Form::ResultOkLvlAsync),
        1 => Just(Form::ResultErrLvlAsync),
        1 => Just(Form::ResultErrAsync),
        1 => Just(Form::GuardCompleteWithSync),
        1 => Just(Form::GuardCompleteWithAsync),
        1 => Just(Form::ManualCompleteWith),
        1 => Just(Form::HandoffCall),
        1 => Just(Form::HandoffInFn),
        1 => Just(Form::HandoffEnterBack),
        2 => Just(Form::HandoffFuture),
    ]
}

fn leaf() -> impl Strategy<Value = Item> {
    prop_oneof![3 => Just(Item::Event), 3 => Just(Item::Check), 2 => Just(Item::Yield), 1 => Just(Item::Panic)]
}

fn flags() -> impl Strategy<Value = u8> {
    prop_oneof![5 => Just(0u8), 5 => Just(1u8), 1 => Just(2u8), 1 => Just(3u8), 1 => Just(0xfeu8), 1 => Just(0xffu8)]
}

fn ids() -> impl Strategy<Value = ((u64, u64), u64)> {
    let trace = prop_oneof![4 => (any::<u64>(), any::<u64>()), 1 => (Just(0u64), 1u64..4), 1 => Just((u64::MAX, u64::MAX))];
    let span = prop_oneof![4 => any::<u64>(), 1 => 1u64..4, 1 => Just(u64::MAX)];
    (trace, span)
}

fn header() -> impl Strategy<Value = Header> {
    prop_oneof![
        1 => Just(Header::Unparsable),
        6 => (ids(), flags()).prop_map(|((trace, span), flags)| Header::Valid { trace, span, flags }),
        2 => (ids(), flags()).prop_map(|((trace, span), flags)| Header::SameTrace { trace, span, flags }),
        2 => flags().prop_map(|flags| Header::Zero { flags }),
        1 => (ids(), any::<bool>(), flags()).prop_map(|((trace, span), keep_trace, flags)| Header::Half { trace: keep_trace.then_some(trace), span, flags }),
    ]
}

fn body(depth_left: u32) -> BoxedStrategy<Vec<Item>> {
    if depth_left == 0 {
        return prop::collection::vec(leaf(), 0..3).boxed();
    }
    let inner = body(depth_left - 1);
    let item = prop_oneof![
        6 => leaf(),
        9 => (form(), inner.clone()).prop_map(|(form, items)| Item::Span(Node { form, items })),
        3 => (header(), prop_oneof![Just(PushVia::Method), Just(PushVia::Function), Just(PushVia::Text)], inner.clone()).prop_map(|(header, via, items)| Item::Push { header, via, items }),
        3 => inner.clone().prop_map(|items| Item::Catch { items }),
        1 => (any::<bool>(), prop::bool::weighted(0.25)).prop_map(|(props, root)| Item::CaptureFrame { props, root }),
        4 => (prop_oneof![3 => Just(RunHow::Call), 3 => Just(RunHow::EnterGuard), 3 => Just(RunHow::InFuture), 1 => Just(RunHow::OtherThread)], inner.clone()).prop_map(|(how, items)| Item::RunFrame { how, items }),
        1 => inner.clone().prop_map(|items| Item::Service { items }),
        1 => (prop_oneof![1 => Just(Carry::Nothing), 2 => Just(Carry::FrameCurrent), 2 => Just(Carry::TraceparentPush), 1 => Just(Carry::Both)], any::<bool>(), inner.clone())
            .prop_map(|(carry, fut, items)| Item::Hop { carry, fut, items }),
        2 => (prop::bool::weighted(0.6), prop::bool::weighted(0.5), prop::collection::vec(inner, 1..4), prop::collection::vec(0u8..16, 0..10))
            .prop_map(|(carry, migrate, tasks, schedule)| Item::Join { carry, migrate, tasks, schedule }),
    ];
    prop::collection::vec(item, 0..4).boxed()
}

/// Constructive bound on the number of span nodes and their nesting.
/// … and on planned panics: one that nothing would catch (`caught` false: no `Catch` around it within the
/// same join task, and not inside a hop / service / hand-off body, whose thread catches it) becomes an event.
fn limit(items: &mut Vec<Item>, budget: &mut usize, depth: usize, caught: bool) {
    for it in items.iter_mut() {
        match it {
            Item::Span(n) => {
                if *budget == 0 || depth >= 5 {
                    *it = Item::Event;
                } else {
                    *budget -= 1;
                    limit(&mut n.items, budget, depth + 1, caught || n.form.is_handoff());
                }
            }
            Item::Panic if !caught => *it = Item::Event,
            Item::Catch { items } => limit(items, budget, depth, true),
            Item::RunFrame { how, items } => limit(items, budget, depth, caught || *how == RunHow::OtherThread),
            Item::Push { items, .. } => limit(items, budget, depth, caught),
            Item::Service { items } | Item::Hop { items, .. } => limit(items, budget, depth, true),
            Item::Join { tasks, .. } => {
                for t in tasks {
                    limit(t, budget, depth, false)
                }
            }
            _ => {}
        }
    }
}

/// A thread that has caught a panic and is used on: `Catch{ scope{ .., Panic } }` in front of the rest of
/// the program, where the scope is a span (any form) or an incoming header frame, possibly nested.
fn panic_prologue() -> impl Strategy<Value = Option<Item>> {
    // a span of any form whose body ends in a planned panic
    fn dying_span() -> BoxedStrategy<Item> {
        (form(), prop::collection::vec(leaf(), 0..2))
            .prop_map(|(form, mut items)| {
                items.push(Item::Panic);
                Item::Span(Node { form, items })
            })
            .boxed()
    }
    let via = || prop_oneof![Just(PushVia::Method), Just(PushVia::Function), Just(PushVia::Text)];
    let scope = prop_oneof![
        3 => dying_span(),
        2 => (header(), via(), prop::collection::vec(leaf(), 0..2)).prop_map(|(header, via, mut items)| {
            items.push(Item::Panic);
            Item::Push { header, via, items }
        }),
        2 => (header(), via(), dying_span()).prop_map(|(header, via, span)| Item::Push { header, via, items: vec![span] }),
        2 => (form(), dying_span()).prop_map(|(form, span)| Item::Span(Node { form, items: vec![Item::Check, span] })),
    ];
    prop_oneof![2 => Just(None), 1 => scope.prop_map(|s| Some(Item::Catch { items: vec![s] }))]
}

fn wraps(max: usize) -> impl Strategy<Value = Vec<Wrap>> {
    prop::collection::vec(
        prop_oneof![1 => Just(Wrap::Boxed), 3 => Just(Wrap::Shared), 3 => Just(Wrap::Optional), 1 => Just(Wrap::AssertInternal), 1 => Just(Wrap::SharedDyn)],
        0..=max,
    )
}

/// How the trace-context ctxt reaches the runtime: as itself, behind one of the carriers `emit_core`
/// implements `Ctxt` for, or (erased) behind a nest of them; optionally with the ctxt inside wrapped too.
fn ctxt_via() -> impl Strategy<Value = CtxtVia> {
    let plain = |via: Via| Just(CtxtVia { via, nest: Vec::new(), inner: None });
    prop_oneof![
        3 => plain(Via::Concrete),
        1 => plain(Via::Ref),
        2 => plain(Via::Boxed),
        2 => plain(Via::Shared),
        2 => plain(Via::Optional),
        1 => plain(Via::AssertInternal),
        6 => (
            prop_oneof![3 => Just(Via::BoxDyn), 1 => Just(Via::ArcDyn), 2 => Just(Via::Ambient)],
            wraps(3),
            prop_oneof![3 => Just(None), 1 => wraps(2).prop_map(Some)],
        )
            .prop_map(|(via, nest, inner)| CtxtVia { via, nest, inner }),
    ]
}

fn case() -> impl Strategy<Value = Case> {
    (
        ctxt_via(),
        prop::collection::vec(any::<bool>(), 0..8),
        any::<bool>(),
        // (no sampler installed?, sampled-trace filter): the plain `setup()` configuration is a third of the cases
        prop_oneof![
            3 => Just((false, None)),
            2 => Just((false, Some(true))),
            1 => Just((false, Some(false))),
            3 => Just((true, None)),
            1 => prop_oneof![Just((true, Some(true))), Just((true, Some(false)))],
        ],
        any::<u64>(),
        (prop::collection::vec((any::<bool>(), prop::bool::weighted(0.25)), 0..4), panic_prologue(), body(7)).prop_map(|(captures, prologue, mut items)| {
            if let Some(p) = prologue {
                items.insert(0, p);
            }
            // what a dispatcher captures when jobs are submitted: frames made before any trace exists
            for (props, root) in captures {
                items.insert(0, Item::CaptureFrame { props, root });
            }
            items
        }),
    )
        .prop_map(|(ctxt, sampler, sampler_default, (no_sampler, in_sampled), rng, mut items)| {
            let mut budget = 20;
            limit(&mut items, &mut budget, 0, false);
            let (sampler, sampler_default) = if no_sampler { (Vec::new(), true) } else { (sampler, sampler_default) };
            Case { ctxt, no_sampler, sampler, sampler_default, in_sampled, rng, items }
        })
}

fn main() {
    vcore::run("C18", Level::Exploration, RULE, &ASSUMPTIONS, |s| {
        // DESIGN: >= 15 % / 8 % / 8 % of the cases; the minima are ~1 % of the quick tier
        s.require("unsampled-root-with-descendants", 200);
        s.require("incoming-unsampled", 200);
        s.require("invalid-or-mismatched-header", 200);
        s.require("roots-with-differing-decisions", 200);
        s.require("next-service-with-spans", 100);
        s.require("thread-hop-carried", 100);
        s.require("form:result-span-in-unsampled-trace", 200);
        s.require("form:complete_with-in-unsampled-trace", 200);
        s.require("form:result-span-continuing-unsampled-header", 100);
        s.require("foreign-frame:captured-outside-trace/entered-inside-sampled-span", 200);
        s.require("foreign-frame:captured-outside-trace/entered-inside-unsampled-span", 200);
        s.require("foreign-frame:captured-outside-trace/entered-under-incoming-header", 200);
        s.require("foreign-frame:captured-outside-trace/entered-by-call", 100);
        s.require("foreign-frame:captured-outside-trace/entered-by-enter-guard", 100);
        s.require("foreign-frame:captured-outside-trace/entered-by-in-future", 100);
        s.require("exit:panic-sync-call", 200);
        s.require("exit:panic-incoming-frame", 100);
        s.require("exit:panic-async", 100);
        s.require("exit:panic-enter-guard", 50);
        s.require("exit:panic-unsampled-scope", 100);
        s.require("after-panic:new-root-trace", 200);
        s.require("own-frame-handoff-unsampled-nonroot-with-descendants", 100);
        s.require("own-frame-handoff-sampled-with-descendants", 100);
        s.require("no-sampler-unsampled-incoming-with-spans", 100);
        s.require("frame-current-hop-with-spans", 100);
        s.require("async-join-polls-migrate-threads", 100);
        // how the ctxt reaches the runtime: every carrier, and through every carrier the span starts that
        // use `open_disabled` (rejected root), `open_push` (sampled) and a root frame (`open_root`)
        for via in ["Concrete", "Ref", "Boxed", "Shared", "Optional", "AssertInternal", "BoxDyn", "ArcDyn", "Ambient"] {
            s.require(&format!("ctxt-via:{via}"), 100);
            // (behind AssertInternal a rejected root is the listed finding: the case ends there, unclassified)
            if via != "AssertInternal" {
                s.require(&format!("ctxt-via:{via}/rejected-root-span"), 50);
            }
        }
        for k in ["concrete", "ref", "box", "arc", "option", "erased"] {
            s.require(&format!("ctxt-carrier:{k}/rejected-root-span"), 100);
            s.require(&format!("ctxt-carrier:{k}/rejected-root-with-descendants"), 60);
            s.require(&format!("ctxt-carrier:{k}/sampled-root-span"), 100);
            s.require(&format!("ctxt-carrier:{k}/root-frame"), 50);
        }
        s.require("ctxt-carrier:assert-internal/sampled-root-span", 60);
        s.require("ctxt-carrier:assert-internal/root-frame", 15);
        s.require("ctxt-nest:2+", 200);
        s.require("ctxt-inner:wrapped", 100);
        s.require("root-frame:entered", 200);
        s.gen("programs", s.n(20_000, 600_000), case, c18::check_case);
    })
}
