// stub: check for C18 not built yet
fn main() {
    eprintln!("C18: check not built yet");
    std::process::exit(2);
}
