//! The program (span tree + trace-context operations) as data, and its numbering into unique
//! node / event / check / push / hop ids. (Adapted from c04/src/tree.rs; crates do not share code.)

use serde::{Deserialize, Serialize};
use std::sync::OnceLock;

#[derive(Serialize, Deserialize, Debug, Clone, Copy, PartialEq, Eq)]
pub enum Form {
    SyncFn,
    ManualCall,
    ManualEnter,
    GuardSync,
    AsyncFn,
    ManualFuture,
    GuardAsync,
    /// `#[emit::span(rt, ok_lvl: .., ..)] fn -> Result`: the expansion that completes through
    /// `complete_with(macro's Ok / Err completion)`. Exit by node id: `% 3 == 0` Ok, `1` explicit `return Err`, `2` early `?`
    ResultOkLvlSync,
    /// `#[emit::span(rt, err_lvl: .., ..)] fn -> Result`
    ResultErrLvlSync,
    /// `#[emit::span(rt, err: mapper, ..)] fn -> Result`
    ResultErrSync,
    ResultOkLvlAsync,
    ResultErrLvlAsync,
    ResultErrAsync,
    /// `guard:` fn completing by hand with `span.complete_with(emit::span::completion::default(emitter, ctxt))`
    GuardCompleteWithSync,
    /// `guard:` async fn completing with `span.complete_with(completion::from_fn(|span| emit!(rt, evt: span)))`
    GuardCompleteWithAsync,
    /// `new_span!` + `frame.call`, completing with `guard.complete_with(completion::default(..))`
    ManualCompleteWith,
    /// the span's OWN frame (from `new_span!`) is moved to a fresh thread and entered there with
    /// `frame.call(..)`; the guard is started and completed there
    HandoffCall,
    /// `thread::spawn(frame.in_fn(..))` with the span's own frame
    HandoffInFn,
    /// the span's own frame is entered on a fresh thread (`frame.enter()`), the guard is started there,
    /// comes back with the frame and is completed on the parent thread inside `frame.enter()` again
    HandoffEnterBack,
    /// `frame.in_future(async move { .. })` with the span's own frame, whose polls alternate between fresh
    /// threads and the awaiting thread (a task of its own on a work-stealing runtime)
    HandoffFuture,
}

impl Form {
    pub fn is_async(self) -> bool {
        matches!(
            self,
            Form::AsyncFn | Form::ManualFuture | Form::GuardAsync | Form::HandoffFuture | Form::ResultOkLvlAsync | Form::ResultErrLvlAsync | Form::ResultErrAsync | Form::GuardCompleteWithAsync
        )
    }
    /// Result-returning attribute forms (complete through `complete_with` of the macros' own Ok / Err completions)
    pub fn is_result(self) -> bool {
        matches!(
            self,
            Form::ResultOkLvlSync | Form::ResultErrLvlSync | Form::ResultErrSync | Form::ResultOkLvlAsync | Form::ResultErrLvlAsync | Form::ResultErrAsync
        )
    }
    /// completed by hand with `complete_with(custom completion)`
    pub fn is_complete_with(self) -> bool {
        matches!(self, Form::GuardCompleteWithSync | Form::GuardCompleteWithAsync | Form::ManualCompleteWith)
    }
    pub fn is_sync_handoff(self) -> bool {
        matches!(self, Form::HandoffCall | Form::HandoffInFn | Form::HandoffEnterBack)
    }
    pub fn is_handoff(self) -> bool {
        self.is_sync_handoff() || self == Form::HandoffFuture
    }
}

#[derive(Serialize, Deserialize, Debug, Clone)]
pub struct Node {
    pub form: Form,
    pub items: Vec<Item>,
}

/// An incoming `traceparent` header. Ids are (high, low) u64 pairs because serde_json has no u128;
/// zero values are mapped to 1.
#[derive(Serialize, Deserialize, Debug, Clone, PartialEq, Eq)]
pub enum Header {
    /// text that does not parse: as the crate docs show, `Traceparent::current()` is pushed instead
    Unparsable,
    /// a well-formed header of some other trace
    Valid { trace: (u64, u64), span: u64, flags: u8 },
    /// a well-formed header carrying the trace id that is active right now (or `trace` if none is) and a new span id
    SameTrace { trace: (u64, u64), span: u64, flags: u8 },
    /// `00-000…0-000…0-ff`: parses, but names no trace
    Zero { flags: u8 },
    /// only one of the two ids is non-zero
    Half { trace: Option<(u64, u64)>, span: u64, flags: u8 },
}

pub fn u128_of(p: (u64, u64)) -> u128 {
    (((p.0 as u128) << 64) | p.1 as u128).max(1)
}

#[derive(Serialize, Deserialize, Debug, Clone, Copy, PartialEq, Eq)]
pub enum PushVia {
    /// `Traceparent::push(&self)`
    Method,
    /// `emit_traceparent::push(traceparent, tracestate)`
    Function,
    /// format the header text, `Traceparent::try_from_str`, then `push()`
    Text,
}

#[derive(Serialize, Deserialize, Debug, Clone, Copy, PartialEq, Eq)]
pub enum Carry {
    /// nothing is carried: the fresh thread starts outside every trace
    Nothing,
    /// `Frame::current(rt.ctxt())` — what the book prescribes for moving span context to another thread
    FrameCurrent,
    /// `Traceparent::current().push()` — what the crate's own cross-thread test carries
    TraceparentPush,
    /// both frames (traceparent outside, ctxt inside)
    Both,
}

#[derive(Serialize, Deserialize, Debug, Clone, Copy, PartialEq, Eq)]
pub enum RunHow {
    /// `frame.call(..)`
    Call,
    /// `let _g = frame.enter(); ..`
    EnterGuard,
    /// `frame.in_future(async { .. })`, awaited (block_on in sync code)
    InFuture,
    /// moved to a fresh thread and `frame.call(..)`ed there (without a frame: the items still run on a fresh thread)
    OtherThread,
}

#[derive(Serialize, Deserialize, Debug, Clone)]
pub enum Item {
    Span(Node),
    Event,
    /// `Traceparent::current()` and `SpanCtxt::current(rt.ctxt())`
    Check,
    Yield,
    /// panic right here (a quiet, planned unwind); it travels up through every enclosing scope to the
    /// nearest `Catch` (or to the top of the hop / service / hand-off thread it happens on, which
    /// catches it too and goes on)
    Panic,
    /// `catch_unwind` around `items` (in async code: around every poll of them); the thread is used on
    /// afterwards and `Traceparent::current()` must be what it was before
    Catch { items: Vec<Item> },
    /// make a NON-span frame here and keep it for later: `Frame::current(rt.ctxt())`, or with `props`
    /// `Frame::push(rt.ctxt(), props!{ job })` (a plain property) — the context a dispatcher captures when a job
    /// is submitted. At top level before any trace the frame carries no traceparent.
    /// `root`: `Frame::root(rt.ctxt(), props!{ job })` instead — a frame for JUST that plain property
    /// (`Ctxt::open_root`); the property text says nothing about what such a frame shows inside a trace
    CaptureFrame {
        props: bool,
        #[serde(default)]
        root: bool,
    },
    /// take the nearest frame captured lexically before this point that nobody has used yet (none: just run
    /// the items) and run `items` inside it — wherever this is: inside spans, header frames, other threads
    RunFrame { how: RunHow, items: Vec<Item> },
    /// push an incoming header around `items`
    Push { header: Header, via: PushVia, items: Vec<Item> },
    /// "next service": format the current traceparent (if valid), parse it on a fresh thread, push it there, run `items`
    Service { items: Vec<Item> },
    /// same service, fresh thread
    Hop { carry: Carry, fut: bool, items: Vec<Item> },
    /// `carry`: every task is wrapped in `Frame::current(rt.ctxt()).in_future(..)` (a spawned task);
    /// `migrate` (only with `carry`): polls whose schedule entry has bit 3 set run on a fresh thread
    Join {
        carry: bool,
        #[serde(default)]
        migrate: bool,
        tasks: Vec<Vec<Item>>,
        schedule: Vec<u8>,
    },
}

/// How the trace-context ctxt reaches the runtime: the type put into `Runtime<.., C, ..>`.
/// `T` = `TraceparentCtxt<ThreadLocalCtxt /*fresh*/>`, `Dyn` = `dyn ErasedCtxt + Send + Sync`.
#[derive(Serialize, Deserialize, Debug, Clone, Copy, PartialEq, Eq, Default)]
pub enum Via {
    /// `T` itself (what `setup().init_runtime()` builds)
    #[default]
    Concrete,
    /// `&T` (a runtime that borrows a ctxt somebody else owns)
    Ref,
    /// `Box<T>`
    Boxed,
    /// `Arc<T>` (e.g. `setup().map_ctxt(|c| Arc::new(TraceparentCtxt::new(c)))`, to keep a handle on the ctxt)
    Shared,
    /// `Option<T>`, `Some`
    Optional,
    /// `emit::runtime::AssertInternal<T>` (the only way a trace-context ctxt gets into the internal runtime)
    AssertInternal,
    /// `Box<Dyn>` holding the generated nest
    BoxDyn,
    /// `Arc<Dyn>` holding the generated nest
    ArcDyn,
    /// `Option<&Dyn>`, `Some` — the ctxt type of `AmbientSlot::get()` (what the macros see without `rt:`)
    Ambient,
}

impl Via {
    pub fn is_erased(self) -> bool {
        matches!(self, Via::BoxDyn | Via::ArcDyn | Via::Ambient)
    }
}

/// One level of a nest built at run time: the wrapper is put around the `Box<Dyn>` built so far and the
/// result is erased into a `Box<Dyn>` again.
#[derive(Serialize, Deserialize, Debug, Clone, Copy, PartialEq, Eq)]
pub enum Wrap {
    /// `Box<Box<Dyn>>`
    Boxed,
    /// `Arc<Box<Dyn>>`
    Shared,
    /// `Option<Box<Dyn>>`, `Some`
    Optional,
    /// `AssertInternal<Box<Dyn>>`
    AssertInternal,
    /// `Arc<Dyn>` (made from the box)
    SharedDyn,
}

#[derive(Serialize, Deserialize, Debug, Clone, PartialEq, Eq, Default)]
pub struct CtxtVia {
    pub via: Via,
    /// erased vias only: wrappers between the erasure and the `TraceparentCtxt`, outermost first
    #[serde(default)]
    pub nest: Vec<Wrap>,
    /// erased vias only: `Some(ws)` = the ctxt INSIDE is not `ThreadLocalCtxt` itself but a `Box<Dyn>` holding
    /// `ws` (outermost first) around it: `TraceparentCtxt<Box<Dyn>>`
    #[serde(default)]
    pub inner: Option<Vec<Wrap>>,
}

impl CtxtVia {
    /// The wrapper impls of `Ctxt` a call passes through before it reaches `TraceparentCtxt`, outermost first,
    /// without repetitions (`erased` = `impl Ctxt for dyn ErasedCtxt (+ Send + Sync)`).
    pub fn kinds(&self) -> Vec<&'static str> {
        let mut out: Vec<&'static str> = Vec::new();
        let mut add = |k: &'static str| {
            if !out.contains(&k) {
                out.push(k)
            }
        };
        match self.via {
            Via::Concrete => {}
            Via::Ref => add("ref"),
            Via::Boxed => add("box"),
            Via::Shared => add("arc"),
            Via::Optional => add("option"),
            Via::AssertInternal => add("assert-internal"),
            Via::BoxDyn => {
                add("box");
                add("erased")
            }
            Via::ArcDyn => {
                add("arc");
                add("erased")
            }
            Via::Ambient => {
                add("option");
                add("ref");
                add("erased")
            }
        }
        if self.via.is_erased() {
            for w in &self.nest {
                match w {
                    Wrap::Boxed => add("box"),
                    Wrap::Shared => add("arc"),
                    Wrap::Optional => add("option"),
                    Wrap::AssertInternal => add("assert-internal"),
                    Wrap::SharedDyn => add("arc"),
                }
                // every level is a `Box<Dyn>` again
                add("box");
                add("erased");
            }
        }
        out
    }

    pub fn is_plain(&self) -> bool {
        self.via == Via::Concrete
    }
}

#[derive(Serialize, Deserialize, Debug, Clone)]
pub struct Case {
    /// how the ctxt reaches the runtime (absent in old replay files: the concrete value)
    #[serde(default)]
    pub ctxt: CtxtVia,
    /// true: no sampler is installed at all (`TraceparentFilter::new()`, what `emit_traceparent::setup()`
    /// builds): every locally started trace is sampled, `sampler` / `sampler_default` are unused and the
    /// sampler log must stay empty; unsampled traces then only arrive through incoming headers
    #[serde(default)]
    pub no_sampler: bool,
    /// sampler decision by call number; later calls get `sampler_default`
    pub sampler: Vec<bool>,
    pub sampler_default: bool,
    /// `Some(b)`: the filter is `TraceparentFilter AND in_sampled_trace_filter(b)`
    pub in_sampled: Option<bool>,
    pub rng: u64,
    pub items: Vec<Item>,
}

impl Case {
    pub fn decision(&self, call: usize) -> bool {
        if self.no_sampler {
            return true;
        }
        self.sampler.get(call).copied().unwrap_or(self.sampler_default)
    }
}

// ---------------------------------------------------------------------------------------------
// numbered program

#[derive(Debug)]
pub struct PNode {
    pub id: usize,
    pub form: Form,
    pub mdl: &'static str,
    pub items: Vec<PItem>,
    /// synchronous hand-off forms: check on the far thread right after the span's frame was left there
    pub far_end: Option<usize>,
    pub post: usize,
}

#[derive(Debug)]
pub enum PItem {
    Span(PNode),
    Event { id: usize },
    Check { id: usize },
    Yield,
    Panic,
    Catch { items: Vec<PItem>, post: usize },
    CaptureFrame { slot: usize, props: bool, root: bool },
    /// `frame`: the capture slot this run takes (resolved lexically by the numberer, each capture is used once)
    RunFrame { frame: Option<usize>, how: RunHow, in_async: bool, items: Vec<PItem>, pre: usize, end: Option<usize>, post: usize },
    /// `in_async`: entered with `Frame::in_future` (async code) instead of `Frame::call`
    Push { id: usize, header: Header, via: PushVia, in_async: bool, items: Vec<PItem>, pre: usize, post: usize },
    Service { id: usize, items: Vec<PItem>, pre: usize, end: usize, post: usize },
    Hop { id: usize, carry: Carry, fut: bool, items: Vec<PItem>, pre: usize, end: usize, post: usize },
    Join { carry: bool, migrate: bool, tasks: Vec<Vec<PItem>>, schedule: Vec<u8>, post: usize },
}

#[derive(Debug)]
pub struct Prog {
    pub items: Vec<PItem>,
    pub nodes: usize,
    pub events: usize,
    pub checks: usize,
    pub pushes: usize,
    pub hops: usize,
    pub frames: usize,
    pub final_check: usize,
}

pub const MAX_NODES: usize = 256;

pub fn mdl_name(id: usize) -> &'static str {
    static TABLE: OnceLock<Vec<&'static str>> = OnceLock::new();
    let t = TABLE.get_or_init(|| (0..MAX_NODES).map(|i| &*Box::leak(format!("node::n{i:03}").into_boxed_str())).collect());
    assert!(id < MAX_NODES, "more than {MAX_NODES} span nodes in one case");
    t[id]
}

pub fn node_of_mdl(mdl: &str) -> Option<usize> {
    mdl.strip_prefix("node::n")?.parse().ok()
}

#[derive(Default)]
struct Numberer {
    nodes: usize,
    events: usize,
    checks: usize,
    pushes: usize,
    hops: usize,
    frames: usize,
    /// capture slots lexically visible from the point being numbered, innermost last …
    visible: Vec<usize>,
    /// … and those some `RunFrame` has already claimed
    used: Vec<bool>,
}

impl Numberer {
    fn check(&mut self) -> usize {
        self.checks += 1;
        self.checks - 1
    }

    fn items(&mut self, items: &[Item], in_async: bool) -> Vec<PItem> {
        // captures made inside this list stop being visible when it ends (a later point cannot be sure they ran)
        let visible = self.visible.len();
        let out = items.iter().map(|it| self.item(it, in_async)).collect();
        self.visible.truncate(visible);
        out
    }

    fn item(&mut self, it: &Item, in_async: bool) -> PItem {
        match it {
            Item::Panic => PItem::Panic,
            Item::CaptureFrame { props, root } => {
                let slot = self.frames;
                self.frames += 1;
                self.used.push(false);
                self.visible.push(slot);
                PItem::CaptureFrame { slot, props: *props, root: *root }
            }
            Item::RunFrame { how, items } => {
                let frame = self.visible.iter().rev().copied().find(|s| !self.used[*s]);
                if let Some(f) = frame {
                    self.used[f] = true;
                }
                let pre = self.check();
                let body_async = match how {
                    RunHow::InFuture => true,
                    RunHow::OtherThread => false,
                    _ => false,
                };
                let items = self.items(items, if frame.is_some() || *how == RunHow::OtherThread { body_async } else { in_async });
                let end = if *how == RunHow::OtherThread { Some(self.check()) } else { None };
                let post = self.check();
                PItem::RunFrame { frame, how: *how, in_async, items, pre, end, post }
            }
            Item::Catch { items } => {
                let items = self.items(items, in_async);
                let post = self.check();
                PItem::Catch { items, post }
            }
            Item::Event => {
                self.events += 1;
                PItem::Event { id: self.events - 1 }
            }
            Item::Check => PItem::Check { id: self.check() },
            Item::Yield => PItem::Yield,
            Item::Span(n) => {
                let id = self.nodes;
                self.nodes += 1;
                let items = self.items(&n.items, n.form.is_async());
                let far_end = if n.form.is_sync_handoff() { Some(self.check()) } else { None };
                let post = self.check();
                PItem::Span(PNode { id, form: n.form, mdl: mdl_name(id), items, far_end, post })
            }
            Item::Push { header, via, items } => {
                let id = self.pushes;
                self.pushes += 1;
                let pre = self.check();
                let items = self.items(items, in_async);
                let post = self.check();
                PItem::Push { id, header: header.clone(), via: *via, in_async, items, pre, post }
            }
            Item::Service { items } => {
                let id = self.hops;
                self.hops += 1;
                let pre = self.check();
                let items = self.items(items, false);
                let end = self.check();
                let post = self.check();
                PItem::Service { id, items, pre, end, post }
            }
            Item::Hop { carry, fut, items } => {
                let id = self.hops;
                self.hops += 1;
                let pre = self.check();
                let items = self.items(items, *fut);
                let end = self.check();
                let post = self.check();
                PItem::Hop { id, carry: *carry, fut: *fut, items, pre, end, post }
            }
            Item::Join { carry, migrate, tasks, schedule } => {
                let tasks = tasks.iter().map(|t| self.items(t, true)).collect();
                let post = self.check();
                PItem::Join { carry: *carry, migrate: *carry && *migrate, tasks, schedule: schedule.clone(), post }
            }
        }
    }
}

pub fn number(case: &Case) -> Prog {
    let mut n = Numberer::default();
    let items = n.items(&case.items, false);
    let final_check = n.check();
    Prog { items, nodes: n.nodes, events: n.events, checks: n.checks, pushes: n.pushes, hops: n.hops, frames: n.frames, final_check }
}

/// Does running these items end in an unwind that leaves the list (a `Panic` no `Catch` inside it stops)?
/// Hop / service bodies and hand-off nodes stop it themselves; join tasks never contain an uncaught one
/// (the generator's normaliser sees to that).
pub fn unwinds(items: &[PItem]) -> bool {
    items.iter().any(|it| match it {
        PItem::Panic => true,
        PItem::Span(n) => !n.form.is_handoff() && unwinds(&n.items),
        PItem::Push { items, .. } => unwinds(items),
        PItem::RunFrame { how, items, .. } => *how != RunHow::OtherThread && unwinds(items),
        _ => false,
    })
}
