//! How the trace-context ctxt reaches the runtime — one generated dimension of the case (`tree::CtxtVia`).
//!
//! The property speaks of "the trace-context runtime"; which Rust type carries the `TraceparentCtxt` into
//! `Runtime<.., C, ..>` is the user's choice, and `emit_core` ships a `Ctxt` impl for every usual carrier:
//! `&C`, `Box<C>`, `Arc<C>`, `Option<C>`, `dyn ErasedCtxt (+ Send + Sync)` (core/src/ctxt.rs) and
//! `AssertInternal<C>` (core/src/runtime.rs). Every one of them must leave the statement intact, so the
//! whole program (every `Ctxt` method: `open_push` for sampled spans and carried frames, `open_disabled` for
//! rejected spans, `open_root` for root frames, `enter` / `exit` / `close`, `with_current`) runs through the
//! generated carrier.
//!
//! The interpreter is instantiated once per STATIC carrier type (nine). Nestings are built at run time:
//! each level wraps the `Box<Dyn>` built so far and is erased into a `Box<Dyn>` again, so arbitrary
//! depth costs no further instantiation (`Via::BoxDyn` / `ArcDyn` / `Ambient` hold such a nest).

use std::sync::{Arc, Mutex};

use emit::platform::thread_local_ctxt::ThreadLocalCtxt;
use emit::runtime::AssertInternal;
use emit::{Ctxt, Empty, Props};
use emit_core::ctxt::ErasedCtxt;
use emit_traceparent::TraceparentCtxt;

use crate::rt::RtCtxt;
use crate::tree::{CtxtVia, Via, Wrap};

pub type Dyn = dyn ErasedCtxt + Send + Sync;

/// A generic closure: what to do with the ctxt once it has its type.
pub trait Run {
    type Out;
    fn run<C: RtCtxt>(self, ctxt: C) -> Self::Out;
}

fn wrap(x: Box<Dyn>, w: Wrap) -> Box<Dyn> {
    match w {
        Wrap::Boxed => Box::new(Box::new(x)),
        Wrap::Shared => Box::new(Arc::new(x)),
        Wrap::Optional => Box::new(Some(x)),
        Wrap::AssertInternal => Box::new(AssertInternal(x)),
        Wrap::SharedDyn => {
            let shared: Arc<Dyn> = Arc::from(x);
            Box::new(shared)
        }
    }
}

/// `ws` is outermost first.
fn nest(base: Box<Dyn>, ws: &[Wrap]) -> Box<Dyn> {
    ws.iter().rev().fold(base, |x, w| wrap(x, *w))
}

fn erased(v: &CtxtVia) -> Box<Dyn> {
    let base: Box<Dyn> = match &v.inner {
        None => Box::new(TraceparentCtxt::new(ThreadLocalCtxt::new())),
        Some(ws) => Box::new(TraceparentCtxt::new(nest(Box::new(ThreadLocalCtxt::new()), ws))),
    };
    nest(base, &v.nest)
}

pub fn with_ctxt<R: Run>(v: &CtxtVia, r: R) -> R::Out {
    let t = || TraceparentCtxt::new(ThreadLocalCtxt::new());
    match v.via {
        Via::Concrete => r.run(t()),
        Via::Ref => {
            let owner = t();
            r.run(&owner)
        }
        Via::Boxed => r.run(Box::new(t())),
        Via::Shared => r.run(Arc::new(t())),
        Via::Optional => r.run(Some(t())),
        Via::AssertInternal => r.run(AssertInternal(t())),
        Via::BoxDyn => r.run(erased(v)),
        Via::ArcDyn => {
            let shared: Arc<Dyn> = Arc::from(erased(v));
            r.run(shared)
        }
        Via::Ambient => {
            let owner = erased(v);
            r.run(Some(&*owner))
        }
    }
}

// ---------------------------------------------------------------------------------------------
// attribution: which carrier is not transparent?
//
// Used ONLY to name a failure that appears behind a carrier while the same program passes on the concrete
// ctxt: every carrier kind in the stack is handed a ctxt that records which of its methods are called.

#[derive(Clone, Default)]
struct Probe(Arc<Mutex<Vec<&'static str>>>);

impl Probe {
    fn log(&self, m: &'static str) {
        self.0.lock().unwrap().push(m)
    }
}

impl Ctxt for Probe {
    type Current = Empty;
    type Frame = ();

    fn open_root<P: Props>(&self, _: P) {
        self.log("open_root")
    }
    fn open_push<P: Props>(&self, _: P) {
        self.log("open_push")
    }
    fn open_disabled<P: Props>(&self, _: P) {
        self.log("open_disabled")
    }
    fn enter(&self, _: &mut ()) {
        self.log("enter")
    }
    fn with_current<R, F: FnOnce(&Empty) -> R>(&self, with: F) -> R {
        self.log("with_current");
        with(&Empty)
    }
    fn exit(&self, _: &mut ()) {
        self.log("exit")
    }
    fn close(&self, _: ()) {
        self.log("close")
    }
}

/// Calls every `Ctxt` method on `w` (a carrier around `probe`); returns "method arrives as [..]" for each
/// one that does not arrive at the carried ctxt as exactly one call of the same method.
fn misrouted<W: Ctxt + ?Sized>(w: &W, probe: &Probe) -> Vec<String> {
    let mut out = Vec::new();
    let took = |m: &'static str, out: &mut Vec<String>| {
        let got = std::mem::take(&mut *probe.0.lock().unwrap());
        if got != [m] {
            out.push(format!("{m} arrives as {got:?}"));
        }
    };
    let mut frame = w.open_root(Empty);
    took("open_root", &mut out);
    let pushed = w.open_push(Empty);
    took("open_push", &mut out);
    let disabled = w.open_disabled(Empty);
    took("open_disabled", &mut out);
    w.enter(&mut frame);
    took("enter", &mut out);
    w.with_current(|_| ());
    took("with_current", &mut out);
    w.exit(&mut frame);
    took("exit", &mut out);
    w.close(frame);
    took("close", &mut out);
    w.close(pushed);
    w.close(disabled);
    probe.0.lock().unwrap().clear();
    out
}

/// The `Ctxt` methods the carrier `kind` (a name from `CtxtVia::kinds`) does not hand on unchanged.
pub fn carrier_misroutes(kind: &str) -> Vec<String> {
    let probe = Probe::default();
    let p = probe.clone();
    match kind {
        "ref" => misrouted(&&p, &probe),
        "box" => misrouted(&Box::new(p), &probe),
        "arc" => misrouted(&Arc::new(p), &probe),
        "option" => misrouted(&Some(p), &probe),
        "assert-internal" => misrouted(&AssertInternal(p), &probe),
        "erased" => {
            let mut out = misrouted::<Dyn>(&p, &probe);
            out.extend(misrouted::<dyn ErasedCtxt>(&p, &probe));
            out
        }
        _ => Vec::new(),
    }
}
