//! The span-tree interpreter (adapted from c04/src/interp.rs) on the trace-context runtime, extended
//! with pushed headers, next-service hops and `Traceparent::current()` observations.

use emit::span::{SpanCtxt, SpanId, TraceId};
use emit::Frame;
use emit_traceparent::{TraceFlags, Traceparent, Tracestate};

use crate::exec::{alternating, block_on, catch_fut, catch_planned, join, planned_panic, yield_now, BoxFut};
use crate::rt::{Log, Rt, RtCtxt, Sc, Tp, L};
use crate::tree::{u128_of, Carry, Form, Header, PItem, PNode, PushVia, RunHow};

pub struct Env<'a, 'c, C: RtCtxt> {
    /// (`'c`: the borrow of the runtime, which captured frames keep; `'a`: everything else)
    pub rt: &'c Rt<C>,
    pub log: &'a Log,
    /// inert since the `Frame::current` finding was fixed in /repo (158005a): only true if that signature is
    /// ever listed as a known finding again, in which case the body of a hop whose carried context did
    /// not arrive is pruned after the observation was recorded. Normally every hop is run and judged fully.
    pub skip_broken_hops: bool,
    /// first panic caught on a helper thread
    pub fail: &'a std::sync::Mutex<Option<vcore::Fail>>,
    /// frames captured by `CaptureFrame` items, by slot, until a `RunFrame` takes them
    pub frames: &'a [std::sync::Mutex<Option<CapturedFrame<'c, C>>>],
}

/// (a frame on the runtime's ctxt by reference, as `Frame::current(rt.ctxt())` gives)
pub type CapturedFrame<'a, C> = Frame<&'a C>;

impl<'a, 'c, C: RtCtxt> Env<'a, 'c, C> {
    fn push(&self, l: L) {
        self.log.lock().unwrap().push(l);
    }
    fn sc(&self) -> Sc {
        Sc::of(&SpanCtxt::current(self.rt.ctxt()))
    }
}

fn check<C: RtCtxt>(env: &Env<C>, id: usize) {
    env.push(L::Check { id, tp: Tp::current(), sc: env.sc() });
}

fn body_start<C: RtCtxt>(env: &Env<C>, node: &PNode) {
    env.push(L::Body { node: node.id, tp: Tp::current(), sc: env.sc() });
}

fn event<C: RtCtxt>(env: &Env<C>, id: usize) {
    emit::emit!(rt: env.rt, "event {eid}", eid: id as u64);
}

// ---------------------------------------------------------------------------------------------
// span call sites, sync

#[emit::span(rt: env.rt, mdl: emit::Path::new_raw(node.mdl), "sync_fn")]
fn span_sync_fn<C: RtCtxt>(env: &Env<C>, node: &PNode) {
    body_start(env, node);
    run_sync(env, &node.items);
}

fn span_manual_call<C: RtCtxt>(env: &Env<C>, node: &PNode) {
    let (mut guard, frame) = emit::new_span!(rt: env.rt, mdl: emit::Path::new_raw(node.mdl), "manual_call");
    frame.call(move || {
        guard.start();
        body_start(env, node);
        run_sync(env, &node.items);
        guard.complete();
    })
}

fn span_manual_enter<C: RtCtxt>(env: &Env<C>, node: &PNode) {
    let (guard, mut frame) = emit::new_span!(rt: env.rt, mdl: emit::Path::new_raw(node.mdl), "manual_enter");
    {
        let _entered = frame.enter();
        // declared after the enter guard: an unwind drops (= completes) it while the frame is still entered
        let mut guard = guard;
        guard.start();
        body_start(env, node);
        run_sync(env, &node.items);
        drop(guard);
    }
    drop(frame);
}

#[emit::span(rt: env.rt, guard: span, mdl: emit::Path::new_raw(node.mdl), "guard_sync")]
fn span_guard_sync<C: RtCtxt>(env: &Env<C>, node: &PNode) {
    body_start(env, node);
    run_sync(env, &node.items);
    span.complete();
}

// Result-returning forms: exit chosen by the node id
fn planned_err() -> std::io::Error {
    std::io::Error::new(std::io::ErrorKind::Other, "planned error")
}

fn fails() -> Result<(), std::io::Error> {
    Err(planned_err())
}

fn as_dyn_err(e: &std::io::Error) -> &(dyn std::error::Error + 'static) {
    e
}

#[emit::span(rt: env.rt, ok_lvl: emit::Level::Debug, mdl: emit::Path::new_raw(node.mdl), "result_ok_lvl_sync")]
fn span_result_ok_lvl_sync<C: RtCtxt>(env: &Env<C>, node: &PNode) -> Result<(), std::io::Error> {
    body_start(env, node);
    run_sync(env, &node.items);
    match node.id % 3 {
        0 => Ok(()),
        1 => return Err(planned_err()),
        _ => {
            fails()?;
            Ok(())
        }
    }
}

#[emit::span(rt: env.rt, err_lvl: emit::Level::Warn, mdl: emit::Path::new_raw(node.mdl), "result_err_lvl_sync")]
fn span_result_err_lvl_sync<C: RtCtxt>(env: &Env<C>, node: &PNode) -> Result<(), std::io::Error> {
    body_start(env, node);
    run_sync(env, &node.items);
    match node.id % 3 {
        0 => Ok(()),
        1 => return Err(planned_err()),
        _ => {
            fails()?;
            Ok(())
        }
    }
}

#[emit::span(rt: env.rt, err: as_dyn_err, mdl: emit::Path::new_raw(node.mdl), "result_err_sync")]
fn span_result_err_sync<C: RtCtxt>(env: &Env<C>, node: &PNode) -> Result<(), std::io::Error> {
    body_start(env, node);
    run_sync(env, &node.items);
    match node.id % 3 {
        0 => Ok(()),
        1 => return Err(planned_err()),
        _ => {
            fails()?;
            Ok(())
        }
    }
}

#[emit::span(rt: env.rt, guard: span, mdl: emit::Path::new_raw(node.mdl), "guard_complete_with_sync")]
fn span_guard_complete_with_sync<C: RtCtxt>(env: &Env<C>, node: &PNode) {
    body_start(env, node);
    run_sync(env, &node.items);
    span.complete_with(emit::span::completion::default(env.rt.emitter(), env.rt.ctxt()));
}

fn span_manual_complete_with<C: RtCtxt>(env: &Env<C>, node: &PNode) {
    let (mut guard, frame) = emit::new_span!(rt: env.rt, mdl: emit::Path::new_raw(node.mdl), "manual_complete_with");
    frame.call(move || {
        guard.start();
        body_start(env, node);
        run_sync(env, &node.items);
        guard.complete_with(emit::span::completion::default(env.rt.emitter(), env.rt.ctxt()));
    })
}

// ---------------------------------------------------------------------------------------------
// span call sites, async

#[emit::span(rt: env.rt, mdl: emit::Path::new_raw(node.mdl), "async_fn")]
async fn span_async_fn<C: RtCtxt>(env: &Env<'_, '_, C>, node: &PNode) {
    body_start(env, node);
    run_async(env, &node.items).await;
}

async fn span_manual_future<C: RtCtxt>(env: &Env<'_, '_, C>, node: &PNode) {
    let (mut guard, frame) = emit::new_span!(rt: env.rt, mdl: emit::Path::new_raw(node.mdl), "manual_future");
    frame
        .in_future(async move {
            guard.start();
            body_start(env, node);
            run_async(env, &node.items).await;
            guard.complete();
        })
        .await
}

#[emit::span(rt: env.rt, guard: span, mdl: emit::Path::new_raw(node.mdl), "guard_async")]
async fn span_guard_async<C: RtCtxt>(env: &Env<'_, '_, C>, node: &PNode) {
    body_start(env, node);
    run_async(env, &node.items).await;
    span.complete();
}

#[emit::span(rt: env.rt, ok_lvl: emit::Level::Debug, mdl: emit::Path::new_raw(node.mdl), "result_ok_lvl_async")]
async fn span_result_ok_lvl_async<C: RtCtxt>(env: &Env<'_, '_, C>, node: &PNode) -> Result<(), std::io::Error> {
    body_start(env, node);
    run_async(env, &node.items).await;
    match node.id % 3 {
        0 => Ok(()),
        1 => return Err(planned_err()),
        _ => {
            fails()?;
            Ok(())
        }
    }
}

#[emit::span(rt: env.rt, err_lvl: emit::Level::Warn, mdl: emit::Path::new_raw(node.mdl), "result_err_lvl_async")]
async fn span_result_err_lvl_async<C: RtCtxt>(env: &Env<'_, '_, C>, node: &PNode) -> Result<(), std::io::Error> {
    body_start(env, node);
    run_async(env, &node.items).await;
    match node.id % 3 {
        0 => Ok(()),
        1 => return Err(planned_err()),
        _ => {
            fails()?;
            Ok(())
        }
    }
}

#[emit::span(rt: env.rt, err: as_dyn_err, mdl: emit::Path::new_raw(node.mdl), "result_err_async")]
async fn span_result_err_async<C: RtCtxt>(env: &Env<'_, '_, C>, node: &PNode) -> Result<(), std::io::Error> {
    body_start(env, node);
    run_async(env, &node.items).await;
    match node.id % 3 {
        0 => Ok(()),
        1 => return Err(planned_err()),
        _ => {
            fails()?;
            Ok(())
        }
    }
}

#[emit::span(rt: env.rt, guard: span, mdl: emit::Path::new_raw(node.mdl), "guard_complete_with_async")]
async fn span_guard_complete_with_async<C: RtCtxt>(env: &Env<'_, '_, C>, node: &PNode) {
    body_start(env, node);
    run_async(env, &node.items).await;
    span.complete_with(emit::span::completion::from_fn(|span| emit::emit!(rt: env.rt, evt: span)));
}

// ---------------------------------------------------------------------------------------------
// span call sites where the span's OWN frame (the one `new_span!` returns) travels to another thread

fn far_end<C: RtCtxt>(env: &Env<C>, node: &PNode) {
    if let Some(id) = node.far_end {
        check(env, id);
    }
}

fn span_handoff_call<C: RtCtxt>(env: &Env<C>, node: &PNode) {
    let (mut guard, frame) = emit::new_span!(rt: env.rt, mdl: emit::Path::new_raw(node.mdl), "handoff_call");
    let r = std::thread::scope(|s| {
        s.spawn(move || {
            vcore::catch(move || {
                let _ = catch_planned(|| {
                    frame.call(move || {
                        guard.start();
                        body_start(env, node);
                        run_sync(env, &node.items);
                        guard.complete();
                    })
                });
                far_end(env, node);
            })
        })
        .join()
    });
    rejoin(env, r);
}

fn span_handoff_in_fn<C: RtCtxt>(env: &Env<C>, node: &PNode) {
    let (mut guard, frame) = emit::new_span!(rt: env.rt, mdl: emit::Path::new_raw(node.mdl), "handoff_in_fn");
    let on_thread = frame.in_fn(move || {
        guard.start();
        body_start(env, node);
        run_sync(env, &node.items);
        drop(guard);
    });
    let r = std::thread::scope(|s| {
        s.spawn(move || {
            vcore::catch(move || {
                let _ = catch_planned(on_thread);
                far_end(env, node);
            })
        })
        .join()
    });
    rejoin(env, r);
}

fn span_handoff_enter_back<C: RtCtxt>(env: &Env<C>, node: &PNode) {
    let (mut guard, mut frame) = emit::new_span!(rt: env.rt, mdl: emit::Path::new_raw(node.mdl), "handoff_enter_back");
    let r = std::thread::scope(|s| {
        s.spawn(move || {
            let r = vcore::catch(|| {
                let _ = catch_planned(|| {
                    let _entered = frame.enter();
                    guard.start();
                    body_start(env, node);
                    run_sync(env, &node.items);
                });
                far_end(env, node);
            });
            (r, guard, frame)
        })
        .join()
    });
    match r {
        Ok((r, guard, mut frame)) => {
            rejoin(env, Ok(r));
            // back on the parent thread: complete inside the span's frame, as the docs demand
            let _entered = frame.enter();
            guard.complete();
        }
        Err(e) => rejoin(env, Err(e)),
    }
}

async fn span_handoff_future<C: RtCtxt>(env: &Env<'_, '_, C>, node: &PNode) {
    let (mut guard, frame) = emit::new_span!(rt: env.rt, mdl: emit::Path::new_raw(node.mdl), "handoff_future");
    alternating(
        frame.in_future(async move {
            guard.start();
            body_start(env, node);
            run_async(env, &node.items).await;
            guard.complete();
        }),
        &|| env.push(L::PollThreadEnd { tp: Tp::current() }),
        env.fail,
    )
    .await
}

// ---------------------------------------------------------------------------------------------
// dispatch

fn span_sync<C: RtCtxt>(env: &Env<C>, node: &PNode) {
    match node.form {
        Form::SyncFn => {
            env.push(L::Begin(node.id));
            span_sync_fn(env, node)
        }
        Form::ManualCall => {
            env.push(L::Begin(node.id));
            span_manual_call(env, node)
        }
        Form::ManualEnter => {
            env.push(L::Begin(node.id));
            span_manual_enter(env, node)
        }
        Form::GuardSync => {
            env.push(L::Begin(node.id));
            span_guard_sync(env, node)
        }
        Form::ResultOkLvlSync => {
            env.push(L::Begin(node.id));
            let _ = span_result_ok_lvl_sync(env, node);
        }
        Form::ResultErrLvlSync => {
            env.push(L::Begin(node.id));
            let _ = span_result_err_lvl_sync(env, node);
        }
        Form::ResultErrSync => {
            env.push(L::Begin(node.id));
            let _ = span_result_err_sync(env, node);
        }
        Form::GuardCompleteWithSync => {
            env.push(L::Begin(node.id));
            span_guard_complete_with_sync(env, node)
        }
        Form::ManualCompleteWith => {
            env.push(L::Begin(node.id));
            span_manual_complete_with(env, node)
        }
        Form::HandoffCall => {
            env.push(L::Begin(node.id));
            span_handoff_call(env, node)
        }
        Form::HandoffInFn => {
            env.push(L::Begin(node.id));
            span_handoff_in_fn(env, node)
        }
        Form::HandoffEnterBack => {
            env.push(L::Begin(node.id));
            span_handoff_enter_back(env, node)
        }
        _ => block_on(span_async(env, node)),
    }
}

fn span_async<'a, 'c, C: RtCtxt>(env: &'a Env<'a, 'c, C>, node: &'a PNode) -> BoxFut<'a> {
    match node.form {
        // `Begin` is logged in the first poll, which also starts the span and reaches `body_start`
        Form::AsyncFn => Box::pin(async move {
            env.push(L::Begin(node.id));
            span_async_fn(env, node).await
        }),
        Form::ManualFuture => Box::pin(async move {
            env.push(L::Begin(node.id));
            span_manual_future(env, node).await
        }),
        Form::GuardAsync => Box::pin(async move {
            env.push(L::Begin(node.id));
            span_guard_async(env, node).await
        }),
        Form::HandoffFuture => Box::pin(async move {
            env.push(L::Begin(node.id));
            span_handoff_future(env, node).await
        }),
        Form::ResultOkLvlAsync => Box::pin(async move {
            env.push(L::Begin(node.id));
            let _ = span_result_ok_lvl_async(env, node).await;
        }),
        Form::ResultErrLvlAsync => Box::pin(async move {
            env.push(L::Begin(node.id));
            let _ = span_result_err_lvl_async(env, node).await;
        }),
        Form::ResultErrAsync => Box::pin(async move {
            env.push(L::Begin(node.id));
            let _ = span_result_err_async(env, node).await;
        }),
        Form::GuardCompleteWithAsync => Box::pin(async move {
            env.push(L::Begin(node.id));
            span_guard_complete_with_async(env, node).await
        }),
        _ => Box::pin(async move { span_sync(env, node) }),
    }
}

pub fn run_root<C: RtCtxt>(env: &Env<C>, prog: &crate::tree::Prog) {
    run_sync(env, &prog.items);
    check(env, prog.final_check);
}

pub fn run_sync<C: RtCtxt>(env: &Env<C>, items: &[PItem]) {
    for it in items {
        match it {
            PItem::Span(n) => {
                span_sync(env, n);
                check(env, n.post);
            }
            PItem::Event { id } => event(env, *id),
            PItem::Check { id } => check(env, *id),
            PItem::Yield => {}
            PItem::Panic => planned_panic(),
            PItem::Catch { items, post } => {
                let _ = catch_planned(|| run_sync(env, items));
                check(env, *post);
            }
            PItem::CaptureFrame { slot, props, root } => capture_frame(env, *slot, *props, *root),
            PItem::RunFrame { frame, how, items, pre, end, post, .. } => {
                match frame.and_then(|f| env.frames[f].lock().unwrap().take()) {
                    None if *how == RunHow::OtherThread => run_frame_elsewhere(env, None, items, *pre, *end),
                    None => {
                        check(env, *pre);
                        run_sync(env, items);
                    }
                    Some(frame) => match how {
                        RunHow::Call => frame.call(|| {
                            check(env, *pre);
                            run_sync(env, items)
                        }),
                        RunHow::EnterGuard => {
                            let mut frame = frame;
                            let _entered = frame.enter();
                            check(env, *pre);
                            run_sync(env, items)
                        }
                        RunHow::InFuture => block_on(frame.in_future(async {
                            check(env, *pre);
                            run_async(env, items).await
                        })),
                        RunHow::OtherThread => run_frame_elsewhere(env, Some(frame), items, *pre, *end),
                    },
                }
                check(env, *post);
            }
            PItem::Push { id, header, via, items, pre, post, .. } => {
                let frame = push_header(env, *id, header, *via);
                frame.call(|| {
                    check(env, *pre);
                    run_sync(env, items)
                });
                check(env, *post);
            }
            PItem::Service { id, items, pre, end, post } => {
                service(env, *id, items, *pre, *end);
                check(env, *post);
            }
            PItem::Hop { id, carry, fut, items, pre, end, post } => {
                hop(env, *id, *carry, *fut, items, *pre, *end);
                check(env, *post);
            }
            PItem::Join { carry, migrate, tasks, schedule, post } => {
                let hook = || env.push(L::PollThreadEnd { tp: Tp::current() });
                block_on(join(spawn_tasks(env, *carry, tasks), schedule, *migrate, &hook, env.fail));
                check(env, *post);
            }
        }
    }
}

pub fn run_async<'a, 'c, C: RtCtxt>(env: &'a Env<'a, 'c, C>, items: &'a [PItem]) -> BoxFut<'a> {
    Box::pin(async move {
        for it in items {
            match it {
                PItem::Span(n) => {
                    span_async(env, n).await;
                    check(env, n.post);
                }
                PItem::Event { id } => event(env, *id),
                PItem::Check { id } => check(env, *id),
                PItem::Yield => yield_now().await,
                PItem::Panic => planned_panic(),
                PItem::Catch { items, post } => {
                    catch_fut(run_async(env, items)).await;
                    check(env, *post);
                }
                PItem::CaptureFrame { slot, props, root } => capture_frame(env, *slot, *props, *root),
                PItem::RunFrame { frame, how, items, pre, end, post, .. } => {
                    match frame.and_then(|f| env.frames[f].lock().unwrap().take()) {
                        None if *how == RunHow::OtherThread => run_frame_elsewhere(env, None, items, *pre, *end),
                        None => {
                            check(env, *pre);
                            run_async(env, items).await;
                        }
                        Some(frame) => match how {
                            // synchronous ways of entering run their items within this poll
                            RunHow::Call => frame.call(|| {
                                check(env, *pre);
                                run_sync(env, items)
                            }),
                            RunHow::EnterGuard => {
                                let mut frame = frame;
                                let _entered = frame.enter();
                                check(env, *pre);
                                run_sync(env, items)
                            }
                            RunHow::InFuture => {
                                frame
                                    .in_future(async {
                                        check(env, *pre);
                                        run_async(env, items).await
                                    })
                                    .await
                            }
                            RunHow::OtherThread => run_frame_elsewhere(env, Some(frame), items, *pre, *end),
                        },
                    }
                    check(env, *post);
                }
                PItem::Push { id, header, via, items, pre, post, .. } => {
                    let frame = push_header(env, *id, header, *via);
                    frame
                        .in_future(async move {
                            check(env, *pre);
                            run_async(env, items).await
                        })
                        .await;
                    check(env, *post);
                }
                PItem::Service { id, items, pre, end, post } => {
                    service(env, *id, items, *pre, *end);
                    check(env, *post);
                }
                PItem::Hop { id, carry, fut, items, pre, end, post } => {
                    hop(env, *id, *carry, *fut, items, *pre, *end);
                    check(env, *post);
                }
                PItem::Join { carry, migrate, tasks, schedule, post } => {
                    let hook = || env.push(L::PollThreadEnd { tp: Tp::current() });
                    join(spawn_tasks(env, *carry, tasks), schedule, *migrate, &hook, env.fail).await;
                    check(env, *post);
                }
            }
        }
    })
}

fn spawn_tasks<'a, 'c, C: RtCtxt>(env: &'a Env<'a, 'c, C>, carry: bool, tasks: &'a [Vec<PItem>]) -> Vec<BoxFut<'a>> {
    tasks
        .iter()
        .map(|t| -> BoxFut<'a> {
            if carry {
                Box::pin(Frame::current(env.rt.ctxt()).in_future(run_async(env, t)))
            } else {
                run_async(env, t)
            }
        })
        .collect()
}

// ---------------------------------------------------------------------------------------------
// non-span frames captured at one point and entered at another

fn capture_frame<C: RtCtxt>(env: &Env<C>, slot: usize, props: bool, root: bool) {
    let rt = env.rt;
    let ctxt = rt.ctxt();
    let job = slot as u64;
    let frame = if root {
        Frame::root(ctxt, emit::props! { job })
    } else if props {
        Frame::push(ctxt, emit::props! { job })
    } else {
        Frame::current(ctxt)
    };
    *env.frames[slot].lock().unwrap() = Some(frame);
}

fn run_frame_elsewhere<C: RtCtxt>(env: &Env<C>, frame: Option<CapturedFrame<'_, C>>, items: &[PItem], pre: usize, end: Option<usize>) {
    let r = std::thread::scope(|s| {
        s.spawn(move || {
            vcore::catch(move || {
                // a planned panic in the body is caught by this thread, which then shows it is clean again
                let _ = catch_planned(|| {
                    let body = || {
                        check(env, pre);
                        run_sync(env, items)
                    };
                    match frame {
                        Some(frame) => frame.call(body),
                        None => body(),
                    }
                });
                if let Some(end) = end {
                    check(env, end);
                }
            })
        })
        .join()
    });
    rejoin(env, r);
}

// ---------------------------------------------------------------------------------------------
// trace-context operations

fn traceparent(trace: Option<u128>, span: Option<u64>, flags: u8) -> Traceparent {
    Traceparent::new(trace.and_then(TraceId::from_u128), span.and_then(SpanId::from_u64), TraceFlags::from_u8(flags))
}

fn push_header<C: RtCtxt>(env: &Env<C>, id: usize, header: &Header, via: PushVia) -> Frame<emit_traceparent::TraceparentCtxt> {
    let wanted: Option<Tp> = match header {
        Header::Unparsable => None,
        Header::Valid { trace, span, flags } => Some(Tp { trace: Some(u128_of(*trace)), span: Some((*span).max(1)), flags: *flags }),
        Header::SameTrace { trace, span, flags } => {
            let active = Traceparent::current().trace_id().map(|t| t.to_u128());
            Some(Tp { trace: Some(active.unwrap_or(u128_of(*trace))), span: Some((*span).max(1)), flags: *flags })
        }
        Header::Zero { flags } => Some(Tp { trace: None, span: None, flags: *flags }),
        Header::Half { trace: Some(t), flags, .. } => Some(Tp { trace: Some(u128_of(*t)), span: None, flags: *flags }),
        Header::Half { trace: None, span, flags } => Some(Tp { trace: None, span: Some((*span).max(1)), flags: *flags }),
    };
    let tp = match (wanted, via) {
        // the documented fallback for a header that does not parse
        (None, _) => Traceparent::try_from_str("00-not-a-traceparent").unwrap_or_else(|_| Traceparent::current()),
        (Some(w), PushVia::Text) => Traceparent::try_from_str(&w.text()).expect("well-formed header text parses"),
        (Some(w), _) => traceparent(w.trace, w.span, w.flags),
    };
    env.push(L::Pushed { id, tp: Tp::of(&tp) });
    match via {
        PushVia::Function => emit_traceparent::push(tp, Tracestate::new_raw("vendor=c18")),
        _ => tp.push(),
    }
}

/// Panics on helper threads are caught there (vcore keeps the panic site per thread) and parked in
/// `env.fail`; the oracle reports the first one before judging anything else.
fn rejoin<C: RtCtxt>(env: &Env<C>, r: std::thread::Result<Result<(), vcore::Fail>>) {
    let fail = match r {
        Ok(Ok(())) => return,
        Ok(Err(f)) => f,
        Err(_) => vcore::Fail::new("panic@hop-thread", "helper thread died outside the guarded body"),
    };
    let mut slot = env.fail.lock().unwrap();
    if slot.is_none() {
        *slot = Some(fail);
    }
}

/// "Next service": what a client does with an outgoing request and a server with the incoming one.
fn service<C: RtCtxt>(env: &Env<C>, id: usize, items: &[PItem], pre: usize, end: usize) {
    let current = Traceparent::current();
    let text = if current.is_valid() { Some(current.to_string()) } else { None };
    env.push(L::ServiceHeader { id, text: text.clone() });
    let r = std::thread::scope(|s| {
        s.spawn(move || {
            vcore::catch(move || {
                let body = || {
                    check(env, pre);
                    run_sync(env, items)
                };
                // the request handler may panic (planned): the server thread catches that and goes on
                let _ = catch_planned(|| match text {
                    Some(text) => {
                        let incoming = Traceparent::try_from_str(&text).unwrap_or_else(|_| Traceparent::current());
                        incoming.push().call(body)
                    }
                    None => body(),
                });
                check(env, end);
            })
        })
        .join()
    });
    rejoin(env, r);
}

/// Same service, fresh thread (joined before going on).
fn hop<C: RtCtxt>(env: &Env<C>, id: usize, carry: Carry, fut: bool, items: &[PItem], pre: usize, end: usize) {
    let before = Tp::current();
    let tp_frame = match carry {
        Carry::TraceparentPush | Carry::Both => Some(Traceparent::current().push()),
        _ => None,
    };
    let ctxt_frame = match carry {
        Carry::FrameCurrent | Carry::Both => Some(Frame::current(env.rt.ctxt())),
        _ => None,
    };
    let r = std::thread::scope(|s| {
        s.spawn(move || {
            vcore::catch(move || {
                // innermost: the body, guarded by the arrival test for carried context
                let inner_sync = || {
                    if carry != Carry::Nothing {
                        let inside = Tp::current();
                        env.push(L::HopEntry { id, before, inside });
                        if inside != before && env.skip_broken_hops {
                            env.push(L::HopSkipped { id });
                            return;
                        }
                    }
                    check(env, pre);
                    if fut {
                        block_on(run_async(env, items))
                    } else {
                        run_sync(env, items)
                    }
                };
                // `fut`: the carried frames wrap a future that is driven on this thread (tokio::spawn style)
                // the body may panic (planned): this thread catches that and goes on
                let _ = catch_planned(|| match (tp_frame, ctxt_frame, fut) {
                    (None, None, _) => inner_sync(),
                    (Some(t), None, false) => t.call(inner_sync),
                    (None, Some(c), false) => c.call(inner_sync),
                    (Some(t), Some(c), false) => t.call(|| c.call(inner_sync)),
                    (Some(t), None, true) => block_on(t.in_future(hop_future(env, id, before, items, pre))),
                    (None, Some(c), true) => block_on(c.in_future(hop_future(env, id, before, items, pre))),
                    (Some(t), Some(c), true) => block_on(t.in_future(c.in_future(hop_future(env, id, before, items, pre)))),
                });
                check(env, end);
            })
        })
        .join()
    });
    rejoin(env, r);
}

fn hop_future<'a, 'c, C: RtCtxt>(env: &'a Env<'a, 'c, C>, id: usize, before: Tp, items: &'a [PItem], pre: usize) -> BoxFut<'a> {
    Box::pin(async move {
        let inside = Tp::current();
        env.push(L::HopEntry { id, before, inside });
        if inside != before && env.skip_broken_hops {
            env.push(L::HopSkipped { id });
            return;
        }
        check(env, pre);
        run_async(env, items).await
    })
}
