//! C18 — a sampling decision is made once per trace and governs everything inside it.
//!
//! `check_case` runs one program (span tree + pushed headers + hops, as data) through the
//! interpreter in `interp.rs` on a private trace-context runtime (whose ctxt is carried the way the case says:
//! concrete, `&`, `Box`, `Arc`, `Option`, `AssertInternal`, erased, nested — `ctxt.rs`), on a fresh OS thread (so the
//! thread-local `ACTIVE_TRACEPARENT` of the shard thread is never involved), and then walks the
//! program again with a model of the active traceparent, judging the sampler call log, the events
//! that reached the emitter and `Traceparent::current()` / `SpanCtxt::current` at every check point.
//!
//! The model is relational: ids of sampled spans are read from their own span events (unique module
//! per node); the order of sampler calls is read from the log positions of the span starts, never
//! predicted; ids inside unsampled traces (which no event shows) are learned from the first
//! observation inside the span and every later observation must agree with it.

pub mod ctxt;
pub mod exec;
pub mod interp;
pub mod rt;
pub mod tree;

use std::collections::{BTreeMap, BTreeSet};
use std::sync::Mutex;

use vcore::{vassert, Cx, Fail, Res};

use interp::Env;
use rt::{Rec, Sc, Tp, L};
use tree::{unwinds, Carry, Case, CtxtVia, Form, Header, PItem, PNode, Prog, RunHow};

pub const SIG_FRAME_CURRENT_HOP: &str = "frame-current-hop-drops-traceparent";

fn parse_hex(s: &str, digits: usize) -> Option<u128> {
    if s.len() != digits || !s.bytes().all(|b| b.is_ascii_hexdigit()) {
        return None;
    }
    u128::from_str_radix(s, 16).ok()
}

const EMPTY_TP: Tp = Tp { trace: None, span: None, flags: 1 };

/// The model of "what is active at this program point".
#[derive(Debug, Clone, Copy)]
struct Active {
    /// `Traceparent::current()` must equal exactly this; None = nothing active (current() is the empty, sampled one)
    tp: Option<Tp>,
    /// what `SpanCtxt::current().span_parent()` must be while `tp` is sampled
    parent: Option<u64>,
    /// … unless it is left open (after the current traceparent was re-pushed to carry it over a thread hop)
    parent_open: bool,
    /// the model lost track (only after a listed known finding was stepped over): nothing below is judged
    unknown: bool,
}

const NOTHING: Active = Active { tp: None, parent: None, parent_open: false, unknown: false };

impl Active {
    fn valid(&self) -> bool {
        self.tp.map_or(false, |t| t.valid())
    }
    fn sampled(&self) -> bool {
        self.tp.map_or(true, |t| t.sampled())
    }
}

struct Judge<'a> {
    case: &'a Case,
    span_recs: BTreeMap<usize, Vec<&'a Rec>>,
    evt_recs: BTreeMap<usize, Vec<&'a Rec>>,
    checks: BTreeMap<usize, Vec<(Tp, Sc)>>,
    bodies: BTreeMap<usize, (Tp, Sc)>,
    calls: BTreeMap<usize, Vec<(usize, Sc, bool)>>,
    pushed: BTreeMap<usize, Tp>,
    svc: BTreeMap<usize, Option<String>>,
    hop_entry: BTreeMap<usize, (Tp, Tp)>,
    hop_skipped: BTreeSet<usize>,
    /// the innermost thing that established the active traceparent is a pushed / received header (not a span)
    in_header_scope: bool,
    // classification
    roots_sampled: usize,
    roots_unsampled: usize,
    unsampled_root_with_descendants: bool,
    incoming_unsampled: bool,
    incoming_sampled: bool,
    invalid_header: bool,
    mismatched_header: bool,
    same_trace_header: bool,
    downstream_spans: usize,
    continued_spans: usize,
    frame_current_hop_with_spans: bool,
    unsampled_nonroot_spans: usize,
    handoffs: usize,
    handoff_sampled_with_descendants: bool,
    handoff_unsampled_nonroot_with_descendants: bool,
    result_span_sampled: bool,
    result_span_unsampled: bool,
    result_span_under_unsampled_header: bool,
    complete_with_sampled: bool,
    complete_with_unsampled: bool,
    /// somewhere above (not necessarily innermost) a pushed / received header established the trace
    in_header_scope_any: bool,
    /// what was active where each `CaptureFrame` ran, by slot
    captured: BTreeMap<usize, Active>,
    /// the slots whose frame was made with `Frame::root(ctxt, plain property)`
    root_frames: BTreeSet<usize>,
    root_frame_entered: bool,
    root_frame_entered_in_trace: bool,
    foreign_in_sampled_span: bool,
    foreign_in_unsampled_span: bool,
    foreign_under_header: bool,
    foreign_how_call: bool,
    foreign_how_enter: bool,
    foreign_how_future: bool,
    // planned panics
    /// a planned panic is travelling up through the program being walked
    unwinding: bool,
    /// traceparent-establishing scopes (spans, header frames) it has left so far
    unwound_scopes: usize,
    /// this thread has caught a panic that unwound through such scopes and is being used on
    after_panic: bool,
    exit_panic_sync_call: bool,
    exit_panic_enter_guard: bool,
    exit_panic_async: bool,
    exit_panic_incoming_frame: bool,
    exit_panic_incoming_frame_async: bool,
    exit_panic_far_thread: bool,
    exit_panic_sampled: bool,
    exit_panic_unsampled: bool,
    after_panic_new_root: bool,
}

#[derive(Clone, Copy)]
enum UnwoundScope {
    SyncCall,
    EnterGuard,
    Async,
    IncomingFrame,
    IncomingFrameAsync,
}

fn count_spans(items: &[PItem]) -> usize {
    items
        .iter()
        .map(|it| match it {
            PItem::Catch { items, .. } | PItem::RunFrame { items, .. } => count_spans(items),
            PItem::Span(n) => 1 + count_spans(&n.items),
            PItem::Push { items, .. } | PItem::Service { items, .. } | PItem::Hop { items, .. } => count_spans(items),
            PItem::Join { tasks, .. } => tasks.iter().map(|t| count_spans(t)).sum(),
            _ => 0,
        })
        .sum()
}

impl<'a> Judge<'a> {
    fn check(&mut self, id: usize, a: Active, cx: &mut Cx, what: &str) -> Res {
        if a.unknown {
            return Ok(());
        }
        let got = self.checks.remove(&id).unwrap_or_default();
        vassert!(cx, got.len() == 1, "check-count", "check point {id} ({what}) was reached {} times (harness)", got.len());
        let Some((tp, sc)) = got.first().copied() else { return Ok(()) };
        self.judge_obs(tp, sc, a, cx, &format!("check point {id} ({what})"))
    }

    /// `Traceparent::current()` and `SpanCtxt::current(rt.ctxt())` against the model.
    fn judge_obs(&mut self, tp: Tp, sc: Sc, a: Active, cx: &mut Cx, at: &str) -> Res {
        let want = a.tp.unwrap_or(EMPTY_TP);
        if tp != want {
            let sig = match a.tp {
                None => "traceparent-not-restored-to-empty",
                Some(w) if w.sampled() != tp.sampled() => "current-traceparent-sampled-flag",
                Some(_) => "current-traceparent-differs",
            };
            cx.fail(sig, format!("{at}: Traceparent::current() = {} but the model has {}", tp.text(), want.text()))?;
        }
        let want_sc = match a.tp {
            Some(w) if w.sampled() => Sc { trace: w.trace, parent: if a.parent_open { sc.parent } else { a.parent }, span: w.span },
            _ => Sc { trace: None, parent: None, span: None },
        };
        if sc != want_sc {
            let sig = if !a.sampled() { "span-ctxt-visible-in-unsampled-trace" } else if (sc.trace, sc.span) != (want_sc.trace, want_sc.span) { "span-ctxt-differs-from-traceparent" } else { "span-ctxt-parent" };
            cx.fail(sig, format!("{at}: SpanCtxt::current = {sc:x?} but the model has {want_sc:x?} (traceparent {})", want.text()))?;
        }
        Ok(())
    }

    fn event(&mut self, id: usize, a: Active, cx: &mut Cx) -> Res {
        if a.unknown {
            self.evt_recs.remove(&id);
            return Ok(());
        }
        let got = self.evt_recs.remove(&id).unwrap_or_default();
        let expect = match (self.case.in_sampled, a.tp) {
            (None, _) => Some(true),
            (Some(b), None) => Some(b),
            (Some(_), Some(tp)) if tp.valid() => Some(tp.sampled()),
            // an active but invalid header with the sampled-trace filter: "in a trace" or not is left open
            (Some(_), Some(_)) => None,
        };
        match expect {
            Some(true) => {
                let sig = match (self.case.in_sampled, a.tp) {
                    (Some(_), Some(_)) => "event-dropped-in-sampled-trace",
                    (Some(_), None) => "event-outside-trace-dropped-despite-flag",
                    _ => "event-not-emitted",
                };
                vassert!(cx, got.len() == 1, sig, "event {id} reached the emitter {} times; active {:?}, in_sampled {:?}", got.len(), a.tp.map(|t| t.text()), self.case.in_sampled);
            }
            Some(false) => {
                let sig = if a.tp.is_some() { "event-emitted-in-unsampled-trace" } else { "event-outside-trace-emitted-despite-flag" };
                vassert!(cx, got.is_empty(), sig, "event {id} reached the emitter {} times; active {:?}, in_sampled {:?}", got.len(), a.tp.map(|t| t.text()), self.case.in_sampled);
            }
            None => {
                cx.dont_care();
                vassert!(cx, got.len() <= 1, "event-duplicated", "event {id} reached the emitter {} times", got.len());
            }
        }
        let Some(r) = got.first() else { return Ok(()) };
        let t = r.trace_id.first().map(|s| parse_hex(s, 32));
        let s = r.span_id.first().map(|s| parse_hex(s, 16));
        match a.tp {
            None => {
                vassert!(cx, t.is_none() && s.is_none(), "event-has-ids-outside-trace", "event {id}: nothing is active, yet it carries {:?} {:?}", r.trace_id, r.span_id);
            }
            Some(tp) if tp.sampled() => {
                vassert!(
                    cx,
                    t == tp.trace.map(Some) && s == tp.span.map(|v| Some(v as u128)),
                    "event-ids-differ-from-traceparent",
                    "event {id} carries trace {:?} span {:?}; the active traceparent is {}",
                    r.trace_id,
                    r.span_id,
                    tp.text()
                );
            }
            // emitted inside an unsampled trace (no sampled-trace filter): which ids it shows is left open
            Some(_) => cx.dont_care(),
        }
        Ok(())
    }

    /// Judge the start of span `n` under `a`; returns what is active inside it.
    fn span(&mut self, n: &PNode, a: Active, cx: &mut Cx) -> Result<Active, Fail> {
        let lost = Active { unknown: true, ..a };
        if a.unknown {
            self.span_recs.remove(&n.id);
            self.calls.remove(&n.id);
            return Ok(lost);
        }
        let calls = self.calls.remove(&n.id).unwrap_or_default();
        let root = !a.valid();
        if root && self.after_panic {
            // a new trace starts on a thread that has caught a panic which unwound through spans / header frames
            self.after_panic_new_root = true;
        }
        if self.case.no_sampler {
            // cannot happen through emit (no sampler is installed); a non-empty log would be a harness error
            vassert!(cx, calls.is_empty(), "sampler-log-not-empty-without-sampler", "node {}: {} sampler call(s) logged although no sampler is installed", n.id, calls.len());
        } else if root {
            vassert!(cx, !calls.is_empty(), "sampler-not-called-for-root", "node {} starts with no valid active traceparent ({:?}) but the sampler was not called", n.id, a.tp.map(|t| t.text()));
            vassert!(cx, calls.len() <= 1, "sampler-called-more-than-once", "node {}: {} sampler calls for one root span", n.id, calls.len());
        } else if !calls.is_empty() {
            let sig = if self.continued_scope(a) { "sampler-called-for-continued-trace" } else { "sampler-called-for-child" };
            cx.fail(sig, format!("node {} starts under the valid traceparent {} but the sampler was called {} time(s) with {:x?}", n.id, a.tp.unwrap().text(), calls.len(), calls[0].1))?;
        }
        let Some((btp, bsc)) = self.bodies.get(&n.id).copied() else {
            cx.fail("span-body-not-run", format!("node {} never reached its body (harness)", n.id))?;
            return Ok(lost);
        };

        // the decision that governs this span
        let sampled = if root {
            // without a sampler every locally started trace is sampled (rustdoc of `TraceparentFilter::new`)
            let k = if self.case.no_sampler {
                0
            } else {
                let Some(&(k, _, answer)) = calls.first() else { return Ok(lost) };
                debug_assert_eq!(answer, self.case.decision(k));
                k
            };
            let gate = match (self.case.in_sampled, a.tp) {
                (None, _) => Some(true),
                // the start of a new trace is itself "outside any trace": the second filter answers its flag
                (Some(b), None) => Some(b),
                // … and under an active but invalid header it is left open what that filter says
                (Some(_), Some(_)) => None,
            };
            let decision = self.case.decision(k);
            let sampled = match (decision, gate) {
                (false, _) => false,
                (true, Some(g)) => g,
                (true, None) => {
                    cx.dont_care();
                    btp.sampled()
                }
            };
            if sampled {
                self.roots_sampled += 1
            } else {
                self.roots_unsampled += 1;
                if count_spans(&n.items) > 0 {
                    self.unsampled_root_with_descendants = true;
                }
            }
            sampled
        } else {
            if !a.sampled() {
                self.unsampled_nonroot_spans += 1;
            }
            a.sampled()
        };

        if n.form.is_result() {
            if sampled {
                self.result_span_sampled = true
            } else {
                self.result_span_unsampled = true;
                if self.in_header_scope_any {
                    self.result_span_under_unsampled_header = true;
                }
            }
        }
        if n.form.is_complete_with() {
            if sampled {
                self.complete_with_sampled = true
            } else {
                self.complete_with_unsampled = true
            }
        }
        if n.form.is_handoff() {
            self.handoffs += 1;
            let descendants = count_spans(&n.items) > 0;
            if descendants && sampled {
                self.handoff_sampled_with_descendants = true;
            }
            // a NON-ROOT span of an unsampled trace whose own frame is entered away from its parent
            if descendants && !sampled && !root {
                self.handoff_unsampled_nonroot_with_descendants = true;
            }
        }
        let got = self.span_recs.remove(&n.id).unwrap_or_default();
        if !sampled {
            vassert!(cx, got.is_empty(), "unsampled-span-emitted", "node {} is in an unsampled trace but {} span event(s) reached the emitter", n.id, got.len());
            vassert!(cx, !btp.sampled(), "current-traceparent-sampled-flag", "node {}: inside an unsampled trace Traceparent::current() = {}", n.id, btp.text());
            // the decision has to travel: the traceparent names the (unemitted) trace and span
            vassert!(cx, btp.valid(), "unsampled-traceparent-invalid", "node {}: inside an unsampled trace Traceparent::current() = {} cannot be propagated", n.id, btp.text());
            if !root {
                let at = a.tp.unwrap();
                vassert!(cx, btp.trace == at.trace, "unsampled-trace-id-changes", "node {}: unsampled child shows trace {:x?}, its parent {:x?}", n.id, btp.trace, at.trace);
            }
            vassert!(cx, bsc == Sc { trace: None, parent: None, span: None }, "span-ctxt-visible-in-unsampled-trace", "node {}: SpanCtxt::current = {bsc:x?} inside an unsampled trace", n.id);
            // ids are learned here; every later observation inside this span must agree
            return Ok(Active { tp: Some(btp), parent: None, parent_open: false, unknown: false });
        }

        if unwinds(&n.items) && got.is_empty() {
            // whether a span that is left by a panic completes is C05's business; here: if it is emitted, with the right ids
            cx.dont_care();
            return Ok(Active { tp: Some(btp), parent: None, parent_open: true, unknown: false });
        }
        vassert!(cx, !got.is_empty(), "sampled-span-not-emitted", "node {} is in a sampled trace but no span event reached the emitter", n.id);
        vassert!(cx, got.len() <= 1, "span-event-duplicated", "node {} emitted {} span events", n.id, got.len());
        let Some(r) = got.first() else { return Ok(lost) };
        let trace = r.trace_id.first().and_then(|s| parse_hex(s, 32));
        let span = r.span_id.first().and_then(|s| parse_hex(s, 16)).map(|v| v as u64);
        let parent = match r.span_parent.first() {
            None => Ok(None),
            Some(s) => parse_hex(s, 16).map(|v| Some(v as u64)).ok_or(()),
        };
        let (Some(trace), Some(span), Ok(parent)) = (trace, span, parent) else {
            cx.fail("span-ids-missing-or-malformed", format!("node {}: span event ids {:?} {:?} {:?}", n.id, r.trace_id, r.span_id, r.span_parent))?;
            return Ok(lost);
        };
        if root {
            match a.tp {
                Some(h) if h.trace.is_some() || h.span.is_some() => {
                    // half-valid header: whether its one id is reused is left open
                    cx.dont_care();
                }
                _ => {
                    vassert!(cx, parent.is_none(), "root-span-has-parent", "node {} starts a new trace but has span_parent {parent:x?}", n.id);
                    if let Some(&(_, arg, _)) = calls.first() {
                        vassert!(
                        cx,
                        arg == Sc { trace: Some(trace), parent: None, span: Some(span) },
                        "sampler-argument-differs-from-root-span",
                        "node {}: the sampler saw {arg:x?}, the root span is trace {trace:032x} span {span:016x}",
                        n.id
                    );
                    }
                }
            }
        } else {
            let at = a.tp.unwrap();
            if self.continued_scope(a) {
                self.continued_spans += 1;
            }
            vassert!(cx, Some(trace) == at.trace, "span-trace-differs-from-caller", "node {} has trace {trace:032x}; it starts under {}", n.id, at.text());
            vassert!(cx, parent == at.span, "span-parent-not-caller", "node {} has span_parent {parent:x?}; it starts under {}", n.id, at.text());
            vassert!(cx, Some(span) != at.span, "span-id-not-fresh", "node {} reuses its caller's span id {span:016x}", n.id);
        }
        let inner = Active { tp: Some(Tp { trace: Some(trace), span: Some(span), flags: btp.flags }), parent, parent_open: false, unknown: false };
        vassert!(cx, btp.sampled(), "current-traceparent-sampled-flag", "node {}: inside a sampled trace Traceparent::current() = {}", n.id, btp.text());
        self.judge_obs(btp, bsc, inner, cx, &format!("node {} body start", n.id))?;
        Ok(inner)
    }

    /// true when the valid active traceparent comes from a pushed / received header rather than from a span of this program
    fn continued_scope(&self, _a: Active) -> bool {
        self.in_header_scope
    }

    fn items(&mut self, items: &[PItem], a: Active, cx: &mut Cx) -> Res {
        for it in items {
            self.item(it, a, cx)?;
            if self.unwinding {
                // a planned panic is travelling up: the rest of this list never runs
                break;
            }
        }
        Ok(())
    }

    /// A planned panic has just left a scope that had established a traceparent.
    fn unwound_through(&mut self, what: UnwoundScope, sampled: bool) {
        self.unwound_scopes += 1;
        match what {
            UnwoundScope::SyncCall => self.exit_panic_sync_call = true,
            UnwoundScope::EnterGuard => self.exit_panic_enter_guard = true,
            UnwoundScope::Async => self.exit_panic_async = true,
            UnwoundScope::IncomingFrame => self.exit_panic_incoming_frame = true,
            UnwoundScope::IncomingFrameAsync => self.exit_panic_incoming_frame_async = true,
        }
        if sampled {
            self.exit_panic_sampled = true
        } else {
            self.exit_panic_unsampled = true
        }
    }

    /// A frame captured outside any trace is entered inside one (on the same thread).
    fn foreign_frame(&mut self, how: RunHow, a: Active) {
        if self.in_header_scope {
            self.foreign_under_header = true;
        } else if a.sampled() {
            self.foreign_in_sampled_span = true;
        } else {
            self.foreign_in_unsampled_span = true;
        }
        match how {
            RunHow::Call => self.foreign_how_call = true,
            RunHow::EnterGuard => self.foreign_how_enter = true,
            RunHow::InFuture => self.foreign_how_future = true,
            RunHow::OtherThread => {}
        }
    }

    /// The unwind stops here (an explicit `Catch`, or the top of a hop / service / hand-off thread).
    fn caught(&mut self, same_thread_goes_on: bool) {
        if self.unwinding {
            self.unwinding = false;
            if self.unwound_scopes > 0 && same_thread_goes_on {
                self.after_panic = true;
            }
            self.unwound_scopes = 0;
        }
    }

    fn item(&mut self, it: &PItem, a: Active, cx: &mut Cx) -> Res {
        match it {
            PItem::Yield => Ok(()),
            PItem::Panic => {
                self.unwinding = true;
                self.unwound_scopes = 0;
                Ok(())
            }
            PItem::Catch { items, post } => {
                self.items(items, a, cx)?;
                self.caught(true);
                // "the previous traceparent is restored": after the unwind it is what it was before the scopes
                self.check(*post, a, cx, "after catch_unwind")
            }
            PItem::CaptureFrame { slot, root, .. } => {
                // the frame is a snapshot of what is active right here
                self.captured.insert(*slot, a);
                if *root {
                    self.root_frames.insert(*slot);
                }
                Ok(())
            }
            PItem::RunFrame { frame, how, items, pre, end, post, .. } => {
                let elsewhere = *how == RunHow::OtherThread;
                let Some(slot) = frame else {
                    if !elsewhere {
                        // no captured frame available: the items simply run here
                        self.check(*pre, a, cx, "run-frame without a frame")?;
                        self.items(items, a, cx)?;
                        if self.unwinding {
                            return Ok(());
                        }
                        return self.check(*post, a, cx, "after run-frame without a frame");
                    }
                    // … or on a fresh thread that has nothing
                    let inner = if a.unknown { a } else { NOTHING };
                    let saved_after = std::mem::replace(&mut self.after_panic, false);
                    let saved = std::mem::replace(&mut self.in_header_scope, false);
                    self.check(*pre, inner, cx, "fresh thread without a frame")?;
                    self.items(items, inner, cx)?;
                    self.in_header_scope = saved;
                    if self.unwinding {
                        self.exit_panic_far_thread = true;
                        self.caught(false);
                    }
                    self.after_panic = saved_after;
                    if let Some(end) = end {
                        self.check(*end, inner, cx, "fresh thread without a frame, at its end")?;
                    }
                    return self.check(*post, a, cx, "after the fresh thread without a frame");
                };
                let c = self.captured.get(slot).copied().unwrap_or(Active { unknown: true, ..NOTHING });
                let inner = if a.unknown || c.unknown {
                    Active { unknown: true, ..a }
                } else if self.root_frames.contains(slot) {
                    // `Frame::root(ctxt, plain property)`: a frame for JUST that property
                    self.root_frame_entered = true;
                    if c.tp.is_none() && (elsewhere || a.tp.is_none()) {
                        // no trace where it was made, none where it is entered
                        NOTHING
                    } else {
                        // made or entered inside a trace: whether a root frame shows that trace is not stated —
                        // nothing inside is judged (what it leaves behind is)
                        cx.dont_care();
                        self.root_frame_entered_in_trace = true;
                        Active { unknown: true, ..a }
                    }
                } else if c.tp.is_some() {
                    // captured inside a trace: the frame carries that traceparent wherever it is entered
                    c
                } else if elsewhere || a.tp.is_none() {
                    // captured outside any trace and entered where nothing is active either
                    NOTHING
                } else {
                    // captured outside any trace, entered inside one: what is visible while it is entered (the
                    // surrounding trace, or nothing) is not stated — nothing inside is judged
                    cx.dont_care();
                    self.foreign_frame(*how, a);
                    Active { unknown: true, ..a }
                };
                let saved_after = elsewhere.then(|| std::mem::replace(&mut self.after_panic, false));
                let saved = std::mem::replace(&mut self.in_header_scope, false);
                self.check(*pre, inner, cx, "inside the captured frame")?;
                self.items(items, inner, cx)?;
                self.in_header_scope = saved;
                if self.unwinding {
                    if c.tp.is_some() && !inner.unknown {
                        self.unwound_through(if elsewhere || *how != RunHow::InFuture { UnwoundScope::IncomingFrame } else { UnwoundScope::IncomingFrameAsync }, c.sampled());
                    } else {
                        // still a frame the unwind has to leave properly
                        self.unwound_scopes += 1;
                    }
                    if !elsewhere {
                        return Ok(());
                    }
                    self.exit_panic_far_thread = true;
                    self.caught(false);
                }
                if let Some(v) = saved_after {
                    self.after_panic = v;
                }
                if let Some(end) = end {
                    self.check(*end, if a.unknown { a } else { NOTHING }, cx, "far thread, after the captured frame was left")?;
                }
                // "the previous traceparent is restored": exactly what it was before the frame was entered
                self.check(*post, a, cx, "after the captured frame was left")
            }
            PItem::Event { id } => self.event(*id, a, cx),
            PItem::Check { id } => self.check(*id, a, cx, "explicit"),
            PItem::Span(n) => {
                let inner = self.span(n, a, cx)?;
                let saved = std::mem::replace(&mut self.in_header_scope, false);
                // a hand-off body runs on other threads: "after a panic on this thread" does not carry over
                let saved_after = n.form.is_handoff().then(|| std::mem::replace(&mut self.after_panic, false));
                self.items(&n.items, inner, cx)?;
                self.in_header_scope = saved;
                if self.unwinding {
                    let what = match n.form {
                        // everything that goes through `Frame::call` (the attribute on a sync fn, `in_fn`, …)
                        Form::ManualEnter | Form::HandoffEnterBack => UnwoundScope::EnterGuard,
                        f if f.is_async() => UnwoundScope::Async,
                        _ => UnwoundScope::SyncCall,
                    };
                    self.unwound_through(what, inner.sampled());
                    if !n.form.is_handoff() {
                        // the unwind goes on through the caller: nothing after this span runs
                        return Ok(());
                    }
                    // the far thread (or the task's own poll loop) catches it; the parent just goes on
                    self.exit_panic_far_thread = true;
                    self.caught(false);
                }
                if let Some(v) = saved_after {
                    self.after_panic = v;
                }
                if let Some(far_end) = n.far_end {
                    self.check(far_end, if a.unknown { a } else { NOTHING }, cx, "far thread, after the span's own frame was left")?;
                }
                self.check(n.post, a, cx, "after span")
            }
            PItem::Join { tasks, post, .. } => {
                let saved_after = self.after_panic;
                for t in tasks {
                    self.after_panic = false;
                    self.items(t, a, cx)?;
                    if self.unwinding {
                        return cx.fail("uncaught-panic-in-join-task", "a planned panic leaves a join task (harness: the normaliser should have removed it)");
                    }
                }
                self.after_panic = saved_after;
                self.check(*post, a, cx, "after join")
            }
            PItem::Push { id, header, items, pre, post, in_async, .. } => {
                if a.unknown {
                    return self.items(items, a, cx);
                }
                let Some(tp) = self.pushed.get(id).copied() else {
                    return cx.fail("push-not-logged", format!("push {id} left no log entry (harness)"));
                };
                let cur = a.tp.unwrap_or(EMPTY_TP);
                match header {
                    Header::Unparsable => {
                        vassert!(cx, tp == cur, "current-traceparent-differs", "push {id}: the fallback pushed Traceparent::current() = {} but the model has {}", tp.text(), cur.text());
                    }
                    Header::SameTrace { .. } => {
                        if cur.trace.is_some() {
                            vassert!(cx, tp.trace == cur.trace, "current-traceparent-differs", "push {id}: built from the active trace id {:x?} but the model has {}", tp.trace, cur.text());
                        }
                    }
                    _ => {}
                }
                let same_trace = cur.trace.is_some() && cur.trace == tp.trace;
                if !tp.valid() {
                    self.invalid_header = true;
                } else {
                    if a.tp.is_some() && !same_trace {
                        self.mismatched_header = true;
                    }
                    if same_trace {
                        self.same_trace_header = true;
                    }
                    if count_spans(items) > 0 {
                        if tp.sampled() {
                            self.incoming_sampled = true
                        } else {
                            self.incoming_unsampled = true
                        }
                    }
                }
                // "keeps the parent only within the same trace"
                let inner = Active { tp: Some(tp), parent: if same_trace { cur.span } else { None }, parent_open: false, unknown: false };
                let saved = std::mem::replace(&mut self.in_header_scope, true);
                let saved_any = self.in_header_scope_any;
                self.in_header_scope_any = saved_any || tp.valid();
                self.check(*pre, inner, cx, "inside pushed header")?;
                self.items(items, inner, cx)?;
                self.in_header_scope = saved;
                self.in_header_scope_any = saved_any;
                if self.unwinding {
                    self.unwound_through(if *in_async { UnwoundScope::IncomingFrameAsync } else { UnwoundScope::IncomingFrame }, tp.sampled());
                    return Ok(());
                }
                self.check(*post, a, cx, "after pushed header")
            }
            PItem::Service { id, items, pre, end, post } => {
                if a.unknown {
                    self.items(items, a, cx)?;
                    self.caught(false);
                    return Ok(());
                }
                let text = self.svc.get(id).cloned().unwrap_or(None);
                let inner = match (a.tp.filter(|t| t.valid()), text) {
                    (Some(want), Some(text)) => {
                        vassert!(cx, text == want.text(), "outgoing-header-differs-from-current", "service hop {id}: sent {text:?}, the model has {}", want.text());
                        Active { tp: Some(want), parent: None, parent_open: false, unknown: false }
                    }
                    (None, None) => NOTHING,
                    (want, text) => {
                        cx.fail("outgoing-header-validity", format!("service hop {id}: sent {text:?}, the model has {:?}", want.map(|t| t.text())))?;
                        Active { unknown: true, ..a }
                    }
                };
                self.downstream_spans += count_spans(items);
                let saved = std::mem::replace(&mut self.in_header_scope, true);
                let saved_after = std::mem::replace(&mut self.after_panic, false);
                let saved_any = std::mem::replace(&mut self.in_header_scope_any, inner.tp.is_some());
                self.check(*pre, inner, cx, "next service, inside received header")?;
                self.items(items, inner, cx)?;
                self.in_header_scope = saved;
                self.in_header_scope_any = saved_any;
                if self.unwinding {
                    // the request handler panicked: the server thread catches it, the received header's
                    // `push().call(..)` frame was unwound through
                    if inner.tp.is_some() {
                        self.unwound_through(UnwoundScope::IncomingFrame, inner.sampled());
                    }
                    self.exit_panic_far_thread = true;
                    self.caught(false);
                }
                self.after_panic = saved_after;
                self.check(*end, NOTHING, cx, "next service, after the request")?;
                self.check(*post, a, cx, "after service hop")
            }
            PItem::Hop { id, carry, fut, items, pre, end, post } => {
                if a.unknown {
                    self.items(items, a, cx)?;
                    self.caught(false);
                    return Ok(());
                }
                if *carry == Carry::FrameCurrent && a.valid() && count_spans(items) > 0 {
                    self.frame_current_hop_with_spans = true;
                }
                let inner = if *carry == Carry::Nothing {
                    NOTHING
                } else {
                    let Some((before, inside)) = self.hop_entry.get(id).copied() else {
                        return cx.fail("hop-not-logged", format!("hop {id} left no log entry (harness)"));
                    };
                    let want = a.tp.unwrap_or(EMPTY_TP);
                    vassert!(cx, before == want, "current-traceparent-differs", "hop {id}: before the hop Traceparent::current() = {} but the model has {}", before.text(), want.text());
                    if inside != before {
                        let sig = if *carry == Carry::FrameCurrent { SIG_FRAME_CURRENT_HOP } else { "carried-traceparent-differs" };
                        cx.fail(
                            sig,
                            format!(
                                "hop {id} ({carry:?}): Traceparent::current() was {} when the frame was captured, but inside that frame on the new thread it is {}",
                                before.text(),
                                inside.text()
                            ),
                        )?;
                        if self.hop_skipped.contains(id) {
                            // listed finding: the interpreter pruned the hop body
                            self.check(*end, NOTHING, cx, "hop thread, after the frames")?;
                            return self.check(*post, a, cx, "after hop");
                        }
                    }
                    match carry {
                        // with nothing active it is the empty traceparent that gets pushed (active, but invalid);
                        // which span_parent the re-pushed traceparent shows is not part of the statement
                        Carry::TraceparentPush | Carry::Both => Active { tp: Some(want), parent: None, parent_open: true, unknown: false },
                        _ => a,
                    }
                };
                let saved_after = std::mem::replace(&mut self.after_panic, false);
                self.check(*pre, inner, cx, "hop thread, inside the carried frames")?;
                self.items(items, inner, cx)?;
                if self.unwinding {
                    // caught at the top of the hop thread, after the carried frames were unwound through
                    if *carry != Carry::Nothing && inner.tp.is_some() {
                        self.unwound_through(if *fut { UnwoundScope::IncomingFrameAsync } else { UnwoundScope::IncomingFrame }, inner.sampled());
                    }
                    self.exit_panic_far_thread = true;
                    self.caught(false);
                }
                self.after_panic = saved_after;
                self.check(*end, NOTHING, cx, "hop thread, after the frames")?;
                self.check(*post, a, cx, "after hop")
            }
        }
    }
}

/// What one run of the program left behind (and the first thing that went wrong while it ran).
type Ran = (Vec<Rec>, Vec<L>, Option<Fail>);

struct Exec<'p> {
    case: &'p Case,
    prog: &'p Prog,
    skip_broken_hops: bool,
}

impl<'p> ctxt::Run for Exec<'p> {
    type Out = Ran;

    fn run<C: rt::RtCtxt>(self, ctxt: C) -> Ran {
        let (rt, rec, log) = rt::build(self.case, ctxt);
        let fail = Mutex::new(None);
        let frames: Vec<Mutex<Option<interp::CapturedFrame<C>>>> = (0..self.prog.frames).map(|_| Mutex::new(None)).collect();

        // a fresh thread per case: the thread-local ACTIVE_TRACEPARENT starts clean whatever happened before
        let ran = std::thread::scope(|s| {
            s.spawn(|| {
                vcore::catch(|| {
                    let env = Env { rt: &rt, log: &log, skip_broken_hops: self.skip_broken_hops, fail: &fail, frames: &frames };
                    interp::run_root(&env, self.prog)
                })
            })
            .join()
        });
        // frames nobody took are closed before the runtime goes
        drop(frames);
        let helper = fail.into_inner().unwrap().map(|f| Fail::new(f.sig, format!("on a helper thread: {}", f.msg)));
        let failed = match ran {
            Ok(Ok(())) => helper,
            Ok(Err(f)) => Some(f),
            Err(_) => Some(Fail::new("panic@case-thread", "the case thread died outside the guarded body")),
        };
        let recs = rec.0.lock().unwrap().clone();
        let log = log.lock().unwrap().clone();
        (recs, log, failed)
    }
}

/// Run the program with the ctxt carried as `via` says and judge what it left.
fn run_and_judge(case: &Case, via: &CtxtVia, prog: &Prog, cx: &mut Cx) -> Res {
    let skip_broken_hops = cx.is_known(SIG_FRAME_CURRENT_HOP);
    let (recs, log, failed) = ctxt::with_ctxt(via, Exec { case, prog, skip_broken_hops });
    if let Some(f) = failed {
        cx.fail(f.sig, f.msg)?;
    }
    judge(case, prog, &recs, &log, cx)
}

pub const SIG_CARRIER: &str = "ctxt-carrier-not-transparent";

pub fn check_case(case: &Case, cx: &mut Cx) -> Res {
    let prog = tree::number(case);
    let first = match run_and_judge(case, &case.ctxt, &prog, cx) {
        Ok(()) => return Ok(()),
        Err(f) => f,
    };
    if case.ctxt.is_plain() {
        return Err(first);
    }
    // The statement failed behind a carrier. If the very same program fails on the concrete ctxt too, the
    // carrier has nothing to do with it. Otherwise name the carrier(s) in the stack that do not hand every
    // `Ctxt` method on unchanged (signature per carrier kind, so that a listed finding steps over exactly one).
    let plain = vcore::with_cx("C18", |scratch| run_and_judge(case, &CtxtVia::default(), &prog, scratch));
    if plain.is_err() {
        return Err(first);
    }
    let mut named = false;
    for kind in case.ctxt.kinds() {
        let wrong = ctxt::carrier_misroutes(kind);
        if !wrong.is_empty() {
            named = true;
            cx.fail(
                format!("{SIG_CARRIER}/{kind}"),
                format!(
                    "the program passes with the concrete TraceparentCtxt but not with {:?}: the `{kind}` impl of Ctxt does not forward every method ({}); first difference: [{}] {}",
                    case.ctxt,
                    wrong.join("; "),
                    first.sig,
                    first.msg
                ),
            )?;
        }
    }
    if named {
        // only listed carriers: stepped over
        return Ok(());
    }
    Err(Fail::new(first.sig, format!("(passes with the concrete TraceparentCtxt, fails with {:?}) {}", case.ctxt, first.msg)))
}

pub fn judge(case: &Case, prog: &Prog, recs: &[Rec], log: &[L], cx: &mut Cx) -> Res {
    let mut j = Judge {
        case,
        span_recs: BTreeMap::new(),
        evt_recs: BTreeMap::new(),
        checks: BTreeMap::new(),
        bodies: BTreeMap::new(),
        calls: BTreeMap::new(),
        pushed: BTreeMap::new(),
        svc: BTreeMap::new(),
        hop_entry: BTreeMap::new(),
        hop_skipped: BTreeSet::new(),
        in_header_scope: false,
        roots_sampled: 0,
        roots_unsampled: 0,
        unsampled_root_with_descendants: false,
        incoming_unsampled: false,
        incoming_sampled: false,
        invalid_header: false,
        mismatched_header: false,
        same_trace_header: false,
        downstream_spans: 0,
        continued_spans: 0,
        frame_current_hop_with_spans: false,
        unsampled_nonroot_spans: 0,
        handoffs: 0,
        handoff_sampled_with_descendants: false,
        handoff_unsampled_nonroot_with_descendants: false,
        result_span_sampled: false,
        result_span_unsampled: false,
        result_span_under_unsampled_header: false,
        complete_with_sampled: false,
        complete_with_unsampled: false,
        in_header_scope_any: false,
        captured: BTreeMap::new(),
        root_frames: BTreeSet::new(),
        root_frame_entered: false,
        root_frame_entered_in_trace: false,
        foreign_in_sampled_span: false,
        foreign_in_unsampled_span: false,
        foreign_under_header: false,
        foreign_how_call: false,
        foreign_how_enter: false,
        foreign_how_future: false,
        unwinding: false,
        unwound_scopes: 0,
        after_panic: false,
        exit_panic_sync_call: false,
        exit_panic_enter_guard: false,
        exit_panic_async: false,
        exit_panic_incoming_frame: false,
        exit_panic_incoming_frame_async: false,
        exit_panic_far_thread: false,
        exit_panic_sampled: false,
        exit_panic_unsampled: false,
        after_panic_new_root: false,
    };

    for r in recs {
        if r.is_span {
            match tree::node_of_mdl(&r.mdl) {
                Some(n) if n < prog.nodes => j.span_recs.entry(n).or_default().push(r),
                _ => cx.fail("unexpected-span-event", format!("span event with module {:?}", r.mdl))?,
            }
        } else {
            match r.eid {
                Some(e) if (e as usize) < prog.events => j.evt_recs.entry(e as usize).or_default().push(r),
                _ => cx.fail("unexpected-event", format!("event {r:?}"))?,
            }
        }
    }

    // the sampler call log, attributed to span starts by position
    let mut open: Option<usize> = None;
    let mut call_no = 0usize;
    let mut migrated_polls = 0usize;
    for l in log {
        match l {
            L::Begin(n) => {
                vassert!(cx, open.is_none(), "begin-nested", "span {n} begins while span {open:?} has not reached its body (harness)");
                open = Some(*n);
            }
            L::Sampler { arg, answer } => {
                match open {
                    Some(n) => j.calls.entry(n).or_default().push((call_no, *arg, *answer)),
                    None => cx.fail("sampler-called-outside-span-start", format!("sampler call {call_no} with {arg:x?} while no span is starting"))?,
                }
                call_no += 1;
            }
            L::Body { node, tp, sc } => {
                vassert!(cx, open == Some(*node), "body-without-begin", "span {node} reached its body while {open:?} was starting (harness)");
                open = None;
                j.bodies.insert(*node, (*tp, *sc));
            }
            L::Check { id, tp, sc } => j.checks.entry(*id).or_default().push((*tp, *sc)),
            L::Pushed { id, tp } => {
                j.pushed.insert(*id, *tp);
            }
            L::ServiceHeader { id, text } => {
                j.svc.insert(*id, text.clone());
            }
            L::HopEntry { id, before, inside } => {
                j.hop_entry.insert(*id, (*before, *inside));
            }
            L::HopSkipped { id } => {
                j.hop_skipped.insert(*id);
            }
            L::PollThreadEnd { tp } => {
                migrated_polls += 1;
                vassert!(cx, *tp == EMPTY_TP, "traceparent-left-on-poll-thread", "after a poll that ran on a fresh thread, that thread's Traceparent::current() is {}", tp.text());
            }
        }
    }

    j.items(&prog.items, NOTHING, cx)?;
    vassert!(cx, !j.unwinding, "uncaught-panic-at-top", "a planned panic reaches the top of the case (harness: the normaliser should have removed it)");
    j.check(prog.final_check, NOTHING, cx, "end of case")?;

    // nothing may be left over: every span event / event / sampler call was claimed by a program point
    if let Some((n, v)) = j.span_recs.iter().find(|(_, v)| !v.is_empty()) {
        cx.fail("unexpected-span-event", format!("{} span event(s) of node {n} not accounted for", v.len()))?;
    }
    if let Some((e, v)) = j.evt_recs.iter().find(|(_, v)| !v.is_empty()) {
        cx.fail("unexpected-event", format!("{} occurrence(s) of event {e} not accounted for", v.len()))?;
    }
    if j.hop_skipped.is_empty() {
        if let Some((n, v)) = j.calls.iter().find(|(_, v)| !v.is_empty()) {
            cx.fail("sampler-call-unaccounted", format!("{} sampler call(s) at the start of node {n} not accounted for", v.len()))?;
        }
    }

    // classification and the non-trivial rule
    let differing_roots = j.roots_sampled > 0 && j.roots_unsampled > 0;
    let any_push = !j.pushed.is_empty();
    let any_hop = prog.hops > 0;
    cx.class_if(differing_roots, "roots-with-differing-decisions");
    cx.class_if(j.roots_sampled + j.roots_unsampled >= 2, "roots>=2");
    cx.class_if(j.unsampled_root_with_descendants, "unsampled-root-with-descendants");
    cx.class_if(j.incoming_unsampled, "incoming-unsampled");
    cx.class_if(j.incoming_sampled, "incoming-sampled");
    cx.class_if(j.invalid_header || j.mismatched_header, "invalid-or-mismatched-header");
    cx.class_if(j.invalid_header, "invalid-header");
    cx.class_if(j.mismatched_header, "mismatched-header");
    cx.class_if(j.same_trace_header, "same-trace-header");
    cx.class_if(j.downstream_spans > 0, "next-service-with-spans");
    cx.class_if(j.continued_spans > 0, "span-continuing-a-received-trace");
    cx.class_if(any_hop, "hop");
    cx.class_if(!j.hop_entry.is_empty(), "thread-hop-carried");
    cx.class_if(j.frame_current_hop_with_spans, "frame-current-hop-with-spans");
    cx.class_if(migrated_polls > 0, "async-join-polls-migrate-threads");
    cx.class_if(j.result_span_unsampled, "form:result-span-in-unsampled-trace");
    cx.class_if(j.result_span_under_unsampled_header, "form:result-span-continuing-unsampled-header");
    cx.class_if(j.result_span_sampled, "form:result-span-in-sampled-trace");
    cx.class_if(j.complete_with_unsampled, "form:complete_with-in-unsampled-trace");
    cx.class_if(j.complete_with_sampled, "form:complete_with-in-sampled-trace");
    cx.class_if(j.foreign_in_sampled_span, "foreign-frame:captured-outside-trace/entered-inside-sampled-span");
    cx.class_if(j.foreign_in_unsampled_span, "foreign-frame:captured-outside-trace/entered-inside-unsampled-span");
    cx.class_if(j.foreign_under_header, "foreign-frame:captured-outside-trace/entered-under-incoming-header");
    cx.class_if(j.foreign_how_call, "foreign-frame:captured-outside-trace/entered-by-call");
    cx.class_if(j.foreign_how_enter, "foreign-frame:captured-outside-trace/entered-by-enter-guard");
    cx.class_if(j.foreign_how_future, "foreign-frame:captured-outside-trace/entered-by-in-future");
    cx.class_if(prog.frames > 0, "captured-frame");
    cx.class_if(j.root_frame_entered, "root-frame:entered");
    cx.class_if(j.root_frame_entered_in_trace, "root-frame:made-or-entered-inside-a-trace");
    // how the ctxt reaches the runtime, and what went through each carrier
    let via = &case.ctxt;
    cx.class(&format!("ctxt-via:{:?}", via.via));
    cx.class_if(j.roots_unsampled > 0, &format!("ctxt-via:{:?}/rejected-root-span", via.via));
    cx.class_if(via.via.is_erased() && !via.nest.is_empty(), "ctxt-nest:1+");
    cx.class_if(via.via.is_erased() && via.nest.len() >= 2, "ctxt-nest:2+");
    cx.class_if(via.via.is_erased() && via.inner.is_some(), "ctxt-inner:erased");
    cx.class_if(via.via.is_erased() && via.inner.as_ref().map_or(false, |ws| !ws.is_empty()), "ctxt-inner:wrapped");
    let mut kinds = via.kinds();
    if kinds.is_empty() {
        kinds.push("concrete");
    }
    for k in kinds {
        // a rejected root span is opened with `open_disabled`, a sampled span with `open_push`
        cx.class_if(j.roots_unsampled > 0, &format!("ctxt-carrier:{k}/rejected-root-span"));
        cx.class_if(j.unsampled_root_with_descendants, &format!("ctxt-carrier:{k}/rejected-root-with-descendants"));
        cx.class_if(j.roots_sampled > 0, &format!("ctxt-carrier:{k}/sampled-root-span"));
        cx.class_if(j.root_frame_entered, &format!("ctxt-carrier:{k}/root-frame"));
    }
    cx.class_if(j.exit_panic_sync_call, "exit:panic-sync-call");
    cx.class_if(j.exit_panic_enter_guard, "exit:panic-enter-guard");
    cx.class_if(j.exit_panic_async, "exit:panic-async");
    cx.class_if(j.exit_panic_incoming_frame, "exit:panic-incoming-frame");
    cx.class_if(j.exit_panic_incoming_frame_async, "exit:panic-incoming-frame-async");
    cx.class_if(j.exit_panic_far_thread, "exit:panic-caught-on-far-thread");
    cx.class_if(j.exit_panic_sampled, "exit:panic-sampled-scope");
    cx.class_if(j.exit_panic_unsampled, "exit:panic-unsampled-scope");
    cx.class_if(j.after_panic_new_root, "after-panic:new-root-trace");
    cx.class_if(j.handoffs > 0, "own-frame-handoff");
    cx.class_if(j.handoff_sampled_with_descendants, "own-frame-handoff-sampled-with-descendants");
    cx.class_if(j.handoff_unsampled_nonroot_with_descendants, "own-frame-handoff-unsampled-nonroot-with-descendants");
    cx.class_if(case.no_sampler, "no-sampler");
    // TraceparentFilter::new() alone, a valid unsampled incoming header, spans that inherit its flag
    cx.class_if(case.no_sampler && case.in_sampled.is_none() && j.incoming_unsampled && j.unsampled_nonroot_spans > 0, "no-sampler-unsampled-incoming-with-spans");
    cx.class_if(case.no_sampler && case.in_sampled.is_none() && j.unsampled_nonroot_spans >= 2, "no-sampler-unsampled-incoming-nested-spans");
    cx.class_if(case.in_sampled.is_some(), "with-sampled-trace-filter");
    cx.class_if(case.in_sampled == Some(false), "sampled-trace-filter(false)");
    cx.class_if(prog.nodes >= 8, "nodes>=8");
    cx.nontrivial(differing_roots || any_push || any_hop);
    Ok(())
}
