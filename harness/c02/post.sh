#!/usr/bin/env bash
# libFuzzer campaign for C02 (target props_tree: runtime trees only, semantic oracle in the target: c02::fuzz_entry).
# The oracle probes every key ~30 ways, ~0.55 k exec/s under ASan on one core: quick 11 k runs (~25 s), thorough
# 3 M runs over 12 jobs.
exec "$(dirname "$0")/../../tools/fuzz_campaign.sh" C02 props_tree "$1" "$2" 11000 3000000 512
