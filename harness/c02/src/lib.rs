//! C02 — property lookup always agrees with enumeration: the first value for a key wins.
//!
//! `model` = case data + reference evaluator, `p` = the dynamic combinator tree over the real emit
//! types, `oracle` = the generic coherence oracle, `host` = where the collection is observed
//! (directly / ambient snapshot / event), `prog` = generated macro call-site programs (engine E5).

pub mod host;
pub mod model;
pub mod oracle;
pub mod p;
pub mod prog;
