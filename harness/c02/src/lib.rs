//! C02 — property lookup always agrees with enumeration: the first value for a key wins.
//!
//! `model` = case data + reference evaluator, `p` = the dynamic combinator tree over the real emit
//! types, `oracle` = the generic coherence oracle, `host` = where the collection is observed
//! (directly / ambient snapshot / event), `prog` = generated macro call-site programs (engine E5).

pub mod host;
pub mod model;
pub mod oracle;
pub mod p;
pub mod prog;

// ---------------------------------------------------------------------------------------------
// Engine E6: runtime-tree cases decoded from fuzzer bytes (libFuzzer target `props_tree`)

/// Byte decoder for the runtime case type (`host::Case`; the program generation of engine E5 is not part of it).
/// Every choice consumes whole bytes from the FRONT of the input (`int_in_range` over at most 256 values = one byte
/// modulo the range), so inputs can be written by hand: see `/verif/fuzzing/mkcorpus.py`. Exhausted input reads
/// as zeros (the tree then closes with one-pair leaves). The domain is the one of the proptest generator
/// `runtime-trees` in `main.rs`: same key and value alphabets, arrays of at most 4 pairs, nesting depth <= 4;
/// the node count is capped at 24.
pub mod fuzz {
    use crate::host::{Case, Host};
    use crate::model::{ExtSpec, Kv, Spec, Val};
    use crate::p::MACRO_SHAPES;
    use arbitrary::{Result, Unstructured};

    pub const KEYS: [&str; 24] = [
        "a", "b", "ab", "A", "", "é", "abc", "éa", "a.b", "a b", "k", "z", "c", "evt_kind", "span_name", "trace_id", "span_id", "span_parent", "ts",
        "ts_start", "metric_name", "metric_agg", "metric_value", "lvl",
    ];
    pub const STRS: [&str; 8] = ["", "x", "text", "é", "1", "true", "0000000000000001", "span"];
    pub const MAX_NODES: u32 = 24;

    fn key(u: &mut Unstructured) -> Result<String> {
        Ok(match u.int_in_range(0..=18)? {
            0u8..=7 => KEYS[u.int_in_range(0..=2)?].to_string(),
            8..=13 => KEYS[u.int_in_range(0..=5)?].to_string(),
            14..=17 => KEYS[u.int_in_range(0..=KEYS.len() - 1)?].to_string(),
            _ => {
                let n = u.int_in_range(0..=3)?;
                (0..n).map(|_| u.arbitrary::<char>()).collect::<Result<String>>()?
            }
        })
    }

    fn val(u: &mut Unstructured) -> Result<Val> {
        Ok(match u.int_in_range(0..=14)? {
            0u8..=3 => Val::I(u.int_in_range(-50i64..=999)?),
            4 => Val::I(u.arbitrary()?),
            5 => Val::U(u.arbitrary()?),
            6 | 7 => Val::F(u.int_in_range(-1000i32..=999)? as f64 / 8.0),
            8 => Val::B(u.arbitrary()?),
            9..=11 => Val::S(STRS[u.int_in_range(0..=STRS.len() - 1)?].to_string()),
            12 => Val::Null,
            13 => Val::Trace(u.arbitrary::<u64>()?.max(1) as u128),
            _ => Val::Span(u.arbitrary::<u64>()?.max(1)),
        })
    }

    fn kvs(u: &mut Unstructured, max: usize) -> Result<Vec<Kv>> {
        let n = u.int_in_range(0..=max)?;
        (0..n).map(|_| Ok((key(u)?, val(u)?))).collect()
    }

    fn id64(u: &mut Unstructured) -> Result<Option<u64>> {
        Ok(match u.int_in_range(0..=3)? {
            0u8 | 1 => Some(u.arbitrary::<u64>()?.max(1)),
            2 => None,
            _ => Some(0),
        })
    }

    fn leaf(u: &mut Unstructured) -> Result<Spec> {
        Ok(match u.int_in_range(0..=25)? {
            0u8..=2 => Spec::Pair((key(u)?, val(u)?), u.int_in_range(0..=1)?),
            3..=11 => Spec::Slice(kvs(u, 5)?),
            12 | 13 => Spec::Array(kvs(u, 4)?),
            14 | 15 => Spec::BTree(kvs(u, 4)?, u.int_in_range(0..=1)?),
            16..=18 => Spec::Hash(kvs(u, 4)?),
            19 => Spec::Empty,
            20 => Spec::Opt(None),
            21 => Spec::Extent(if u.arbitrary::<bool>()? {
                ExtSpec::Point(u.int_in_range(0..=99)?)
            } else {
                ExtSpec::Range(u.int_in_range(0..=99)?, u.int_in_range(0..=99)?)
            }),
            22 => Spec::SpanCtxt { trace: id64(u)?.map(|v| v as u128), parent: id64(u)?, span: id64(u)? },
            23 | 24 => {
                let n = u.int_in_range(0..=2)?;
                let mut layers = Vec::new();
                for _ in 0..n {
                    layers.push((u.int_in_range(0..=6)? == 0u8, kvs(u, 3)?));
                }
                Spec::Frame(layers)
            }
            _ => Spec::Macro(u.int_in_range(0..=MACRO_SHAPES - 1)?, (0..4).map(|_| val(u)).collect::<Result<Vec<Val>>>()?),
        })
    }

    fn name(u: &mut Unstructured) -> Result<String> {
        Ok(STRS[u.int_in_range(0..=STRS.len() - 1)?].to_string())
    }

    pub fn spec(u: &mut Unstructured, depth: u32, budget: &mut u32) -> Result<Spec> {
        *budget = budget.saturating_sub(1);
        // byte 0 (and exhausted input) = leaf
        if depth == 0 || *budget == 0 || u.int_in_range(0..=2)? == 0u8 {
            return leaf(u);
        }
        let d = depth - 1;
        let mut sub = |u: &mut Unstructured| -> Result<Box<Spec>> { Ok(Box::new(spec(u, d, budget)?)) };
        Ok(match u.int_in_range(0..=19)? {
            0u8..=5 => Spec::And(sub(u)?, sub(u)?),
            6 | 7 => {
                let n = u.int_in_range(0..=3)?;
                let mut v = Vec::new();
                for _ in 0..n {
                    v.push(*sub(u)?);
                }
                Spec::Nested(v)
            }
            8 => Spec::Opt(Some(sub(u)?)),
            9 => Spec::Boxed(sub(u)?),
            10 => Spec::Arc(sub(u)?),
            11 => Spec::Ref(sub(u)?),
            12..=14 => Spec::Erased(u.int_in_range(0..=2)?, sub(u)?),
            15 | 16 => Spec::Dedup(sub(u)?),
            17 => Spec::AsMap(sub(u)?),
            18 => Spec::Span { name: name(u)?, inner: sub(u)? },
            _ => Spec::Metric { name: name(u)?, agg: name(u)?, value: val(u)?, inner: sub(u)? },
        })
    }

    fn host(u: &mut Unstructured) -> Result<Host> {
        Ok(match u.int_in_range(0..=16)? {
            0u8..=8 => Host::Direct,
            9..=11 => Host::Ambient { how: u.int_in_range(0..=6)?, root: u.int_in_range(0..=4)? == 0u8, under: kvs(u, 3)? },
            12 => Host::Traceparent { under: kvs(u, 2)? },
            _ => Host::Event { how: u.int_in_range(0..=2)?, ambient: kvs(u, 3)? },
        })
    }

    pub fn decode(data: &[u8]) -> Result<Case> {
        let mut u = Unstructured::new(data);
        let host = host(&mut u)?;
        let nth = u.arbitrary::<u8>()? as u32 * 0x0101_0101;
        let mut budget = MAX_NODES;
        let spec = spec(&mut u, 4, &mut budget)?;
        Ok(Case { spec, host, nth })
    }
}

/// libFuzzer entry (engine E6): decode the bytes into a runtime case and run the SAME oracle as the proptest generator
/// `runtime-trees`. Listed known findings are stepped over by signature (`vcore::with_cx`).
pub fn fuzz_entry(data: &[u8]) -> vcore::Res {
    let Ok(case) = fuzz::decode(data) else { return Ok(()) };
    vcore::with_cx("C02", |cx| host::check_case(&case, cx))
}
