//! Engine E5 for C02: generated programs of macro call sites.
//!
//! A `Site` is the serialisable spec of ONE call site of `emit::props!`, `emit::evt!` (and the
//! levelled `*_evt!`), `emit::emit!` (and `debug!`..`error!`, always with an explicit `rt`), the
//! `evt:` form of `emit!`, or `emit::format!`, together with everything the generator knows about it
//! (final key names, values). `render` turns sites into a Rust source file whose functions build the
//! collection with the real macro and judge it with `gen_support.rs` (the C02 oracle, compiled into
//! the program). `Runner` writes the cargo project, compiles it against the emit tree, runs it and
//! parses one `SITE <i> ok|FAIL <sig> <detail>` line per site.

use std::cell::RefCell;
use std::collections::{BTreeMap, HashMap};
use std::path::PathBuf;
use std::process::Command;

use serde::{Deserialize, Serialize};
use vcore::proptest::prelude::*;
use vcore::{pick, Cx, Res};

// NOTE: `tools/mutant.sh` re-points this path at its scratch copy of the repository.
const REPO: &str = "/repo";
const SUPPORT_RS: &str = include_str!("gen_support.rs");
const HARNESS_DIR: &str = concat!(env!("CARGO_MANIFEST_DIR"), "/..");

#[derive(Serialize, Deserialize, Debug, Clone, Copy, PartialEq)]
pub enum Kind {
    Props,
    Evt,
    Emit,
    EmitEvt,
    Format,
}

#[derive(Serialize, Deserialize, Debug, Clone, Copy, PartialEq)]
pub enum Capture {
    Default,
    AsDebug,
    AsDisplay,
    AsValue,
}

#[derive(Serialize, Deserialize, Debug, Clone, PartialEq)]
pub enum SVal {
    I(i64),
    S(String),
    B(bool),
    /// the float `n + 0.5` (Display and Debug agree on it)
    F(i32),
}

#[derive(Serialize, Deserialize, Debug, Clone, Copy, PartialEq)]
pub enum Place {
    /// `{k}` in the template plus a trailing `k: expr` carrying the attributes
    Hole,
    /// `{k}` in the template only (attributes inside the hole), value from a local named `k`
    HoleOnly,
    /// `{k: expr}` in the template (attributes inside the hole)
    HoleInline,
    /// `k: expr` after the template / in `props!`
    Trailing,
    /// `k` after the template / in `props!`, value from a local named `k`
    TrailingShorthand,
}

#[derive(Serialize, Deserialize, Debug, Clone, PartialEq)]
pub struct Key {
    pub ident: String,
    /// written as `r#ident`
    pub raw: bool,
    /// final name and attribute form: 0 `#[emit::key("n")]`, 1 `#[emit::key(name: "n")]`, 2 `#[emit::key(name: CONST)]`
    pub rename: Option<(String, u8)>,
    /// `#[emit::optional]` with `Some(&v)` (true) or `None` (false)
    pub optional: Option<bool>,
    /// `#[cfg(verif_on)]` (true: compiled in) or `#[cfg(verif_off)]` (false: compiled out)
    pub cfg: Option<bool>,
    pub capture: Capture,
    pub value: SVal,
    pub place: Place,
    /// rotation of the attribute list
    pub attr_order: u8,
    /// value written as a literal (true) or through a local (false) where the place allows both
    pub literal: bool,
}

impl Key {
    pub fn final_name(&self) -> &str {
        self.rename.as_ref().map(|r| r.0.as_str()).unwrap_or(&self.ident)
    }

    pub fn present(&self) -> bool {
        self.cfg != Some(false) && self.optional != Some(false)
    }

    fn in_template(&self) -> bool {
        matches!(self.place, Place::Hole | Place::HoleOnly | Place::HoleInline)
    }

    fn display(&self) -> String {
        match (&self.value, self.capture) {
            (SVal::I(v), _) => v.to_string(),
            (SVal::B(v), _) => v.to_string(),
            (SVal::F(n), Capture::AsDebug) => format!("{:?}", *n as f64 + 0.5),
            (SVal::F(n), _) => format!("{}", *n as f64 + 0.5),
            (SVal::S(s), Capture::AsDebug) => format!("{s:?}"),
            (SVal::S(s), _) => s.clone(),
        }
    }
}

#[derive(Serialize, Deserialize, Debug, Clone, PartialEq)]
pub struct Site {
    pub kind: Kind,
    /// 0 plain macro, 1..=4 the debug/info/warn/error flavour (adds a `lvl` key); not for props!/format!
    pub level: u8,
    /// Emit kinds: 0 `rt: &rt`, 1 `rt: rt`, 2 `rt`
    pub rt_form: u8,
    /// Emit kinds: 0 a generic emitter (judges the un-erased event), 1 `emitter::from_fn` (erased event)
    pub emitter: u8,
    /// props!/evt!: bound with `let` (true) or `match` (false)
    pub let_form: bool,
    pub keys: Vec<Key>,
    /// `props:` base collection: form 0 array expression / local array, 1 `emit::props!{..}` local, 2 `&local`
    pub base: Option<(u8, Vec<(String, i64)>)>,
    /// ambient frame entered around an `emit!` site
    pub ambient: Vec<(String, i64)>,
}

const LEVELS: [&str; 5] = ["", "debug", "info", "warn", "error"];
const PLAIN: [&str; 48] = [
    "a", "b", "c", "d", "e", "f", "x", "y", "z", "k1", "k2", "user", "id", "m", "zz", "aa", "_u", "ab", "B", "Zed", "n0", "é", "ünï", "q9",
    // (for wide sites)
    "bb", "cc", "dd", "ee", "ff", "gg", "hh", "ii", "jj", "kk", "ll", "mm", "nn", "oo", "pp", "qq", "rr", "ss", "tt", "uu", "vv", "ww", "xx", "yy",
];
const RAW: [&str; 5] = ["type", "match", "fn", "loop", "mod"];
const RENAMES: [&str; 22] = [
    "a.b", "with space", "Z", "0", "", "{x}", "é.ü", "zzz", "A", "user.name", "_", "-", "1a", "ZZ", "aaa", "~", "M", "Ab", "a b", "z.a", "lvl2", "K",
];
const BASE_NAMES: [&str; 6] = ["base1", "base2", "p", "q", "base.x", "w"];
const AMBIENT_NAMES: [&str; 5] = ["amb1", "amb2", "r", "s", "amb.y"];
const WORDS: [&str; 6] = ["text", "Rust", "hello world", "x", "0", "é"];

#[derive(Debug, Clone)]
struct RawKey {
    ident: u32,
    raw: bool,
    rename: Option<(u32, u8)>,
    optional: Option<bool>,
    cfg: Option<bool>,
    capture: u8,
    vkind: u8,
    vnum: i32,
    place: u8,
    attr_order: u8,
    literal: bool,
}

fn raw_key() -> impl Strategy<Value = RawKey> {
    (
        (any::<u32>(), prop::bool::weighted(0.08), prop::option::weighted(0.18, (any::<u32>(), 0u8..3))),
        (prop::option::weighted(0.25, prop::bool::weighted(0.6)), prop::option::weighted(0.2, prop::bool::weighted(0.6))),
        (0u8..8, 0u8..6, -500i32..500, 0u8..10, any::<u8>(), any::<bool>()),
    )
        .prop_map(|((ident, raw, rename), (optional, cfg), (capture, vkind, vnum, place, attr_order, literal))| RawKey {
            ident,
            raw,
            rename,
            optional,
            cfg,
            capture,
            vkind,
            vnum,
            place,
            attr_order,
            literal,
        })
}

/// Sites are valid by construction: distinct identifiers, distinct final names, no reserved names,
/// places the macro kind accepts.
pub fn site() -> impl Strategy<Value = Site> {
    (
        (0u8..10, 0u8..8, 0u8..3, 0u8..2, any::<bool>()),
        // mostly 1-8 keys, a solid share of 9-16 and of 17-40 (size thresholds in the lookup)
        prop_oneof![
            4 => prop::collection::vec(raw_key(), 1..=2),
            20 => prop::collection::vec(raw_key(), 3..=5),
            8 => prop::collection::vec(raw_key(), 6..=8),
            7 => prop::collection::vec(raw_key(), 9..=16),
            2 => prop::collection::vec(raw_key(), 17..=17),
            3 => prop::collection::vec(raw_key(), 18..=24),
            2 => prop::collection::vec(raw_key(), 25..=32),
            2 => prop::collection::vec(raw_key(), 33..=40),
        ],
        prop::option::weighted(0.35, (0u8..3, prop::collection::vec((any::<u32>(), prop::bool::weighted(0.2)), 1..=3))),
        prop::collection::vec((any::<u32>(), prop::bool::weighted(0.2)), 0..=2),
        any::<u32>(),
    )
        .prop_map(|((kind, level, rt_form, emitter, let_form), raw_keys, base, ambient, salt)| {
            let kind = match kind {
                0..=2 => Kind::Props,
                3..=4 => Kind::Evt,
                5..=6 => Kind::Emit,
                7 => Kind::EmitEvt,
                _ => Kind::Format,
            };
            let level = if matches!(kind, Kind::Props | Kind::Format) || level > 4 { 0 } else { level };
            let mut plain: Vec<&str> = PLAIN.to_vec();
            let mut rawp: Vec<&str> = RAW.to_vec();
            let mut keys: Vec<Key> = Vec::new();
            for (j, rk) in raw_keys.iter().enumerate() {
                let (ident, raw) = if rk.raw && !rawp.is_empty() {
                    (rawp.remove(pick(rk.ident, rawp.len())).to_string(), true)
                } else {
                    (plain.remove(pick(rk.ident, plain.len())).to_string(), false)
                };
                let num = (salt % 50) as i64 * 100 + j as i64 * 11 + rk.vnum as i64;
                let value = match rk.vkind {
                    0..=2 => SVal::I(num),
                    3..=4 => SVal::S(format!("{}{}", WORDS[(rk.vnum.unsigned_abs() as usize) % WORDS.len()], j)),
                    5 => SVal::B(rk.vnum % 2 == 0),
                    _ => SVal::F(rk.vnum),
                };
                let value = if rk.vkind == 5 && rk.vnum % 3 == 0 { SVal::F(rk.vnum) } else { value };
                let capture = match rk.capture {
                    0..=3 => Capture::Default,
                    4 => Capture::AsDebug,
                    5 => Capture::AsDisplay,
                    6 => Capture::AsValue,
                    _ => Capture::AsDebug,
                };
                // how a captured *string* renders under as_debug (quoted or not) depends on value-bag's
                // primitive detection, which is C19's subject: strings are only captured Display-like here
                let capture = if matches!(value, SVal::S(_)) && capture == Capture::AsDebug { Capture::AsDisplay } else { capture };
                let mut place = match rk.place {
                    0..=2 => Place::Hole,
                    3 => Place::HoleOnly,
                    4 => Place::HoleInline,
                    5..=7 => Place::Trailing,
                    _ => Place::TrailingShorthand,
                };
                if kind == Kind::Props || raw {
                    place = match place {
                        Place::Hole | Place::HoleInline | Place::Trailing => Place::Trailing,
                        _ => Place::TrailingShorthand,
                    };
                }
                keys.push(Key {
                    ident,
                    raw,
                    rename: rk.rename.map(|(p, f)| (p.to_string(), f)), // resolved below
                    optional: rk.optional,
                    cfg: rk.cfg,
                    capture,
                    value,
                    place,
                    attr_order: rk.attr_order,
                    literal: rk.literal,
                });
            }
            // final names: distinct, drawn from the rename pool plus every plain identifier
            let mut taken: Vec<String> = keys.iter().filter(|k| k.rename.is_none()).map(|k| k.ident.clone()).collect();
            if level != 0 {
                taken.push("lvl".into());
            }
            for k in keys.iter_mut() {
                if let Some((p, form)) = k.rename.clone() {
                    let p: u32 = p.parse().unwrap();
                    let pool: Vec<&str> = RENAMES.iter().chain(PLAIN.iter()).copied().filter(|n| !taken.iter().any(|t| t == n)).collect();
                    let name = pool[pick(p, pool.len())].to_string();
                    taken.push(name.clone());
                    // attributes inside a template hole sit inside a string literal: keep braces out of there
                    if (name.contains('{') || name.contains('}')) && matches!(k.place, Place::HoleOnly | Place::HoleInline) {
                        k.place = Place::Hole;
                    }
                    k.rename = Some((name, form));
                }
            }
            let names = |picks: &[(u32, bool)], pool: &[&str], avoid: &[String]| -> Vec<(String, i64)> {
                let mut pool: Vec<String> = pool.iter().map(|s| s.to_string()).collect();
                let own: Vec<String> = keys.iter().filter(|k| k.present()).map(|k| k.final_name().to_string()).collect();
                let mut out: Vec<(String, i64)> = Vec::new();
                for (n, (p, overlap)) in picks.iter().enumerate() {
                    let name = if *overlap && !own.is_empty() { own[pick(*p, own.len())].clone() } else { pool.remove(pick(*p, pool.len())) };
                    if out.iter().any(|(k, _)| *k == name) || avoid.contains(&name) {
                        continue;
                    }
                    out.push((name, 7000 + (salt % 50) as i64 * 10 + n as i64));
                }
                out
            };
            let base = match kind {
                Kind::Props | Kind::Format => None,
                _ => base.map(|(form, picks)| (form, names(&picks, &BASE_NAMES, &[]))),
            };
            let ambient = match kind {
                Kind::Emit | Kind::EmitEvt => names(&ambient, &AMBIENT_NAMES, &[]),
                _ => vec![],
            };
            let mut site = Site { kind, level, rt_form, emitter, let_form, keys, base, ambient };
            if site.single_cfg_key_in_match_macro() {
                site.keys[0].cfg = None;
            }
            site
        })
}

// ---------------------------------------------------------------------------------------------
// the generator's model of a site

impl Site {
    /// (final name, display) of every key the macro-built collection must contain, `lvl` included
    pub fn present(&self) -> Vec<(String, String, &Key)> {
        self.keys.iter().filter(|k| k.present()).map(|k| (k.final_name().to_string(), k.display(), k)).collect()
    }

    pub fn absent(&self) -> Vec<String> {
        let present: Vec<String> = self.present().into_iter().map(|p| p.0).collect();
        let other: Vec<&String> = self.base.iter().flat_map(|b| b.1.iter()).chain(self.ambient.iter()).map(|(k, _)| k).collect();
        let mut out: Vec<String> = Vec::new();
        let mut add = |n: String| {
            if !present.contains(&n) && !other.contains(&&n) && !out.contains(&n) && !(n == "lvl" && self.level != 0) {
                out.push(n);
            }
        };
        for k in &self.keys {
            if !k.present() {
                add(k.final_name().to_string());
            }
            if k.rename.is_some() {
                add(k.ident.clone());
            }
            if k.raw {
                add(format!("r#{}", k.ident));
            }
        }
        add("__absent".into());
        add("".into());
        add("lvl".into());
        if let Some(p) = present.first() {
            add(format!("{p}x"));
            add(p.to_uppercase());
            if let Some((i, _)) = p.char_indices().last() {
                add(p[..i].to_string());
            }
        }
        out
    }

    /// The macro sorts the array by identifier; is it also sorted by final name? (if not: defect D1's class)
    pub fn reorders_sort(&self) -> bool {
        let mut arr: Vec<(&str, &str)> = self.keys.iter().filter(|k| k.cfg != Some(false)).map(|k| (k.ident.as_str(), k.final_name())).collect();
        if self.level != 0 && self.kind != Kind::EmitEvt {
            arr.push(("lvl", "lvl"));
        }
        arr.sort_by(|a, b| a.0.as_bytes().cmp(b.0.as_bytes()));
        arr.windows(2).any(|w| w[0].1.as_bytes() > w[1].1.as_bytes())
    }

    /// Excluded by construction (side finding, not a C02 matter): `emit!`/`format!` expand to
    /// `match (a, b, ..) { (x, y, ..) => .. }`; with exactly ONE key that carries a `#[cfg]` the scrutinee is
    /// the 1-tuple `(a,)` but the pattern is the parenthesised `(x)`, so the call site does not compile.
    pub fn single_cfg_key_in_match_macro(&self) -> bool {
        matches!(self.kind, Kind::Emit | Kind::Format) && self.level == 0 && self.keys.len() == 1 && self.keys[0].cfg.is_some()
    }

    /// Number of elements of the array the macro builds (cfg'd-out keys are not in it, optional-None ones are,
    /// `lvl` is for the levelled macros).
    pub fn array_len(&self) -> usize {
        self.keys.iter().filter(|k| k.cfg != Some(false)).count() + usize::from(self.level != 0 && self.kind != Kind::EmitEvt)
    }

    pub fn nontrivial(&self) -> bool {
        self.keys.len() >= 3 && self.keys.iter().any(|k| k.rename.is_some() || k.optional.is_some() || k.cfg.is_some())
    }

    /// One-step reductions for delta debugging.
    pub fn reductions(&self) -> Vec<Site> {
        let mut out = Vec::new();
        // wide sites: halves and every other key first
        if self.keys.len() >= 6 {
            let n = self.keys.len();
            for keep in [0..n / 2, n / 2..n] {
                let mut s = self.clone();
                s.keys = self.keys[keep].to_vec();
                out.push(s);
            }
            for parity in 0..2 {
                let mut s = self.clone();
                s.keys = self.keys.iter().enumerate().filter(|(i, _)| i % 2 == parity).map(|(_, k)| k.clone()).collect();
                out.push(s);
            }
        }
        if self.keys.len() > 1 {
            for i in 0..self.keys.len() {
                let mut s = self.clone();
                s.keys.remove(i);
                out.push(s);
            }
        }
        if self.base.is_some() {
            let mut s = self.clone();
            s.base = None;
            out.push(s);
        }
        if !self.ambient.is_empty() {
            let mut s = self.clone();
            s.ambient.clear();
            out.push(s);
        }
        if self.level != 0 {
            let mut s = self.clone();
            s.level = 0;
            out.push(s);
        }
        for i in 0..self.keys.len() {
            let k = &self.keys[i];
            let mut push = |f: &dyn Fn(&mut Key)| {
                let mut s = self.clone();
                f(&mut s.keys[i]);
                out.push(s);
            };
            if k.optional.is_some() {
                push(&|k| k.optional = None);
            }
            if k.cfg.is_some() {
                push(&|k| k.cfg = None);
            }
            if k.capture != Capture::Default {
                push(&|k| k.capture = Capture::Default);
            }
            if k.in_template() && k.place != Place::Hole {
                push(&|k| k.place = Place::Hole);
            }
            if k.in_template() {
                push(&|k| k.place = Place::Trailing);
            }
            if k.place == Place::TrailingShorthand {
                push(&|k| k.place = Place::Trailing);
            }
            if !matches!(k.value, SVal::I(_)) {
                push(&|k| k.value = SVal::I(1));
            }
            // dropping a rename may collide with another final name: only when it stays distinct
            if k.rename.is_some() && !self.keys.iter().enumerate().any(|(j, o)| j != i && o.final_name() == k.ident) {
                push(&|k| k.rename = None);
            }
        }
        out.retain(|s| !s.single_cfg_key_in_match_macro());
        out
    }
}

// ---------------------------------------------------------------------------------------------
// rendering

fn lit(s: &str) -> String {
    format!("{s:?}")
}

fn ident(k: &Key) -> String {
    if k.raw {
        format!("r#{}", k.ident)
    } else {
        k.ident.clone()
    }
}

fn attrs(k: &Key, j: usize) -> String {
    let mut v: Vec<String> = Vec::new();
    if let Some(on) = k.cfg {
        v.push(format!("#[cfg({})]", if on { "verif_on" } else { "verif_off" }));
    }
    if let Some((name, form)) = &k.rename {
        v.push(match form % 3 {
            0 => format!("#[emit::key({})]", lit(name)),
            1 => format!("#[emit::key(name: {})]", lit(name)),
            _ => format!("#[emit::key(name: __N{j})]"),
        });
    }
    if k.optional.is_some() {
        v.push("#[emit::optional]".into());
    }
    match k.capture {
        Capture::Default => {}
        Capture::AsDebug => v.push("#[emit::as_debug]".into()),
        Capture::AsDisplay => v.push("#[emit::as_display]".into()),
        Capture::AsValue => v.push("#[emit::as_value]".into()),
    }
    if !v.is_empty() {
        let r = k.attr_order as usize % v.len();
        v.rotate_left(r);
    }
    let mut s = v.join(" ");
    if !s.is_empty() {
        s.push(' ');
    }
    s
}

fn ty(v: &SVal) -> &'static str {
    match v {
        SVal::I(_) => "i64",
        SVal::S(_) => "S0",
        SVal::B(_) => "bool",
        SVal::F(_) => "f64",
    }
}

fn value_lit(v: &SVal) -> String {
    match v {
        SVal::I(v) => format!("{v}i64"),
        SVal::S(s) => lit(s),
        SVal::B(b) => b.to_string(),
        SVal::F(n) => format!("{:?}f64", *n as f64 + 0.5),
    }
}

/// The expression written at the call site for key `j` (not for shorthand places).
fn value_expr(k: &Key, j: usize) -> String {
    match k.optional {
        Some(true) => format!("Some(&__v{j})"),
        Some(false) => format!("None::<&{}>", ty(&k.value)),
        None => {
            if k.literal {
                value_lit(&k.value)
            } else {
                format!("__v{j}")
            }
        }
    }
}

fn field(k: &Key, j: usize) -> String {
    match k.place {
        Place::Hole | Place::Trailing | Place::HoleInline => format!("{}{}: {}", attrs(k, j), ident(k), value_expr(k, j)),
        Place::HoleOnly | Place::TrailingShorthand => format!("{}{}", attrs(k, j), ident(k)),
    }
}

fn typed(k: &Key) -> String {
    if !matches!(k.capture, Capture::Default | Capture::AsValue) {
        return "support::Typed::None".into();
    }
    match &k.value {
        SVal::I(v) => format!("support::Typed::I({v}i64)"),
        SVal::B(b) => format!("support::Typed::B({b})"),
        SVal::S(s) if k.optional.is_none() => format!("support::Typed::S({})", lit(s)),
        _ => "support::Typed::None".into(),
    }
}

pub fn render_site(i: usize, site: &Site) -> String {
    let mut o = String::new();
    let w = &mut o;
    use std::fmt::Write;
    let _ = writeln!(w, "// {}", vcore::serde_json::to_string(site).unwrap_or_default().replace('\n', " "));
    let _ = writeln!(w, "#[allow(unused_variables, unused_mut, non_snake_case, non_upper_case_globals, unused_braces, uncommon_codepoints, mixed_script_confusables)]");
    let _ = writeln!(w, "fn site_{i}() -> support::Outcome {{");

    // ---- the generator's model of the site, as data
    let lvl_first = site.level != 0;
    let mut present: Vec<String> = Vec::new();
    if lvl_first {
        present.push(format!("(\"lvl\", {}, support::Typed::None)", lit(LEVELS[site.level as usize])));
    }
    for (name, disp, k) in site.present() {
        present.push(format!("({}, {}, {})", lit(&name), lit(&disp), typed(k)));
    }
    let absent: Vec<String> = site.absent().iter().map(|s| lit(s)).collect();
    let pairs = |v: &[(String, i64)]| v.iter().map(|(k, n)| format!("({}, {})", lit(k), lit(&n.to_string()))).collect::<Vec<_>>().join(", ");
    let base_pairs = site.base.as_ref().map(|b| pairs(&b.1)).unwrap_or_default();
    let amb_pairs = pairs(&site.ambient);
    let mut holes: Vec<String> = Vec::new();
    let mut tpl = format!("s{i} ");
    let mut hn = 0;
    for (j, k) in site.keys.iter().enumerate() {
        if !k.in_template() || site.kind == Kind::Props {
            continue;
        }
        let marker = format!("|{hn}=");
        hn += 1;
        tpl.push_str(&marker);
        match k.place {
            Place::Hole => tpl.push_str(&format!("{{{}}}", ident(k))),
            _ => tpl.push_str(&format!("{{{}}}", field(k, j))),
        }
        let want = if k.present() { format!("Some({})", lit(&k.display())) } else { "None".to_string() };
        holes.push(format!("({}, {}, {})", lit(&marker), want, lit(k.final_name())));
    }
    tpl.push_str("|end");
    let _ = writeln!(
        w,
        "    static EXP: support::Exp = support::Exp {{ present: &[{}], absent: &[{}], base: &[{}], ambient: &[{}], holes: &[{}], end_marker: \"|end\" }};",
        present.join(", "),
        absent.join(", "),
        base_pairs,
        amb_pairs,
        holes.join(", ")
    );

    // ---- locals
    for (j, k) in site.keys.iter().enumerate() {
        if let Some((name, 2)) = k.rename.as_ref().map(|(n, f)| (n, f % 3)) {
            let _ = writeln!(w, "    const __N{j}: &str = {};", lit(name));
        }
        let _ = writeln!(w, "    let __v{j}: {} = {};", ty(&k.value), value_lit(&k.value));
        if matches!(k.place, Place::HoleOnly | Place::TrailingShorthand) {
            match k.optional {
                Some(true) => {
                    let _ = writeln!(w, "    let {}: Option<&{}> = Some(&__v{j});", ident(k), ty(&k.value));
                }
                Some(false) => {
                    let _ = writeln!(w, "    let {}: Option<&{}> = None;", ident(k), ty(&k.value));
                }
                None => {
                    let _ = writeln!(w, "    let {}: {} = __v{j};", ident(k), ty(&k.value));
                }
            }
        }
    }
    let trailing: Vec<String> = site
        .keys
        .iter()
        .enumerate()
        .filter(|(_, k)| site.kind == Kind::Props || matches!(k.place, Place::Hole | Place::Trailing | Place::TrailingShorthand))
        .map(|(j, k)| field(k, j))
        .collect();
    let trailing_args = if trailing.is_empty() { String::new() } else { format!(", {}", trailing.join(", ")) };

    // base collection
    let mut base_arg = String::new();
    if let Some((form, kvs)) = &site.base {
        let arr = format!("[{}]", kvs.iter().map(|(k, n)| format!("({}, {n}i64)", lit(k))).collect::<Vec<_>>().join(", "));
        let identlike = kvs.iter().all(|(k, _)| {
            let mut cs = k.chars();
            matches!(cs.next(), Some(c) if c.is_ascii_alphabetic())
                && cs.all(|c| c.is_ascii_alphanumeric() || c == '_')
                && !RAW.contains(&k.as_str())
                && !["lvl", "err", "trace_id", "span_id", "span_parent"].contains(&k.as_str())
        });
        match form % 3 {
            1 if identlike => {
                let body = kvs.iter().map(|(k, n)| format!("{k}: {n}i64")).collect::<Vec<_>>().join(", ");
                let _ = writeln!(w, "    let __base = emit::props! {{ {body} }};");
                base_arg = "props: __base, ".into();
            }
            // `props: &local` inside a `let`-bound evt! would borrow a temporary `&&local`
            2 if site.kind == Kind::Emit || (site.kind == Kind::Evt && !site.let_form) => {
                let _ = writeln!(w, "    let __base: [(&str, i64); {}] = {arr};", kvs.len());
                base_arg = "props: &__base, ".into();
            }
            _ => {
                let _ = writeln!(w, "    let __base: [(&str, i64); {}] = {arr};", kvs.len());
                base_arg = "props: __base, ".into();
            }
        }
    }

    let lv = LEVELS[site.level as usize];
    let evt_macro = if site.level == 0 { "emit::evt!".to_string() } else { format!("emit::{lv}_evt!") };
    let emit_macro = if site.level == 0 { "emit::emit!".to_string() } else { format!("emit::{lv}!") };
    let judge = "support::both(support::check_props(__e.props(), &EXP), support::check_msg(&__e.msg().to_string(), &EXP))";
    match site.kind {
        Kind::Props => {
            let body = trailing.join(", ");
            if site.let_form {
                let _ = writeln!(w, "    let __p = emit::props! {{ {body} }};");
                let _ = writeln!(w, "    let __r = support::check_props(&__p, &EXP);");
                let _ = writeln!(w, "    __r");
            } else {
                let _ = writeln!(w, "    match emit::props! {{ {body} }} {{ __p => {{ let __r = support::check_props(&__p, &EXP); __r }} }}");
            }
        }
        Kind::Format => {
            let _ = writeln!(w, "    let __m: String = emit::format!({}{trailing_args});", lit(&tpl));
            let _ = writeln!(w, "    let __r = support::check_msg(&__m, &EXP);");
            let _ = writeln!(w, "    __r");
        }
        Kind::Evt => {
            if site.let_form {
                let _ = writeln!(w, "    let __e = {evt_macro}({base_arg}{}{trailing_args});", lit(&tpl));
                let _ = writeln!(w, "    let __r = {judge};");
                let _ = writeln!(w, "    __r");
            } else {
                let _ = writeln!(w, "    match {evt_macro}({base_arg}{}{trailing_args}) {{ __e => {{ let __r = {judge}; __r }} }}", lit(&tpl));
            }
        }
        Kind::Emit | Kind::EmitEvt => {
            let rt_arg = match site.rt_form % 3 {
                0 => "rt: &rt",
                1 => "rt: rt",
                _ => "rt",
            };
            let _ = writeln!(w, "    let __slot = support::Slot::new();");
            let _ = writeln!(w, "    {{");
            if site.emitter % 2 == 0 {
                let _ = writeln!(w, "        let __em = support::Judge {{ slot: &__slot, exp: &EXP }};");
            } else {
                let _ = writeln!(w, "        let __em = emit::emitter::from_fn(|__e| {{ let __r = {judge}; __slot.0.borrow_mut().push(__r); }});");
            }
            let _ = writeln!(
                w,
                "        let rt = emit::runtime::Runtime::build(__em, emit::Empty, emit::platform::thread_local_ctxt::ThreadLocalCtxt::new(), emit::Empty, emit::Empty);"
            );
            let call = if site.kind == Kind::Emit {
                format!("{emit_macro}({rt_arg}, {base_arg}{}{trailing_args});", lit(&tpl))
            } else {
                // the level goes on the outer macro, the keys on the inner event
                let _ = writeln!(w, "        let __evt = emit::evt!({base_arg}{}{trailing_args});", lit(&tpl));
                format!("{emit_macro}({rt_arg}, evt: {}__evt);", if site.let_form { "&" } else { "" })
            };
            if site.ambient.is_empty() {
                let _ = writeln!(w, "        {call}");
            } else {
                let arr = format!("[{}]", site.ambient.iter().map(|(k, n)| format!("({}, {n}i64)", lit(k))).collect::<Vec<_>>().join(", "));
                let _ = writeln!(w, "        emit::Frame::push(rt.ctxt(), {arr}).call(|| {{ {call} }});");
            }
            let _ = writeln!(w, "    }}");
            let _ = writeln!(w, "    __slot.finish()");
        }
    }
    let _ = writeln!(w, "}}");
    o
}

pub fn render_program(sites: &[Site]) -> String {
    let mut o = String::from("// generated by /verif/harness/c02 (engine E5): one function per macro call site\nuse crate::support;\n\n#[allow(dead_code)]\ntype S0 = &'static str;\n\n");
    for (i, s) in sites.iter().enumerate() {
        o.push_str(&render_site(i, s));
        o.push('\n');
    }
    o.push_str("pub fn run() {\n");
    for i in 0..sites.len() {
        o.push_str(&format!("    support::report({i}, std::panic::catch_unwind(site_{i}));\n"));
    }
    o.push_str("}\n");
    o
}

// ---------------------------------------------------------------------------------------------
// compile + run

#[derive(Debug, Clone, PartialEq)]
pub enum SiteOutcome {
    Ok(u32),
    Fail(String, String),
}

pub struct Runner {
    pub dir: PathBuf,
    cache: RefCell<HashMap<String, SiteOutcome>>,
    pub stats: RefCell<BTreeMap<String, f64>>,
    /// harness-side problems (a generated program that does not build or run): the run is inconclusive
    pub problems: RefCell<Vec<String>>,
}

fn site_key(s: &Site) -> String {
    vcore::serde_json::to_string(s).unwrap_or_default()
}

impl Runner {
    pub fn new() -> Runner {
        let dir = std::env::var("VERIF_GEN_DIR").map(PathBuf::from).unwrap_or_else(|_| PathBuf::from(HARNESS_DIR).join("target").join("gen-c02"));
        Runner { dir, cache: RefCell::new(HashMap::new()), stats: RefCell::new(BTreeMap::new()), problems: RefCell::new(Vec::new()) }
    }

    fn write_project(&self, sites: &[Site]) -> Result<(), String> {
        let src = self.dir.join("src");
        std::fs::create_dir_all(&src).map_err(|e| format!("mkdir {}: {e}", src.display()))?;
        let features = "\"std\", \"rand\", \"sval\", \"serde\", \"implicit_rt\", \"implicit_internal_rt\"";
        let manifest = format!(
            "[package]\nname = \"gen-c02\"\nversion = \"0.0.0\"\nedition = \"2021\"\n\n[workspace]\n\n[dependencies]\nemit = {{ path = \"{REPO}\", features = [{features}] }}\n\n[profile.dev]\ndebug = 0\nincremental = true\n"
        );
        let write = |p: PathBuf, text: &str| -> Result<(), String> {
            // keep mtimes stable when nothing changed (cargo fingerprints)
            if std::fs::read_to_string(&p).map(|old| old == text).unwrap_or(false) {
                return Ok(());
            }
            std::fs::write(&p, text).map_err(|e| format!("write {}: {e}", p.display()))
        };
        write(self.dir.join("Cargo.toml"), &manifest)?;
        let lock = PathBuf::from(HARNESS_DIR).join("Cargo.lock");
        if !self.dir.join("Cargo.lock").exists() {
            std::fs::copy(&lock, self.dir.join("Cargo.lock")).map_err(|e| format!("copy {}: {e}", lock.display()))?;
        }
        write(src.join("main.rs"), "#![allow(unexpected_cfgs)]\nmod sites;\nmod support;\n\nfn main() {\n    sites::run();\n}\n")?;
        write(src.join("support.rs"), SUPPORT_RS)?;
        write(src.join("sites.rs"), &render_program(sites))?;
        Ok(())
    }

    /// Generate, compile and run one program; one outcome per site.
    pub fn run_program(&self, sites: &[Site]) -> Result<Vec<SiteOutcome>, String> {
        self.write_project(sites)?;
        let target = self.dir.join("target");
        let t0 = std::time::Instant::now();
        let out = Command::new("cargo")
            .args(["build", "--offline", "--quiet"])
            .current_dir(&self.dir)
            .env("CARGO_TARGET_DIR", &target)
            .env("RUSTFLAGS", "--cfg verif_on --cfg emit_rs_emit_verif -Awarnings")
            .env_remove("CARGO_ENCODED_RUSTFLAGS")
            .output()
            .map_err(|e| format!("cannot run cargo: {e}"))?;
        *self.stats.borrow_mut().entry("compile_s".into()).or_default() += t0.elapsed().as_secs_f64();
        *self.stats.borrow_mut().entry("programs".into()).or_default() += 1.0;
        if !out.status.success() {
            let err = String::from_utf8_lossy(&out.stderr);
            let first: Vec<&str> = err.lines().filter(|l| !l.trim().is_empty()).take(40).collect();
            return Err(format!("generated program does not compile ({} sites):\n{}", sites.len(), first.join("\n")));
        }
        let run = Command::new(target.join("debug").join("gen-c02")).output().map_err(|e| format!("cannot run generated program: {e}"))?;
        let text = String::from_utf8_lossy(&run.stdout);
        let mut res: Vec<Option<SiteOutcome>> = vec![None; sites.len()];
        for line in text.lines() {
            let mut it = line.splitn(4, ' ');
            if it.next() != Some("SITE") {
                continue;
            }
            let Some(i) = it.next().and_then(|s| s.parse::<usize>().ok()) else { continue };
            if i >= sites.len() {
                continue;
            }
            match it.next() {
                Some("ok") => res[i] = Some(SiteOutcome::Ok(it.next().and_then(|s| s.trim().parse().ok()).unwrap_or(0))),
                Some("FAIL") => {
                    let rest = it.next().unwrap_or("");
                    let (sig, detail) = rest.split_once(' ').unwrap_or((rest, ""));
                    res[i] = Some(SiteOutcome::Fail(sig.to_string(), detail.to_string()));
                }
                _ => {}
            }
        }
        if let Some(missing) = res.iter().position(|r| r.is_none()) {
            return Err(format!(
                "generated program reported nothing for site {missing} (exit {:?}): {}",
                run.status.code(),
                String::from_utf8_lossy(&run.stderr).lines().take(10).collect::<Vec<_>>().join(" | ")
            ));
        }
        let res: Vec<SiteOutcome> = res.into_iter().map(|r| r.unwrap()).collect();
        for (s, r) in sites.iter().zip(res.iter()) {
            self.cache.borrow_mut().insert(site_key(s), r.clone());
        }
        Ok(res)
    }

    /// Delta debugging over a failing site's spec: all one-step reductions are compiled as one
    /// program per round; a reduction that fails with the same signature replaces the site.
    pub fn shrink(&self, site: &Site, sig: &str) -> Site {
        let mut cur = site.clone();
        for _round in 0..30 {
            let cands = cur.reductions();
            if cands.is_empty() {
                break;
            }
            let Ok(res) = self.run_program(&cands) else { break };
            match cands.iter().zip(res.iter()).find(|(_, r)| matches!(r, SiteOutcome::Fail(s, _) if s == sig)) {
                Some((c, _)) => cur = c.clone(),
                None => break,
            }
        }
        cur
    }

    pub fn cached(&self, site: &Site) -> Option<SiteOutcome> {
        self.cache.borrow().get(&site_key(site)).cloned()
    }

    pub fn sig_prefix(site: &Site) -> &'static str {
        if site.reorders_sort() {
            "macro-renamed-key/"
        } else {
            ""
        }
    }

    /// Inside the class of defect D1 every way `get` can disagree with the enumeration is one signature.
    pub fn full_sig(site: &Site, sig: &str) -> String {
        let pre = Self::sig_prefix(site);
        if !pre.is_empty() && sig.starts_with("macro-site/get-") {
            format!("{pre}macro-site/get-disagrees-with-enumeration")
        } else {
            format!("{pre}{sig}")
        }
    }

    /// The oracle of the `macro-sites` generator: look the site's outcome up (compile a one-site
    /// program on replay) and translate it.
    pub fn check(&self, site: &Site, cx: &mut Cx) -> Res {
        cx.class(match site.kind {
            Kind::Props => "site:props!",
            Kind::Evt => "site:evt!",
            Kind::Emit => "site:emit!(rt)",
            Kind::EmitEvt => "site:emit!(evt:)",
            Kind::Format => "site:format!",
        });
        cx.class_if(site.level != 0, "site:levelled");
        cx.class_if(site.keys.iter().any(|k| k.rename.is_some()), "site:renamed");
        cx.class_if(site.keys.iter().any(|k| k.raw), "site:raw-ident");
        cx.class_if(site.keys.iter().any(|k| k.optional == Some(false)), "site:optional-none");
        cx.class_if(site.keys.iter().any(|k| k.optional == Some(true)), "site:optional-some");
        cx.class_if(site.keys.iter().any(|k| k.cfg == Some(false)), "site:cfg-off");
        cx.class_if(site.keys.iter().any(|k| k.cfg == Some(true)), "site:cfg-on");
        cx.class_if(site.keys.iter().any(|k| k.capture != Capture::Default), "site:capture-attr");
        cx.class_if(site.keys.iter().any(|k| k.in_template()) && site.kind != Kind::Props, "site:holes");
        cx.class_if(site.base.is_some(), "site:base-props");
        cx.class_if(!site.ambient.is_empty(), "site:ambient");
        cx.class_if(site.reorders_sort(), "renamed-reorders-sort");
        let n = site.array_len();
        cx.class(match n {
            0..=8 => "site-keys:1-8",
            9..=16 => "site-keys:9-16",
            17..=32 => "site-keys:17-32",
            _ => "site-keys:>32",
        });
        cx.class_if(n == 16 || n == 17, "site-keys:16|17");
        cx.class_if(n >= 9 && site.reorders_sort(), "site-keys>=9-with-reordering-rename");
        cx.class_if(n >= 17 && site.reorders_sort(), "site-keys>=17-with-reordering-rename");
        cx.class_if(n >= 33 && site.reorders_sort(), "site-keys>=33-with-reordering-rename");
        cx.class_if(n >= 17 && !site.reorders_sort(), "site-keys>=17-sorted");
        cx.nontrivial(site.nontrivial());
        let outcome = match self.cached(site) {
            Some(o) => o,
            None if !cx.replaying => {
                // the program this site belongs to did not build / run (already reported)
                cx.class("program-failed");
                return Ok(());
            }
            None => match self.run_program(std::slice::from_ref(site)) {
                Ok(mut v) => v.remove(0),
                Err(e) => {
                    // not a verdict about emit: the caller turns this into exit 2
                    cx.class("program-failed");
                    self.problems.borrow_mut().push(e);
                    return Ok(());
                }
            },
        };
        match outcome {
            SiteOutcome::Ok(dc) => {
                for _ in 0..dc {
                    cx.dont_care();
                }
                Ok(())
            }
            SiteOutcome::Fail(sig, detail) => cx.fail(Self::full_sig(site, &sig), format!("{detail} -- site: {}", site_source_hint(site))),
        }
    }
}

fn site_source_hint(site: &Site) -> String {
    let src = render_site(0, site);
    src.lines().filter(|l| l.contains("emit::") && !l.contains("Runtime::build") && !l.contains("support::Exp")).map(|l| l.trim()).collect::<Vec<_>>().join(" ")
}
