//! placeholder
