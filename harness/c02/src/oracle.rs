//! The C02 oracle, generic over any `Props`: everything is judged against L, the enumeration
//! `for_each` yields on the very object under test.
//!
//!  * `get(k)` is `Some(first value L yields for k)` for every key of L, `None` for keys L never
//!    yields (probe keys: absent names, prefixes, extensions, case variants, `""`);
//!  * `pull::<T>(k)` equals `get(k).and_then(cast::<T>)` for every `T` the harness observes;
//!  * `is_unique()` implies no key occurs twice in L;
//!  * `dedup()` enumerates exactly the keys of L, once each, with the first value, its `get` is
//!    unchanged;
//!  * a visitor that breaks at its n-th call is called exactly n times and `for_each` returns Break;
//!    a visitor that never breaks makes `for_each` return Continue;
//!  * where the harness constructed the content, L equals the model (in order for ordered
//!    collections, as a multiset for hash-backed ones / views).

use std::ops::ControlFlow;

use emit::span::{SpanId, TraceId};
use emit::{Props, Str};
use vcore::{Cx, Fail};

use crate::model::{obs, Casts, Obs, Seg};

pub struct Ctl<'a> {
    pub expect: Option<&'a [Seg]>,
    pub nth: u32,
    /// prepended to every failure signature (used to single out the class of a listed finding)
    pub sig_prefix: &'a str,
    pub what: &'a str,
}

#[derive(Debug, Default, Clone)]
pub struct Seen {
    pub len: usize,
    pub keys: usize,
    pub has_dup: bool,
    pub unique_claim: bool,
    pub list: Vec<(String, String)>,
}

pub fn enumerate<PP: Props + ?Sized>(p: &PP) -> (Vec<(String, Obs)>, bool) {
    let mut out = Vec::new();
    let flow = p.for_each(|k, v| {
        out.push((k.get().to_string(), obs(&v)));
        ControlFlow::Continue(())
    });
    (out, flow.is_break())
}

pub fn probes(keys: &[&String]) -> Vec<String> {
    let mut out: Vec<String> = vec!["".into(), "zz".into(), "\u{0}".into(), "a".into(), "A".into(), "evt_kind".into()];
    for k in keys.iter().take(6) {
        if let Some((i, _)) = k.char_indices().last() {
            out.push(k[..i].to_string());
        }
        if let Some(c) = k.chars().next() {
            out.push(c.to_string());
        }
        out.push(format!("{k}x"));
        out.push(format!("{k}\u{0}"));
        out.push(format!(" {k}"));
        out.push(k.to_uppercase());
        out.push(k.to_lowercase());
    }
    let mut uniq: Vec<String> = Vec::new();
    for p in out {
        if !uniq.contains(&p) {
            uniq.push(p);
        }
    }
    uniq
}

fn pull_casts<PP: Props + ?Sized>(p: &PP, k: &str) -> Casts {
    Casts {
        i: p.pull::<i64, _>(k),
        u: p.pull::<u64, _>(k),
        f: p.pull::<f64, _>(k).map(|f| f.to_bits()),
        b: p.pull::<bool, _>(k),
        s: p.pull::<Str, _>(Str::new_ref(k)).map(|s| s.get().to_string()),
        tid: p.pull::<TraceId, _>(k).map(|t| t.to_u128()),
        sid: p.pull::<SpanId, _>(k).map(|t| t.to_u64()),
        ts: p.pull::<emit::Timestamp, _>(k).map(|t| t.to_string()),
        kind: p.pull::<emit::Kind, _>(k).map(|t| t.to_string()),
    }
}

fn match_unordered(items: &[(String, Vec<Obs>)], chunk: &[(String, Obs)], used: &mut Vec<bool>, at: usize) -> bool {
    if at == items.len() {
        return true;
    }
    let (k, cands) = &items[at];
    for j in 0..chunk.len() {
        if !used[j] && chunk[j].0 == *k && cands.contains(&chunk[j].1) {
            used[j] = true;
            if match_unordered(items, chunk, used, at + 1) {
                return true;
            }
            used[j] = false;
        }
    }
    false
}

fn short(l: &[(String, Obs)]) -> String {
    let v: Vec<String> = l.iter().map(|(k, o)| format!("{k:?}={}", o.disp)).collect();
    format!("[{}]", v.join(", "))
}

fn short_expect(segs: &[Seg]) -> String {
    let v: Vec<String> = segs
        .iter()
        .map(|s| {
            let it: Vec<String> = s
                .items
                .iter()
                .map(|(k, c)| format!("{k:?}={}", c.iter().map(|o| o.disp.clone()).collect::<Vec<_>>().join("|")))
                .collect();
            format!("{}[{}]", if s.ordered { "ordered" } else { "unordered" }, it.join(", "))
        })
        .collect();
    v.join(" ++ ")
}

/// A visitor that breaks at its n-th call: returns (calls made, for_each returned Break).
fn stop_at<PP: Props + ?Sized>(p: &PP, n: usize) -> (usize, bool) {
    let mut calls = 0usize;
    let flow = p.for_each(|_, _| {
        calls += 1;
        if calls == n {
            ControlFlow::Break(())
        } else {
            ControlFlow::Continue(())
        }
    });
    (calls, flow.is_break())
}

fn check_early_stop<PP: Props + ?Sized>(p: &PP, len: usize, nth: u32, pre: &str, what: &str, cx: &mut Cx) -> Result<(), Fail> {
    let mut ns: Vec<usize> = (1..=len.min(6)).collect();
    ns.push(len);
    ns.push(len + 1);
    // around the usual size thresholds
    for t in [8usize, 15, 16, 17, 31, 32, 33] {
        if t <= len {
            ns.push(t);
        }
    }
    if len > 0 {
        ns.push(1 + vcore::pick(nth, len));
        ns.push(len - 1);
    }
    ns.sort();
    ns.dedup();
    for n in ns {
        if n == 0 {
            continue;
        }
        let (calls, broke) = stop_at(p, n);
        if n <= len {
            if calls > n {
                cx.fail(format!("{pre}early-stop/visitor-called-after-break"), format!("{what}: visitor broke at call {n} of {len} but was called {calls} times"))?;
            } else if calls < n {
                cx.fail(format!("{pre}early-stop/enumeration-shorter-than-before"), format!("{what}: enumeration of {len} entries made only {calls} calls when asked to stop at {n}"))?;
            } else if !broke {
                cx.fail(format!("{pre}early-stop/returned-continue-after-break"), format!("{what}: visitor broke at call {n} of {len} but for_each returned Continue"))?;
            }
        } else {
            if calls != len {
                cx.fail(format!("{pre}early-stop/enumeration-length-changed"), format!("{what}: full enumeration made {calls} calls, expected {len}"))?;
            } else if broke {
                cx.fail(format!("{pre}enum/break-without-visitor-break"), format!("{what}: visitor never broke but for_each returned Break"))?;
            }
        }
    }
    Ok(())
}

pub fn check_props<PP: Props + ?Sized>(p: &PP, ctl: &Ctl, cx: &mut Cx) -> Result<Seen, Fail> {
    let pre = ctl.sig_prefix;
    let what = ctl.what;
    let (l, broke) = enumerate(p);
    if broke {
        cx.fail(format!("{pre}enum/break-without-visitor-break"), format!("{what}: visitor never broke but for_each returned Break; L={}", short(&l)))?;
    }
    let (l2, _) = enumerate(p);
    if l != l2 {
        // the property does not promise a stable order between two enumerations of one object;
        // without one "first" is not observable, so nothing can be judged
        cx.dont_care();
        cx.class("dont-care:unstable-enumeration");
        return Ok(Seen::default());
    }

    // ---- L against the model
    if let Some(expect) = ctl.expect {
        let mut i = 0usize;
        let mut ok = true;
        for seg in expect {
            let n = seg.items.len();
            if i + n > l.len() {
                ok = false;
                break;
            }
            let chunk = &l[i..i + n];
            if seg.ordered {
                for (j, (k, c)) in seg.items.iter().enumerate() {
                    if chunk[j].0 != *k || !c.contains(&chunk[j].1) {
                        ok = false;
                    }
                }
            } else {
                let mut used = vec![false; n];
                if !match_unordered(&seg.items, chunk, &mut used, 0) {
                    ok = false;
                }
            }
            if !ok {
                break;
            }
            i += n;
        }
        if ok && i != l.len() {
            ok = false;
        }
        if !ok {
            cx.fail(
                format!("{pre}enum/differs-from-constructed-content"),
                format!("{what}: enumeration {} but the collection was built from {}", short(&l), short_expect(expect)),
            )?;
        }
    }

    // ---- keys, first values
    let mut keys: Vec<&String> = Vec::new();
    for (k, _) in &l {
        if !keys.contains(&k) {
            keys.push(k);
        }
    }
    let has_dup = keys.len() != l.len();
    let first = |k: &str| l.iter().find(|(k2, _)| k2 == k).map(|(_, o)| o);
    let probe_keys = probes(&keys);
    let mut all: Vec<&str> = keys.iter().map(|k| k.as_str()).collect();
    for p in &probe_keys {
        if !all.contains(&p.as_str()) {
            all.push(p);
        }
    }

    // ---- get / pull
    // inside the class of a listed finding every way `get` can disagree with L is one signature
    let get_sig = |specific: &str| if pre.is_empty() { specific.to_string() } else { format!("{pre}get-disagrees-with-enumeration") };
    for (n, k) in all.iter().enumerate() {
        let expected = first(k);
        // alternate the `ToStr` flavour the key is passed as
        let got = match n % 3 {
            0 => p.get(*k).map(|v| obs(&v)),
            1 => p.get(Str::new_ref(k)).map(|v| obs(&v)),
            _ => p.get(k.to_string()).map(|v| obs(&v)),
        };
        match (expected, &got) {
            (None, None) => {}
            (Some(e), Some(g)) if e == g => {}
            (Some(e), None) => {
                cx.fail(
                    get_sig("get/none-for-enumerated-key"),
                    format!("{what}: enumeration yields {k:?}={} but get({k:?}) is None; L={}", e.disp, short(&l)),
                )?;
                continue;
            }
            (None, Some(g)) => {
                cx.fail(
                    get_sig("get/some-for-key-never-enumerated"),
                    format!("{what}: get({k:?}) = {} but enumeration never yields that key; L={}", g.disp, short(&l)),
                )?;
                continue;
            }
            (Some(e), Some(g)) => {
                let later = l.iter().filter(|(k2, _)| k2 == k).any(|(_, o)| o == g);
                let sig = if later { "get/not-the-first-enumerated-value" } else { "get/value-never-enumerated-for-key" };
                cx.fail(
                    get_sig(sig),
                    format!("{what}: get({k:?}) = {} ({:?}) but the first enumerated value is {} ({:?}); L={}", g.disp, g.casts, e.disp, e.casts, short(&l)),
                )?;
                continue;
            }
        }
        let pulled = pull_casts(p, k);
        let want = expected.map(|e| e.casts.clone()).unwrap_or_default();
        if pulled != want {
            cx.fail(
                format!("{pre}pull/differs-from-get-then-cast"),
                format!("{what}: pull({k:?}) = {pulled:?} but get({k:?}).and_then(cast) = {want:?}"),
            )?;
        }
    }

    // ---- is_unique
    let unique_claim = p.is_unique();
    if unique_claim && has_dup {
        cx.fail(
            format!("{pre}is_unique/claims-unique-but-enumerates-key-twice"),
            format!("{what}: is_unique() is true but L={}", short(&l)),
        )?;
    }

    // ---- dedup
    {
        let r: &PP = p;
        let d = Props::dedup(&r);
        let (dl, dbroke) = enumerate(d);
        if dbroke {
            cx.fail(format!("{pre}dedup/break-without-visitor-break"), format!("{what}: dedup().for_each returned Break"))?;
        }
        let mut seen: Vec<&String> = Vec::new();
        let mut bad = false;
        for (k, o) in &dl {
            if seen.contains(&k) {
                cx.fail(format!("{pre}dedup/enumerates-key-twice"), format!("{what}: dedup() yields {k:?} twice: {} from L={}", short(&dl), short(&l)))?;
                bad = true;
                break;
            }
            seen.push(k);
            match first(k) {
                None => {
                    cx.fail(format!("{pre}dedup/key-never-enumerated"), format!("{what}: dedup() yields {k:?} which L={} never does", short(&l)))?;
                    bad = true;
                    break;
                }
                Some(e) if e != o => {
                    cx.fail(
                        format!("{pre}dedup/not-the-first-value"),
                        format!("{what}: dedup() yields {k:?}={} but the first enumerated value is {}; L={}", o.disp, e.disp, short(&l)),
                    )?;
                    bad = true;
                    break;
                }
                _ => {}
            }
        }
        if !bad && seen.len() != keys.len() {
            cx.fail(
                format!("{pre}dedup/drops-key"),
                format!("{what}: dedup() yields {} but L={} has {} distinct keys", short(&dl), short(&l), keys.len()),
            )?;
        }
        if !d.is_unique() {
            // not a violation of the text (a collection may under-claim), only recorded
            cx.class("dedup-does-not-claim-unique");
        }
        for k in &all {
            let a = p.get(*k).map(|v| obs(&v));
            let b = d.get(*k).map(|v| obs(&v));
            if a != b {
                cx.fail(
                    format!("{pre}dedup/get-changed"),
                    format!("{what}: get({k:?}) = {:?} but dedup().get({k:?}) = {:?}", a.map(|o| o.disp), b.map(|o| o.disp)),
                )?;
            }
        }
        check_early_stop(d, dl.len(), ctl.nth, &format!("{pre}dedup/"), what, cx)?;
    }

    // ---- early stop
    check_early_stop(p, l.len(), ctl.nth, pre, what, cx)?;

    Ok(Seen {
        len: l.len(),
        keys: keys.len(),
        has_dup,
        unique_claim,
        list: l.iter().map(|(k, o)| (k.clone(), o.disp.clone())).collect(),
    })
}
