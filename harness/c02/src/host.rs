//! Where the collection under test is observed: directly, as an ambient-context snapshot inside
//! `Ctxt::with_current` (generic / `Option<_>` / `dyn ErasedCtxt` / `emit_traceparent`), or as the
//! properties of an event built by `emit_core::emit` (own ++ ambient).

use std::cell::RefCell;

use emit::ctxt::ErasedCtxt;
use emit::event::ToEvent;
use emit::props::ErasedProps;
use emit::{Ctxt, Emitter, Empty, Event};
use serde::{Deserialize, Serialize};
use vcore::{Cx, Fail, Res};

use crate::model::{ambient_items, flatten_pub, segs, Kv, Obs, Seg, Spec};
use crate::oracle::{check_props, enumerate, Ctl, Seen};
use crate::p::{build, ctxt, macro_shape_len, macro_shape_reorders, with_layers, P};

#[derive(Serialize, Deserialize, Debug, Clone)]
pub enum Host {
    /// the oracle runs on the collection itself
    Direct,
    /// the collection is pushed (`root`: as a root frame) over an outer layer `under`; the oracle
    /// runs on `Ctxt::Current` inside `with_current`. `how`: 0 `ThreadLocalCtxt`, 1 `&ThreadLocalCtxt`,
    /// 2 `Option<ThreadLocalCtxt>` (Some → `Option<Slot<_>>`), 3 `&dyn ErasedCtxt` (→ `ErasedCurrent`),
    /// 4 `Box<dyn ErasedCtxt + Send + Sync>`, 5 `Arc<ThreadLocalCtxt>`, 6 `Option::<ThreadLocalCtxt>::None`
    Ambient { how: u8, root: bool, under: Vec<Kv> },
    /// pushed through `emit_traceparent::TraceparentCtxt<ThreadLocalCtxt>`; oracle on `TraceparentCtxtProps`
    Traceparent { under: Vec<Kv> },
    /// the collection is the own properties of an event passed to `emit_core::emit` while `ambient` is
    /// the entered frame; the oracle runs on the event the emitter receives. `how`: 0 generic
    /// emitter, 1 `emitter::from_fn` (erased event), 2 through `Runtime::emit`
    Event { how: u8, ambient: Vec<Kv> },
}

#[derive(Serialize, Deserialize, Debug, Clone)]
pub struct Case {
    pub spec: Spec,
    pub host: Host,
    pub nth: u32,
}

fn kv_items(kvs: &[Kv]) -> Vec<(String, Vec<Obs>)> {
    kvs.iter().map(|(k, v)| (k.clone(), vec![crate::model::obs_of_val(v)])).collect()
}

struct ProbeEmitter<'a, 'b, 'c> {
    ctl: &'a Ctl<'a>,
    state: RefCell<(&'b mut Cx<'c>, Option<Result<Seen, Fail>>, u32)>,
}

impl<'a, 'b, 'c> Emitter for ProbeEmitter<'a, 'b, 'c> {
    fn emit<E: ToEvent>(&self, evt: E) {
        let evt = evt.to_event();
        let mut st = self.state.borrow_mut();
        st.2 += 1;
        let r = check_props(evt.props(), self.ctl, st.0);
        st.1 = Some(r);
    }

    fn blocking_flush(&self, _: std::time::Duration) -> bool {
        true
    }
}

fn pairs(kvs: &[Kv]) -> Vec<(String, crate::model::RVal)> {
    kvs.iter().map(|(k, v)| (k.clone(), crate::model::RVal::from(v))).collect()
}

pub fn check_case(c: &Case, cx: &mut Cx) -> Res {
    // ---- classification (from the case, not from the outcome)
    let depth = c.spec.depth();
    let mut erased = false;
    let mut hash = false;
    let mut d1_class = false;
    let mut wide_macro = false;
    let mut wide_macro_reorders = false;
    let mut names: Vec<&'static str> = Vec::new();
    c.spec.walk(&mut |s| {
        if !names.contains(&s.name()) {
            names.push(s.name());
        }
        match s {
            Spec::Erased(..) => erased = true,
            Spec::Hash(..) | Spec::Frame(..) => hash = true,
            Spec::Macro(shape, _) => {
                if macro_shape_reorders(*shape) {
                    d1_class = true;
                }
                if macro_shape_len(*shape) > 16 {
                    wide_macro = true;
                    wide_macro_reorders |= macro_shape_reorders(*shape);
                }
            }
            _ => {}
        }
    });
    for n in &names {
        cx.class(&format!("node:{n}"));
    }
    match &c.host {
        Host::Direct => cx.class("host:direct"),
        Host::Ambient { how, .. } => {
            hash = true;
            if matches!(how, 3 | 4) {
                erased = true;
            }
            cx.class(&format!("host:ambient-{}", ["generic", "ref", "option-some", "erased", "erased-box-send-sync", "arc", "option-none"][(*how % 7) as usize]));
        }
        Host::Traceparent { .. } => {
            hash = true;
            cx.class("host:traceparent")
        }
        Host::Event { how, .. } => {
            hash = true;
            if *how % 3 == 1 {
                erased = true;
            }
            cx.class(&format!("host:event-{}", ["generic", "from_fn-erased", "runtime"][(*how % 3) as usize]));
        }
    }
    cx.class_if(erased, "erased");
    cx.class_if(hash, "hash-backed");
    cx.class_if(depth >= 2, "depth>=2");
    cx.class_if(d1_class, "macro-renamed-reorders-sort");
    cx.class_if(wide_macro, "macro-props->16");
    cx.class_if(wide_macro_reorders, "macro-props->16-reordering-rename");

    // a listed finding is stepped over by exact signature; the class it belongs to (a macro-built
    // collection whose renamed key sorts differently from its identifier) gets its own prefix so that
    // nothing else is masked
    let prefix = if d1_class { "macro-renamed-key/" } else { "" };

    let p: P = build(&c.spec);
    let expect: Vec<Seg> = segs(&c.spec);

    let seen: Seen = match &c.host {
        Host::Direct => {
            let ctl = Ctl { expect: Some(&expect), nth: c.nth, sig_prefix: prefix, what: "collection" };
            check_props(&p, &ctl, cx)?
        }
        Host::Ambient { how, root, under } => {
            let how = *how % 7;
            let exp_items = if how == 6 {
                vec![]
            } else {
                ambient_items(&[(false, kv_items(under)), (*root, flatten_pub(&expect))])
            };
            let exp = [Seg { ordered: false, items: exp_items }];
            let ctl = Ctl { expect: Some(&exp), nth: c.nth, sig_prefix: prefix, what: "ambient snapshot" };
            let under_p = pairs(under);
            let under_ref: &[(String, crate::model::RVal)] = &under_p;
            let layers: [(bool, &dyn ErasedProps); 2] = [(false, &under_ref), (*root, &p)];
            let base = ctxt();
            match how {
                0 => with_layers(base, &layers, || base.with_current(|cur| check_props(cur, &ctl, cx)))?,
                1 => {
                    let c2 = &base;
                    with_layers(c2, &layers, || c2.with_current(|cur| check_props(cur, &ctl, cx)))?
                }
                2 => {
                    let c2 = Some(base);
                    with_layers(&c2, &layers, || c2.with_current(|cur| check_props(cur, &ctl, cx)))?
                }
                3 => {
                    let c2: &dyn ErasedCtxt = &base;
                    with_layers(c2, &layers, || c2.with_current(|cur| check_props(cur, &ctl, cx)))?
                }
                4 => {
                    let c2: Box<dyn ErasedCtxt + Send + Sync> = Box::new(base);
                    with_layers(&c2, &layers, || c2.with_current(|cur| check_props(cur, &ctl, cx)))?
                }
                5 => {
                    let c2 = std::sync::Arc::new(base);
                    with_layers(&c2, &layers, || c2.with_current(|cur| check_props(cur, &ctl, cx)))?
                }
                _ => {
                    let c2: Option<emit::platform::thread_local_ctxt::ThreadLocalCtxt> = None;
                    with_layers(&c2, &layers, || c2.with_current(|cur| check_props(cur, &ctl, cx)))?
                }
            }
        }
        Host::Traceparent { under } => {
            // what the traceparent view enumerates for the three trace keys depends on sampling
            // state; only coherence is judged, plus: every other pushed key must be enumerated
            let ctl = Ctl { expect: None, nth: c.nth, sig_prefix: prefix, what: "traceparent ctxt props" };
            let under_p = pairs(under);
            let under_ref: &[(String, crate::model::RVal)] = &under_p;
            let layers: [(bool, &dyn ErasedProps); 2] = [(false, &under_ref), (false, &p)];
            let tp = emit_traceparent::TraceparentCtxt::new(ctxt());
            let seen = with_layers(&tp, &layers, || tp.with_current(|cur| check_props(cur, &ctl, cx)))?;
            for (k, _) in flatten_pub(&expect).iter().chain(kv_items(under).iter()) {
                if !matches!(k.as_str(), "trace_id" | "span_id" | "span_parent") && !seen.list.iter().any(|(k2, _)| k2 == k) {
                    cx.fail(format!("{prefix}traceparent/pushed-key-not-enumerated"), format!("pushed key {k:?} missing from {:?}", seen.list))?;
                }
            }
            let after = emit_traceparent::Traceparent::current();
            if after.is_valid() {
                cx.fail("harness/traceparent-not-clean", format!("active traceparent after the case: {after}"))?;
            }
            seen
        }
        Host::Event { how, ambient } => {
            let mut exp = expect.clone();
            exp.push(Seg { ordered: false, items: ambient_items(&[(false, kv_items(ambient))]) });
            let ctl = Ctl { expect: Some(&exp), nth: c.nth, sig_prefix: prefix, what: "event props (own ++ ambient)" };
            let amb_p = pairs(ambient);
            let amb_ref: &[(String, crate::model::RVal)] = &amb_p;
            let layers: [(bool, &dyn ErasedProps); 1] = [(false, &amb_ref)];
            let base = ctxt();
            let evt = Event::new(emit::Path::new_raw("m"), emit::Template::literal("t"), Empty, &p);
            let (res, calls) = match *how % 3 {
                0 => {
                    let em = ProbeEmitter { ctl: &ctl, state: RefCell::new((cx, None, 0)) };
                    with_layers(base, &layers, || emit::emit(&em, Empty, base, Empty, &evt));
                    let st = em.state.into_inner();
                    (st.1, st.2)
                }
                1 => {
                    let state: RefCell<(&mut Cx, Option<Result<Seen, Fail>>, u32)> = RefCell::new((cx, None, 0));
                    let em = emit::emitter::from_fn(|evt| {
                        let mut st = state.borrow_mut();
                        st.2 += 1;
                        let r = check_props(evt.props(), &ctl, st.0);
                        st.1 = Some(r);
                    });
                    with_layers(base, &layers, || emit::emit(&em, Empty, base, Empty, &evt));
                    drop(em);
                    let st = state.into_inner();
                    (st.1, st.2)
                }
                _ => {
                    let em = ProbeEmitter { ctl: &ctl, state: RefCell::new((cx, None, 0)) };
                    {
                        let rt = emit::runtime::Runtime::build(&em, Empty, base, Empty, Empty);
                        with_layers(base, &layers, || rt.emit(&evt));
                    }
                    let st = em.state.into_inner();
                    (st.1, st.2)
                }
            };
            if calls != 1 {
                return Err(Fail::new("harness/event-not-delivered-once", format!("emitter called {calls} times")));
            }
            res.unwrap()?
        }
    };

    // the per-thread ambient context must be empty again
    let (left, _) = ctxt().with_current(|cur| enumerate(cur));
    if !left.is_empty() {
        return Err(Fail::new("harness/ambient-not-clean", format!("ambient context not empty after the case: {left:?}")));
    }

    cx.class_if(seen.has_dup, "duplicates");
    cx.class_if(seen.unique_claim, "claims-unique");
    cx.class_if(seen.len == 0, "empty-enumeration");
    cx.class_if(seen.len >= 6, "len>=6");
    cx.class_if(seen.len > 16, "len>16");
    cx.class_if(seen.len > 32, "len>32");
    cx.class_if(seen.keys > 16, "distinct-keys>16");
    cx.class_if(seen.keys > 32, "distinct-keys>32");
    {
        // a dedup() node whose input enumerates more than 16 entries (model side)
        let mut wide_dedup = false;
        c.spec.walk(&mut |s| {
            if let Spec::Dedup(inner) = s {
                if flatten_pub(&segs(inner)).len() > 16 {
                    wide_dedup = true;
                }
            }
        });
        cx.class_if(wide_dedup || seen.len > 16, "dedup-over->16");
    }
    cx.nontrivial(seen.has_dup || depth >= 2);
    Ok(())
}
