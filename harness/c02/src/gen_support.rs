// Support code compiled into every generated macro-call-site program (engine E5). It is the C02
// oracle for one site: the collection the macro built is judged against its own enumeration and
// against the generator's model of the site (final key names and values). Written to
// `src/support.rs` of the generated crate verbatim.
#![allow(dead_code)]

use emit::Props;
use std::ops::ControlFlow;

pub enum Typed {
    None,
    I(i64),
    B(bool),
    S(&'static str),
}

pub struct Exp {
    /// own keys that must be present: final name, Display text, typed value
    pub present: &'static [(&'static str, &'static str, Typed)],
    /// names that must not be found: optional-None keys, cfg'd-out keys, identifiers of renamed
    /// keys (unless they are the final name of another key), absent probes
    pub absent: &'static [&'static str],
    /// `props:` base collection and ambient frame, name + Display text
    pub base: &'static [(&'static str, &'static str)],
    pub ambient: &'static [(&'static str, &'static str)],
    /// template holes in order: marker text preceding the hole, expected rendering (None = the
    /// property leaves it open: optional-None or cfg'd-out hole), final name of the hole
    pub holes: &'static [(&'static str, Option<&'static str>, &'static str)],
    pub end_marker: &'static str,
}

pub type Outcome = Result<u32, (String, String)>;

fn fail<T>(sig: &str, detail: String) -> Result<T, (String, String)> {
    Err((sig.to_string(), detail))
}

fn enumerate<P: Props + ?Sized>(p: &P) -> (Vec<(String, String)>, bool) {
    let mut out = Vec::new();
    let flow = p.for_each(|k, v| {
        out.push((k.get().to_string(), v.to_string()));
        ControlFlow::Continue(())
    });
    (out, flow.is_break())
}

fn stop_at<P: Props + ?Sized>(p: &P, n: usize) -> (usize, bool) {
    let mut calls = 0usize;
    let flow = p.for_each(|_, _| {
        calls += 1;
        if calls == n {
            ControlFlow::Break(())
        } else {
            ControlFlow::Continue(())
        }
    });
    (calls, flow.is_break())
}

fn multiset_eq(a: &[(String, String)], b: &[(String, String)]) -> bool {
    let mut a: Vec<_> = a.to_vec();
    let mut b: Vec<_> = b.to_vec();
    a.sort();
    b.sort();
    a == b
}

/// The collection-level oracle. Returns the number of don't-care outcomes.
pub fn check_props<P: Props + ?Sized>(p: &P, exp: &Exp) -> Outcome {
    let (l, broke) = enumerate(p);
    if broke {
        return fail("macro-site/enum-break-without-visitor-break", format!("L={l:?}"));
    }

    // enumeration = exactly the expected names with the expected values (any order)
    let mut want: Vec<(String, String)> = Vec::new();
    for (k, d, _) in exp.present {
        want.push((k.to_string(), d.to_string()));
    }
    for (k, d) in exp.base.iter().chain(exp.ambient.iter()) {
        want.push((k.to_string(), d.to_string()));
    }
    if !multiset_eq(&l, &want) {
        for a in exp.absent {
            if l.iter().any(|(k, _)| k == a) && !want.iter().any(|(k, _)| k == a) {
                return fail("macro-site/absent-key-enumerated", format!("key {a:?} must not exist; L={l:?}"));
            }
        }
        return fail("macro-site/enumeration-differs-from-site", format!("L={l:?} expected (any order) {want:?}"));
    }

    let first = |k: &str| l.iter().find(|(k2, _)| k2 == k).map(|(_, d)| d.clone());
    let overlaps = |k: &str| l.iter().filter(|(k2, _)| k2 == k).count() > 1;

    // lookup of every enumerated key = first enumerated value
    let mut keys: Vec<&String> = Vec::new();
    for (k, _) in &l {
        if !keys.contains(&k) {
            keys.push(k);
        }
    }
    for k in &keys {
        let got = p.get(k.as_str()).map(|v| v.to_string());
        let e = first(k);
        if got != e {
            let sig = if got.is_none() { "macro-site/get-none-for-enumerated-key" } else { "macro-site/get-not-first-enumerated-value" };
            return fail(sig, format!("get({k:?}) = {got:?} but enumeration yields {e:?} first; L={l:?}"));
        }
    }
    // typed lookups of own keys
    for (k, d, t) in exp.present {
        if overlaps(k) {
            continue;
        }
        let ok = match t {
            Typed::None => true,
            Typed::I(v) => p.pull::<i64, _>(*k) == Some(*v) && p.get(*k).and_then(|x| x.cast::<i64>()) == Some(*v),
            Typed::B(v) => p.pull::<bool, _>(*k) == Some(*v),
            Typed::S(v) => p.pull::<emit::Str, _>(*k).map(|s| s.get().to_string()) == Some(v.to_string()),
        };
        if !ok {
            return fail("macro-site/pull-differs-from-value", format!("typed lookup of {k:?} (display {d:?}) disagrees; L={l:?}"));
        }
    }
    // names that must not be found
    for a in exp.absent {
        if first(a).is_some() {
            continue; // the name is also a base / ambient key
        }
        if let Some(v) = p.get(*a) {
            return fail("macro-site/get-some-for-absent-key", format!("get({a:?}) = {v} but the key is never enumerated; L={l:?}"));
        }
        if p.pull::<i64, _>(*a).is_some() || p.pull::<emit::Str, _>(*a).is_some() {
            return fail("macro-site/pull-some-for-absent-key", format!("pull({a:?}) is Some; L={l:?}"));
        }
    }

    // is_unique / dedup
    if p.is_unique() && keys.len() != l.len() {
        return fail("macro-site/claims-unique-but-enumerates-key-twice", format!("L={l:?}"));
    }
    {
        let r: &P = p;
        let d = Props::dedup(&r);
        let (dl, dbroke) = enumerate(d);
        if dbroke {
            return fail("macro-site/dedup-break-without-visitor-break", format!("D={dl:?}"));
        }
        let mut seen: Vec<&String> = Vec::new();
        for (k, v) in &dl {
            if seen.contains(&k) {
                return fail("macro-site/dedup-enumerates-key-twice", format!("D={dl:?} L={l:?}"));
            }
            seen.push(k);
            if first(k).as_ref() != Some(v) {
                return fail("macro-site/dedup-not-first-value", format!("D={dl:?} L={l:?}"));
            }
        }
        if seen.len() != keys.len() {
            return fail("macro-site/dedup-drops-key", format!("D={dl:?} L={l:?}"));
        }
        for k in keys.iter().map(|k| k.as_str()).chain(exp.absent.iter().copied()) {
            let a = p.get(k).map(|v| v.to_string());
            let b = d.get(k).map(|v| v.to_string());
            if a != b {
                return fail("macro-site/dedup-get-changed", format!("get({k:?})={a:?} dedup().get={b:?}"));
            }
        }
        for n in 1..=dl.len() {
            let (calls, broke) = stop_at(d, n);
            if calls != n || !broke {
                return fail("macro-site/dedup-early-stop", format!("break at {n} of {}: {calls} calls, returned break={broke}", dl.len()));
            }
        }
    }

    // early stop
    for n in 1..=l.len() + 1 {
        let (calls, broke) = stop_at(p, n);
        if n <= l.len() {
            if calls != n || !broke {
                return fail("macro-site/early-stop", format!("break at call {n} of {}: {calls} calls, returned break={broke}", l.len()));
            }
        } else if calls != l.len() || broke {
            return fail("macro-site/early-stop", format!("full pass: {calls} calls of {}, returned break={broke}", l.len()));
        }
    }
    Ok(0)
}

/// The rendered message interpolates the value of every present hole.
pub fn check_msg(msg: &str, exp: &Exp) -> Outcome {
    let mut dont_care = 0u32;
    let mut rest = msg;
    for (i, (marker, want, name)) in exp.holes.iter().enumerate() {
        let Some(at) = rest.find(marker) else {
            return fail("macro-site/msg-text-missing", format!("marker {marker:?} not found in {msg:?}"));
        };
        rest = &rest[at + marker.len()..];
        let next = exp.holes.get(i + 1).map(|h| h.0).unwrap_or(exp.end_marker);
        let Some(end) = rest.find(next) else {
            return fail("macro-site/msg-text-missing", format!("marker {next:?} not found in {msg:?}"));
        };
        let got = &rest[..end];
        match want {
            None => dont_care += 1,
            Some(w) if got == *w => {}
            Some(w) => {
                let sig = if got == format!("{{{name}}}") || got.starts_with('{') {
                    "macro-site/msg-hole-not-interpolated"
                } else {
                    "macro-site/msg-hole-renders-other-value"
                };
                return fail(sig, format!("hole {name:?} rendered as {got:?}, expected {w:?}; msg={msg:?}"));
            }
        }
    }
    Ok(dont_care)
}

pub fn both(a: Outcome, b: Outcome) -> Outcome {
    Ok(a? + b?)
}

pub fn report(i: usize, r: std::thread::Result<Outcome>) {
    match r {
        Ok(Ok(dc)) => println!("SITE {i} ok {dc}"),
        Ok(Err((sig, detail))) => println!("SITE {i} FAIL {sig} {}", detail.replace('\n', " ")),
        Err(p) => {
            let msg = p
                .downcast_ref::<&str>()
                .map(|s| s.to_string())
                .or_else(|| p.downcast_ref::<String>().cloned())
                .unwrap_or_default();
            println!("SITE {i} FAIL macro-site/panic {}", msg.replace('\n', " "))
        }
    }
}

/// Slot an emitter callback writes the outcome of the event it saw into.
pub struct Slot(pub std::cell::RefCell<Vec<Outcome>>);

impl Slot {
    pub fn new() -> Slot {
        Slot(std::cell::RefCell::new(Vec::new()))
    }

    pub fn finish(self) -> Outcome {
        let mut v = self.0.into_inner();
        if v.len() != 1 {
            return fail("macro-site/event-not-delivered-once", format!("emitter called {} times", v.len()));
        }
        v.pop().unwrap()
    }
}

/// An emitter that judges the event it receives on the *generic* (un-erased) props type.
pub struct Judge<'a> {
    pub slot: &'a Slot,
    pub exp: &'a Exp,
}

impl<'a> emit::Emitter for Judge<'a> {
    fn emit<E: emit::event::ToEvent>(&self, evt: E) {
        let evt = evt.to_event();
        let r = both(check_props(evt.props(), self.exp), check_msg(&evt.msg().to_string(), self.exp));
        self.slot.0.borrow_mut().push(r);
    }

    fn blocking_flush(&self, _: std::time::Duration) -> bool {
        true
    }
}
