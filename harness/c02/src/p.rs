//! Engine E1 for property collections: a recursive enum whose every variant *holds and delegates to
//! the real emit type* instantiated at the enum itself. `impl Props for P` only dispatches; the
//! concatenation, option handling, boxing, erasure, de-duplication, map views, span / metric views
//! ... that run are emit's own generic impls. Every one of `for_each`, `get`, `pull` and `is_unique`
//! is dispatched (with UFCS, so the impl that runs is exactly the one of the named type), otherwise
//! overridden `get`s below the root would never execute.

use std::collections::{BTreeMap, HashMap};
use std::ops::ControlFlow;
use std::sync::Arc;

use emit::and::And;
use emit::metric::Metric;
use emit::platform::thread_local_ctxt::{ThreadLocalCtxt, ThreadLocalCtxtFrame};
use emit::props::{AsMap, Dedup, ErasedProps};
use emit::span::{Span, SpanCtxt};
use emit::str::ToStr;
use emit::value::FromValue;
use emit::{Ctxt, Empty, Extent, Props, Str, Value};

use crate::model::{first_wins_pub, span_ctxt, Kv, RVal, Spec, Val};

type Pair = (String, RVal);
pub type MacroProps<const N: usize> = emit::__private::__PrivateMacroProps<'static, N>;

pub struct RefHolder {
    r: &'static P,
    _owner: Box<P>,
}

pub struct ErasedHolder {
    r: &'static (dyn ErasedProps + 'static),
    owner: Box<dyn ErasedProps>,
    how: u8,
}

pub struct MacroHolder<const N: usize> {
    props: MacroProps<N>,
    _vals: Box<[RVal; 4]>,
}

pub enum P {
    PairString(Pair),
    PairStr((Str<'static>, RVal)),
    Slice(Vec<Pair>),
    Arr0([Pair; 0]),
    Arr1([Pair; 1]),
    Arr2([Pair; 2]),
    Arr3([Pair; 3]),
    Arr4([Pair; 4]),
    Nested(Vec<P>),
    BTree(BTreeMap<String, RVal>),
    BTreeStr(BTreeMap<Str<'static>, RVal>),
    Hash(HashMap<String, RVal>),
    Opt(Option<Box<P>>),
    And(Box<And<P, P>>),
    Boxed(Box<P>),
    Arc(Arc<P>),
    Ref(RefHolder),
    Erased(ErasedHolder),
    Dedup(Box<P>),
    AsMap(Box<P>),
    Empty(Empty),
    Span(Box<Span<'static, P>>),
    Metric(Box<Metric<'static, P>>),
    Extent(Extent),
    SpanCtxt(SpanCtxt),
    Frame(ThreadLocalCtxtFrame),
    Macro2(MacroHolder<2>),
    Macro3(MacroHolder<3>),
    Macro18(MacroHolder<18>),
    Macro34(MacroHolder<34>),
}

macro_rules! with_p {
    ($self:expr, |$p:ident| $body:expr) => {
        match $self {
            P::PairString(x) => {
                let $p: &Pair = x;
                $body
            }
            P::PairStr(x) => {
                let $p: &(Str<'static>, RVal) = x;
                $body
            }
            P::Slice(x) => {
                let $p: &[Pair] = &x[..];
                $body
            }
            P::Arr0(x) => {
                let $p: &[Pair; 0] = x;
                $body
            }
            P::Arr1(x) => {
                let $p: &[Pair; 1] = x;
                $body
            }
            P::Arr2(x) => {
                let $p: &[Pair; 2] = x;
                $body
            }
            P::Arr3(x) => {
                let $p: &[Pair; 3] = x;
                $body
            }
            P::Arr4(x) => {
                let $p: &[Pair; 4] = x;
                $body
            }
            P::Nested(x) => {
                let $p: &[P] = &x[..];
                $body
            }
            P::BTree(x) => {
                let $p: &BTreeMap<String, RVal> = x;
                $body
            }
            P::BTreeStr(x) => {
                let $p: &BTreeMap<Str<'static>, RVal> = x;
                $body
            }
            P::Hash(x) => {
                let $p: &HashMap<String, RVal> = x;
                $body
            }
            P::Opt(x) => {
                let $p: &Option<Box<P>> = x;
                $body
            }
            P::And(x) => {
                let $p: &And<P, P> = &**x;
                $body
            }
            P::Boxed(x) => {
                let $p: &Box<P> = x;
                $body
            }
            P::Arc(x) => {
                let $p: &Arc<P> = x;
                $body
            }
            P::Ref(x) => {
                let $p: &&'static P = &x.r;
                $body
            }
            P::Erased(x) => match x.how {
                0 => {
                    let $p: &dyn ErasedProps = &*x.owner;
                    $body
                }
                1 => {
                    let $p: &Box<dyn ErasedProps> = &x.owner;
                    $body
                }
                _ => {
                    let $p: &&'static dyn ErasedProps = &x.r;
                    $body
                }
            },
            P::Dedup(x) => {
                let $p: &Dedup<P> = Props::dedup(&**x);
                $body
            }
            P::AsMap(x) => {
                let $p: &AsMap<P> = Props::as_map(&**x);
                $body
            }
            P::Empty(x) => {
                let $p: &Empty = x;
                $body
            }
            P::Span(x) => {
                let $p: &Span<'static, P> = &**x;
                $body
            }
            P::Metric(x) => {
                let $p: &Metric<'static, P> = &**x;
                $body
            }
            P::Extent(x) => {
                let $p: &Extent = x;
                $body
            }
            P::SpanCtxt(x) => {
                let $p: &SpanCtxt = x;
                $body
            }
            P::Frame(x) => {
                let $p: &ThreadLocalCtxtFrame = x;
                $body
            }
            P::Macro2(x) => {
                let $p: &MacroProps<2> = &x.props;
                $body
            }
            P::Macro3(x) => {
                let $p: &MacroProps<3> = &x.props;
                $body
            }
            P::Macro18(x) => {
                let $p: &MacroProps<18> = &x.props;
                $body
            }
            P::Macro34(x) => {
                let $p: &MacroProps<34> = &x.props;
                $body
            }
        }
    };
}

impl Props for P {
    // The visitor / key are passed on as `&mut dyn FnMut` / `Str` so that the generic emit impls
    // instantiated at the recursive type `P` do not recurse polymorphically (`&mut &mut ... F`).
    fn for_each<'kv, F: FnMut(Str<'kv>, Value<'kv>) -> ControlFlow<()>>(&'kv self, mut for_each: F) -> ControlFlow<()> {
        let f: &mut dyn FnMut(Str<'kv>, Value<'kv>) -> ControlFlow<()> = &mut for_each;
        with_p!(self, |p| Props::for_each(p, f))
    }

    fn get<'v, K: ToStr>(&'v self, key: K) -> Option<Value<'v>> {
        let key: Str = key.to_str();
        with_p!(self, |p| Props::get(p, key))
    }

    fn pull<'kv, V: FromValue<'kv>, K: ToStr>(&'kv self, key: K) -> Option<V> {
        let key: Str = key.to_str();
        with_p!(self, |p| Props::pull::<V, Str>(p, key))
    }

    fn is_unique(&self) -> bool {
        with_p!(self, |p| Props::is_unique(p))
    }
}

thread_local! {
    /// One isolated ambient context per harness thread (a fresh `ThreadLocalCtxt::new()` per case
    /// would grow emit's per-thread table without bound). Every case leaves it empty.
    pub static CTXT: ThreadLocalCtxt = ThreadLocalCtxt::new();
}

pub fn ctxt() -> ThreadLocalCtxt {
    CTXT.with(|c| *c)
}

fn pairs(kvs: &[Kv]) -> Vec<Pair> {
    kvs.iter().map(|(k, v)| (k.clone(), RVal::from(v))).collect()
}

/// Enter `layers` one inside the other on `ctxt` and run `f` in the innermost scope.
pub fn with_layers<C: Ctxt + Copy, R>(ctxt: C, layers: &[(bool, &dyn ErasedProps)], f: impl FnOnce() -> R) -> R {
    match layers.split_first() {
        None => f(),
        Some(((root, props), rest)) => {
            let frame = if *root { emit::Frame::root(ctxt, props) } else { emit::Frame::push(ctxt, props) };
            frame.call(|| with_layers(ctxt, rest, f))
        }
    }
}

/// The final key names and the value each carries, for the fixed `emit::props!` call sites below.
pub fn macro_model(shape: u8, vals: &[Val]) -> Vec<Kv> {
    let v = |i: usize| vals.get(i).cloned().unwrap_or(Val::I(i as i64));
    match shape % MACRO_SHAPES {
        0 => vec![("a".into(), v(0)), ("b".into(), v(1))],
        1 => vec![("b".into(), v(0)), ("a".into(), v(1)), ("ab".into(), v(2))],
        2 => {
            // optional: absent when the model value is Null
            let mut out = vec![];
            if v(0) != Val::Null {
                out.push(("a".to_string(), v(0)));
            }
            out.push(("k".into(), v(1)));
            out
        }
        3 => vec![("b".into(), v(1)), ("c".into(), v(2))],
        4 => vec![("z".into(), v(0)), ("b".into(), v(1))],
        5 => vec![("a.b".into(), v(0)), ("b".into(), v(1))],
        // wide sites (size thresholds): 18 keys with two reordering renames, 34 keys with three, 18 plain keys
        6 => vec![("c00".into(), v(0)), ("c01".into(), v(1)), ("c02".into(), v(2)), ("zz".into(), v(3)), ("c04".into(), v(0)), ("c05".into(), v(1)), ("c06".into(), v(2)), ("c07".into(), v(3)), ("c08".into(), v(0)), ("c09".into(), v(1)), ("c10".into(), v(2)), ("c11".into(), v(3)), ("c12".into(), v(0)), ("c13".into(), v(1)), ("c14".into(), v(2)), ("a".into(), v(3)), ("c16".into(), v(0)), ("c17".into(), v(1))],
        7 => vec![("m".into(), v(0)), ("c01".into(), v(1)), ("c02".into(), v(2)), ("c03".into(), v(3)), ("c04".into(), v(0)), ("c05".into(), v(1)), ("c06".into(), v(2)), ("c07".into(), v(3)), ("c08".into(), v(0)), ("c09".into(), v(1)), ("c10".into(), v(2)), ("c11".into(), v(3)), ("c12".into(), v(0)), ("c13".into(), v(1)), ("c14".into(), v(2)), ("c15".into(), v(3)), ("c16".into(), v(0)), ("c17".into(), v(1)), ("c18".into(), v(2)), ("c19".into(), v(3)), ("b.b".into(), v(0)), ("c21".into(), v(1)), ("c22".into(), v(2)), ("c23".into(), v(3)), ("c24".into(), v(0)), ("c25".into(), v(1)), ("c26".into(), v(2)), ("c27".into(), v(3)), ("c28".into(), v(0)), ("c29".into(), v(1)), ("c30".into(), v(2)), ("c31".into(), v(3)), ("c32".into(), v(0)), ("c05x".into(), v(1))],
        8 => vec![("c00".into(), v(0)), ("c01".into(), v(1)), ("c02".into(), v(2)), ("c03".into(), v(3)), ("c04".into(), v(0)), ("c05".into(), v(1)), ("c06".into(), v(2)), ("c07".into(), v(3)), ("c08".into(), v(0)), ("c09".into(), v(1)), ("c10".into(), v(2)), ("c11".into(), v(3)), ("c12".into(), v(0)), ("c13".into(), v(1)), ("c14".into(), v(2)), ("c15".into(), v(3)), ("c16".into(), v(0)), ("c17".into(), v(1))],
        _ => unreachable!(),
    }
}

pub const MACRO_SHAPES: u8 = 9;
/// number of array elements of a shape (class labels for size thresholds)
pub fn macro_shape_len(shape: u8) -> usize {
    match shape % MACRO_SHAPES {
        1 => 3,
        6 | 8 => 18,
        7 => 34,
        _ => 2,
    }
}

/// shapes whose renamed key sorts differently from its identifier (defect D1, fixed by 20d44db)
pub fn macro_shape_reorders(shape: u8) -> bool {
    matches!(shape % MACRO_SHAPES, 4 | 6 | 7)
}

fn build_macro(shape: u8, vals: &[Val]) -> P {
    let v = |i: usize| RVal::from(&vals.get(i).cloned().unwrap_or(Val::I(i as i64)));
    let owner: Box<[RVal; 4]> = Box::new([v(0), v(1), v(2), v(3)]);
    // SAFETY: the values live on the heap inside the holder next to the collection borrowing them and
    // are never moved or dropped before it (field order: props first)
    let r: &'static [RVal; 4] = unsafe { &*(&*owner as *const [RVal; 4]) };
    let o0: Option<&'static RVal> = if matches!(r[0], RVal::Null) { None } else { Some(&r[0]) };
    match shape % MACRO_SHAPES {
        0 => P::Macro2(MacroHolder {
            props: emit::props! {
                #[emit::as_value] a: r[0],
                #[emit::as_value] b: r[1],
            },
            _vals: owner,
        }),
        1 => P::Macro3(MacroHolder {
            props: emit::props! {
                #[emit::as_value] b: r[0],
                #[emit::as_value] a: r[1],
                #[emit::as_value] ab: r[2],
            },
            _vals: owner,
        }),
        2 => P::Macro2(MacroHolder {
            props: emit::props! {
                #[emit::optional] #[emit::as_value] a: o0,
                #[emit::as_value] k: r[1],
            },
            _vals: owner,
        }),
        3 => P::Macro2(MacroHolder {
            props: emit::props! {
                #[cfg(any())] #[emit::as_value] a: r[0],
                #[cfg(all())] #[emit::as_value] b: r[1],
                #[emit::as_value] c: r[2],
            },
            _vals: owner,
        }),
        4 => P::Macro2(MacroHolder {
            props: emit::props! {
                #[emit::key("z")] #[emit::as_value] a: r[0],
                #[emit::as_value] b: r[1],
            },
            _vals: owner,
        }),
        5 => P::Macro2(MacroHolder {
            props: emit::props! {
                #[emit::key("a.b")] #[emit::as_value] a: r[0],
                #[emit::as_value] b: r[1],
            },
            _vals: owner,
        }),
        6 => P::Macro18(MacroHolder {
            props: emit::props! {
                #[emit::as_value] c00: r[0],
                #[emit::as_value] c01: r[1],
                #[emit::as_value] c02: r[2],
                #[emit::key("zz")] #[emit::as_value] c03: r[3],
                #[emit::as_value] c04: r[0],
                #[emit::as_value] c05: r[1],
                #[emit::as_value] c06: r[2],
                #[emit::as_value] c07: r[3],
                #[emit::as_value] c08: r[0],
                #[emit::as_value] c09: r[1],
                #[emit::as_value] c10: r[2],
                #[emit::as_value] c11: r[3],
                #[emit::as_value] c12: r[0],
                #[emit::as_value] c13: r[1],
                #[emit::as_value] c14: r[2],
                #[emit::key("a")] #[emit::as_value] c15: r[3],
                #[emit::as_value] c16: r[0],
                #[emit::as_value] c17: r[1],
            },
            _vals: owner,
        }),
        7 => P::Macro34(MacroHolder {
            props: emit::props! {
                #[emit::key("m")] #[emit::as_value] c00: r[0],
                #[emit::as_value] c01: r[1],
                #[emit::as_value] c02: r[2],
                #[emit::as_value] c03: r[3],
                #[emit::as_value] c04: r[0],
                #[emit::as_value] c05: r[1],
                #[emit::as_value] c06: r[2],
                #[emit::as_value] c07: r[3],
                #[emit::as_value] c08: r[0],
                #[emit::as_value] c09: r[1],
                #[emit::as_value] c10: r[2],
                #[emit::as_value] c11: r[3],
                #[emit::as_value] c12: r[0],
                #[emit::as_value] c13: r[1],
                #[emit::as_value] c14: r[2],
                #[emit::as_value] c15: r[3],
                #[emit::as_value] c16: r[0],
                #[emit::as_value] c17: r[1],
                #[emit::as_value] c18: r[2],
                #[emit::as_value] c19: r[3],
                #[emit::key("b.b")] #[emit::as_value] c20: r[0],
                #[emit::as_value] c21: r[1],
                #[emit::as_value] c22: r[2],
                #[emit::as_value] c23: r[3],
                #[emit::as_value] c24: r[0],
                #[emit::as_value] c25: r[1],
                #[emit::as_value] c26: r[2],
                #[emit::as_value] c27: r[3],
                #[emit::as_value] c28: r[0],
                #[emit::as_value] c29: r[1],
                #[emit::as_value] c30: r[2],
                #[emit::as_value] c31: r[3],
                #[emit::as_value] c32: r[0],
                #[emit::key("c05x")] #[emit::as_value] c33: r[1],
            },
            _vals: owner,
        }),
        8 => P::Macro18(MacroHolder {
            props: emit::props! {
                #[emit::as_value] c00: r[0],
                #[emit::as_value] c01: r[1],
                #[emit::as_value] c02: r[2],
                #[emit::as_value] c03: r[3],
                #[emit::as_value] c04: r[0],
                #[emit::as_value] c05: r[1],
                #[emit::as_value] c06: r[2],
                #[emit::as_value] c07: r[3],
                #[emit::as_value] c08: r[0],
                #[emit::as_value] c09: r[1],
                #[emit::as_value] c10: r[2],
                #[emit::as_value] c11: r[3],
                #[emit::as_value] c12: r[0],
                #[emit::as_value] c13: r[1],
                #[emit::as_value] c14: r[2],
                #[emit::as_value] c15: r[3],
                #[emit::as_value] c16: r[0],
                #[emit::as_value] c17: r[1],
            },
            _vals: owner,
        }),
        _ => unreachable!(),
    }
}

/// Metric sample values must be `Value<'static>`: scalars only (anything else becomes 0).
pub fn static_value(v: &Val) -> Value<'static> {
    match v {
        Val::I(v) => Value::from(*v),
        Val::U(v) => Value::from(*v),
        Val::F(v) => Value::from(*v),
        Val::B(v) => Value::from(*v),
        _ => Value::from(0i64),
    }
}

pub fn build(spec: &Spec) -> P {
    match spec {
        Spec::Pair((k, v), 0) => P::PairString((k.clone(), RVal::from(v))),
        Spec::Pair((k, v), _) => P::PairStr((Str::new_owned(k.clone()), RVal::from(v))),
        Spec::Slice(kvs) => P::Slice(pairs(kvs)),
        Spec::Array(kvs) => {
            let mut v = pairs(kvs);
            v.truncate(4);
            match v.len() {
                0 => P::Arr0([]),
                1 => P::Arr1(v.try_into().ok().unwrap()),
                2 => P::Arr2(v.try_into().ok().unwrap()),
                3 => P::Arr3(v.try_into().ok().unwrap()),
                _ => P::Arr4(v.try_into().ok().unwrap()),
            }
        }
        Spec::Nested(v) => P::Nested(v.iter().map(build).collect()),
        Spec::BTree(kvs, 0) => P::BTree(first_wins_pub(kvs).iter().map(|(k, v)| (k.clone(), RVal::from(v))).collect()),
        Spec::BTree(kvs, _) => P::BTreeStr(
            first_wins_pub(kvs)
                .iter()
                .map(|(k, v)| (Str::new_owned(k.clone()), RVal::from(v)))
                .collect(),
        ),
        Spec::Hash(kvs) => P::Hash(first_wins_pub(kvs).iter().map(|(k, v)| (k.clone(), RVal::from(v))).collect()),
        Spec::Opt(o) => P::Opt(o.as_ref().map(|s| Box::new(build(s)))),
        Spec::And(a, b) => P::And(Box::new(build(a).and_props(build(b)))),
        Spec::Boxed(s) => P::Boxed(Box::new(build(s))),
        Spec::Arc(s) => P::Arc(Arc::new(build(s))),
        Spec::Ref(s) => {
            let owner = Box::new(build(s));
            // SAFETY: the referent lives on the heap inside the holder, is never moved out and
            // outlives every use of `r` (which is only reachable through a borrow of the holder)
            let r: &'static P = unsafe { &*(&*owner as *const P) };
            P::Ref(RefHolder { r, _owner: owner })
        }
        Spec::Erased(how, s) => {
            let owner: Box<dyn ErasedProps> = Box::new(build(s));
            // SAFETY: as above
            let r: &'static (dyn ErasedProps + 'static) = unsafe { &*(&*owner as *const (dyn ErasedProps + 'static)) };
            P::Erased(ErasedHolder { r, owner, how: *how % 3 })
        }
        Spec::Dedup(s) => P::Dedup(Box::new(build(s))),
        Spec::AsMap(s) => P::AsMap(Box::new(build(s))),
        Spec::Empty => P::Empty(Empty),
        Spec::Span { name, inner } => P::Span(Box::new(Span::new(
            emit::Path::new_raw("m"),
            Str::new_owned(name.clone()),
            Empty,
            build(inner),
        ))),
        Spec::Metric { name, agg, value, inner } => {
            P::Metric(Box::new(Metric::new(
                emit::Path::new_raw("m"),
                Str::new_owned(name.clone()),
                Str::new_owned(agg.clone()),
                Empty,
                static_value(value),
                build(inner),
            )))
        }
        Spec::Extent(e) => P::Extent(e.build()),
        Spec::SpanCtxt { trace, parent, span } => P::SpanCtxt(span_ctxt(*trace, *parent, *span)),
        Spec::Frame(layers) => {
            let built: Vec<(bool, Vec<Pair>)> = layers.iter().map(|(r, kvs)| (*r, pairs(kvs))).collect();
            let slices: Vec<(bool, &[Pair])> = built.iter().map(|(r, v)| (*r, &v[..])).collect();
            let erased: Vec<(bool, &dyn ErasedProps)> = slices.iter().map(|(r, v)| (*r, v as &dyn ErasedProps)).collect();
            let c = ctxt();
            let snap = with_layers(c, &erased, || c.with_current(|cur| cur.clone()));
            P::Frame(snap)
        }
        Spec::Macro(shape, vals) => build_macro(*shape, vals),
    }
}
