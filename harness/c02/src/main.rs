use c02::host::{check_case, Case, Host};
use c02::model::{ExtSpec, Kv, Spec, Val};
use c02::p::MACRO_SHAPES;
use vcore::proptest::prelude::*;
use vcore::Level as VLevel;

const RULE: &str = "runtime cases: a key/value list (12-name alphabet with \"\", non-ASCII, prefix-related and well-known names, so duplicates are frequent; plus arbitrary short Unicode keys) realised as a tree (depth <= 4) of the real emit collection types (pair, slice/array of pairs, slice of nested collections, BTreeMap, HashMap, Option, And, Box, Arc, &, dyn ErasedProps x3 call paths, dedup(), as_map(), Empty, Span, Metric, Extent, SpanCtxt, cloned ambient frames, nine fixed props! sites incl. 18- and 34-key ones with reordering renames; about 7 % of the cases enumerate > 16 and 2.5 % > 32 entries) observed directly, as an ambient snapshot inside with_current (generic / & / Option / dyn ErasedCtxt / Box<dyn + Send + Sync> / Arc / traceparent) or as the props of an event built by emit_core::emit; non-trivial = the enumeration contains a duplicate key or the tree has nesting depth >= 2. program cases: one generated emit::props!/evt!/emit!/format! call site with 1-40 keys (mostly 1-8, a solid share of 9-16 and 17-40); non-trivial = >= 3 keys and >= 1 renamed, optional or cfg-gated key.";

const KEYS: [&str; 24] = [
    "a", "b", "ab", "A", "", "é", "abc", "éa", "a.b", "a b", "k", "z", "c", "evt_kind", "span_name", "trace_id", "span_id", "span_parent", "ts", "ts_start",
    "metric_name", "metric_agg", "metric_value", "lvl",
];
const STRS: [&str; 8] = ["", "x", "text", "é", "1", "true", "0000000000000001", "span"];

fn key() -> impl Strategy<Value = String> {
    prop_oneof![
        8 => (0usize..3).prop_map(|i| KEYS[i].to_string()),
        6 => (0usize..6).prop_map(|i| KEYS[i].to_string()),
        4 => (0usize..KEYS.len()).prop_map(|i| KEYS[i].to_string()),
        1 => prop::collection::vec(any::<char>(), 0..4).prop_map(|v| v.into_iter().collect::<String>()),
    ]
}

fn val() -> impl Strategy<Value = Val> {
    prop_oneof![
        4 => (-50i64..1000).prop_map(Val::I),
        1 => any::<i64>().prop_map(Val::I),
        1 => any::<u64>().prop_map(Val::U),
        2 => (-1000i32..1000).prop_map(|v| Val::F(v as f64 / 8.0)),
        1 => any::<bool>().prop_map(Val::B),
        3 => (0usize..STRS.len()).prop_map(|i| Val::S(STRS[i].to_string())),
        1 => Just(Val::Null),
        1 => (1u64..).prop_map(|v| Val::Trace(v as u128)),
        1 => (1u64..).prop_map(Val::Span),
    ]
}

fn kv() -> impl Strategy<Value = Kv> {
    (key(), val())
}

fn kvs(max: usize) -> impl Strategy<Value = Vec<Kv>> {
    prop_oneof![
        1 => prop::collection::vec(kv(), 0..=max),
        3 => prop::collection::vec(kv(), (max / 2).max(1)..=max),
    ]
}

/// Wide lists (size thresholds such as "scan up to 16, bisect above" are a classic place for bugs): 17-40 pairs,
/// keys mostly from a 96-name alphabet `w00..w95` (so many distinct keys) mixed with the small alphabet (duplicates).
fn wide_kvs() -> impl Strategy<Value = Vec<Kv>> {
    let wkey = prop_oneof![
        6 => (0u32..96).prop_map(|i| format!("w{i:02}")),
        1 => key(),
    ];
    prop_oneof![
        3 => prop::collection::vec((wkey.clone(), val()), 17..=24),
        2 => prop::collection::vec((wkey.clone(), val()), 25..=32),
        2 => prop::collection::vec((wkey, val()), 33..=40),
    ]
}

fn wide_leaf() -> impl Strategy<Value = Spec> {
    prop_oneof![
        3 => wide_kvs().prop_map(Spec::Slice),
        2 => (wide_kvs(), 0u8..2).prop_map(|(k, t)| Spec::BTree(k, t)),
        2 => wide_kvs().prop_map(Spec::Hash),
        2 => wide_kvs().prop_map(|k| Spec::Dedup(Box::new(Spec::Slice(k)))),
        1 => wide_kvs().prop_map(|k| Spec::Frame(vec![(false, k)])),
    ]
}

fn leaf() -> impl Strategy<Value = Spec> {
    let ext = prop_oneof![(0u32..100).prop_map(ExtSpec::Point), (0u32..100, 0u32..100).prop_map(|(a, b)| ExtSpec::Range(a, b))];
    let id64 = || prop_oneof![2 => (1u64..).prop_map(Some), 1 => Just(None), 1 => Just(Some(0u64))];
    prop_oneof![
        3 => (kv(), 0u8..2).prop_map(|(kv, t)| Spec::Pair(kv, t)),
        9 => kvs(5).prop_map(Spec::Slice),
        2 => kvs(4).prop_map(Spec::Array),
        2 => (kvs(4), 0u8..2).prop_map(|(k, t)| Spec::BTree(k, t)),
        3 => kvs(4).prop_map(Spec::Hash),
        1 => Just(Spec::Empty),
        1 => Just(Spec::Opt(None)),
        1 => ext.prop_map(Spec::Extent),
        1 => (id64(), id64(), id64()).prop_map(|(t, p, s)| Spec::SpanCtxt { trace: t.map(|v| v as u128), parent: p, span: s }),
        2 => prop::collection::vec((prop::bool::weighted(0.15), kvs(3)), 0..3).prop_map(Spec::Frame),
        1 => (0u8..MACRO_SHAPES, prop::collection::vec(val(), 4)).prop_map(|(s, v)| Spec::Macro(s, v)),
        1 => wide_leaf(),
    ]
}

fn spec() -> impl Strategy<Value = Spec> {
    leaf().prop_recursive(4, 24, 3, |inner| {
        let name = || (0usize..STRS.len()).prop_map(|i| STRS[i].to_string());
        prop_oneof![
            6 => (inner.clone(), inner.clone()).prop_map(|(a, b)| Spec::And(Box::new(a), Box::new(b))),
            2 => prop::collection::vec(inner.clone(), 0..=3).prop_map(Spec::Nested),
            1 => inner.clone().prop_map(|s| Spec::Opt(Some(Box::new(s)))),
            1 => inner.clone().prop_map(|s| Spec::Boxed(Box::new(s))),
            1 => inner.clone().prop_map(|s| Spec::Arc(Box::new(s))),
            1 => inner.clone().prop_map(|s| Spec::Ref(Box::new(s))),
            3 => (0u8..3, inner.clone()).prop_map(|(h, s)| Spec::Erased(h, Box::new(s))),
            2 => inner.clone().prop_map(|s| Spec::Dedup(Box::new(s))),
            1 => inner.clone().prop_map(|s| Spec::AsMap(Box::new(s))),
            1 => (name(), inner.clone()).prop_map(|(n, s)| Spec::Span { name: n, inner: Box::new(s) }),
            1 => (name(), name(), val(), inner.clone()).prop_map(|(n, a, v, s)| Spec::Metric { name: n, agg: a, value: v, inner: Box::new(s) }),
        ]
    })
}

fn host() -> impl Strategy<Value = Host> {
    prop_oneof![
        9 => Just(Host::Direct),
        3 => (0u8..7, prop::bool::weighted(0.2), kvs(3)).prop_map(|(how, root, under)| Host::Ambient { how, root, under }),
        1 => kvs(2).prop_map(|under| Host::Traceparent { under }),
        4 => (0u8..3, kvs(3)).prop_map(|(how, ambient)| Host::Event { how, ambient }),
    ]
}

fn case() -> impl Strategy<Value = Case> {
    (spec(), host(), any::<u32>()).prop_map(|(spec, host, nth)| Case { spec, host, nth })
}

fn main() {
    vcore::run(
        "C02",
        VLevel::Exploration,
        RULE,
        &[
            "L, the enumeration for_each yields on the object under test, is the reference: get/pull/dedup/is_unique/early-stop are judged against L of the same object (this is what the property states); enumerating one unmodified object twice yields the same sequence (else the case is a don't-care)",
            "values are compared by Display text, is_null and the typed casts i64/u64/f64/bool/Str/TraceId/SpanId/Timestamp/Kind",
            "for collections the harness constructed, L must equal the constructed content: in order for pairs/slices/arrays/BTreeMap/And/[P], as a multiset for HashMap, dedup() output, ambient frames and for views with fixed keys (Span/Metric/Extent/SpanCtxt: what the view itself contributes is read off the real view over an empty collection; where it sits relative to the inner properties is not asserted)",
            "which of several values pushed for one key an ambient frame keeps is C03's subject: any of them is accepted here (each key must still appear exactly once)",
            "what TraceparentCtxt enumerates for trace_id/span_id/span_parent depends on sampling state and is not predicted (coherence only)",
        ],
        |s| {
            s.require("duplicates", 3000);
            s.require("erased", 3000);
            s.require("hash-backed", 3000);
            s.require("depth>=2", 3000);
            s.require("len>16", 1500);
            s.require("len>32", 500);
            s.require("distinct-keys>32", 200);
            s.require("dedup-over->16", 300);
            s.require("macro-props->16-reordering-rename", 100);
            s.gen("runtime-trees", s.n(300_000, 3_000_000), case, check_case);

            // artifacts of the libFuzzer target `props_tree` (engine E6) are replayed through the same entry
            s.manual("fuzz-artifact", Vec::<Vec<u8>>::new(), |bytes, cx| {
                cx.nontrivial(true);
                match c02::fuzz_entry(bytes) {
                    Ok(()) => Ok(()),
                    Err(f) => cx.fail(f.sig, format!("{}; decoded case: {:?}", f.msg, c02::fuzz::decode(bytes))),
                }
            });

            // ---- generated programs of macro call sites (engine E5)
            s.require("renamed-reorders-sort", 8);
            s.require("site-keys:9-16", 5);
            s.require("site-keys>=17-with-reordering-rename", 3);
            let runner = c02::prog::Runner::new();
            let args: Vec<String> = std::env::args().collect();
            let selected = match args.iter().position(|a| a == "--only") {
                Some(i) => args.get(i + 1).map(|o| "macro-sites".contains(o.as_str())).unwrap_or(true),
                None => true,
            };
            let mut sites: Vec<c02::prog::Site> = Vec::new();
            if !s.is_replay() && selected {
                let (programs, per) = if s.quick() { (1usize, s.n(250, 250) as usize) } else { (8usize, s.n(400, 400) as usize) };
                sites = s.sample("macro-sites", c02::prog::site(), programs * per);
                let mut shrunk: Vec<(usize, c02::prog::Site)> = Vec::new();
                for (b, chunk) in sites.chunks(per).enumerate() {
                    match runner.run_program(chunk) {
                        Ok(res) => {
                            // delta-debug the first site of this program that fails with an unlisted signature,
                            // so that the replay file is the reduced site
                            for (i, (site, r)) in chunk.iter().zip(res.iter()).enumerate() {
                                if let c02::prog::SiteOutcome::Fail(sig, _) = r {
                                    let full = c02::prog::Runner::full_sig(site, sig);
                                    if !s.known().is_known("C02", &full) && shrunk.is_empty() {
                                        shrunk.push((b * per + i, runner.shrink(site, sig)));
                                    }
                                }
                            }
                        }
                        Err(e) => s.inconclusive(e),
                    }
                }
                for (i, small) in shrunk {
                    sites[i] = small;
                }
            }
            s.manual("macro-sites", sites, |site, cx| runner.check(site, cx));
            for p in runner.problems.borrow().iter() {
                s.inconclusive(p.clone());
            }
            for (k, v) in runner.stats.borrow().iter() {
                s.extra(&format!("macro_sites_{k}"), vcore::serde_json::json!(v));
            }
        },
    )
}
