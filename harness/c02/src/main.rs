// stub: check for C02 not built yet
fn main() {
    eprintln!("C02: check not built yet");
    std::process::exit(2);
}
