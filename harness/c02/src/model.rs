//! Case data for the runtime part of C02: the serialisable description (`Spec`) of a property
//! collection, the runtime value type stored inside the real emit collections (`RVal`), what the
//! harness observes of a value (`Obs`) and the reference evaluator that turns a `Spec` into the
//! expected enumeration (`Seg`s).

use std::collections::BTreeMap;

use emit::span::{SpanId, TraceId};
use emit::value::ToValue;
use emit::{Props, Value};
use serde::{Deserialize, Serialize};

/// A model value. Finite floats only (the replay file is JSON).
#[derive(Serialize, Deserialize, Debug, Clone, PartialEq)]
pub enum Val {
    I(i64),
    U(u64),
    F(f64),
    B(bool),
    S(String),
    Null,
    /// a trace id (non-zero; 0 is mapped to 1)
    Trace(u128),
    /// a span id (non-zero; 0 is mapped to 1)
    Span(u64),
}

pub type Kv = (String, Val);

/// The value type held by the real collections.
#[derive(Debug, Clone)]
pub enum RVal {
    I(i64),
    U(u64),
    F(f64),
    B(bool),
    S(String),
    Null,
    Trace(TraceId),
    Span(SpanId),
}

impl From<&Val> for RVal {
    fn from(v: &Val) -> RVal {
        match v {
            Val::I(v) => RVal::I(*v),
            Val::U(v) => RVal::U(*v),
            Val::F(v) => RVal::F(*v),
            Val::B(v) => RVal::B(*v),
            Val::S(v) => RVal::S(v.clone()),
            Val::Null => RVal::Null,
            Val::Trace(v) => RVal::Trace(TraceId::from_u128((*v).max(1)).unwrap()),
            Val::Span(v) => RVal::Span(SpanId::from_u64((*v).max(1)).unwrap()),
        }
    }
}

impl ToValue for RVal {
    fn to_value(&self) -> Value<'_> {
        match self {
            RVal::I(v) => v.to_value(),
            RVal::U(v) => v.to_value(),
            RVal::F(v) => v.to_value(),
            RVal::B(v) => v.to_value(),
            RVal::S(v) => v.to_value(),
            RVal::Null => Value::null(),
            RVal::Trace(v) => v.to_value(),
            RVal::Span(v) => v.to_value(),
        }
    }
}

/// Typed views of a value (every `FromValue` the harness compares `pull` against).
#[derive(Debug, Clone, PartialEq, Default)]
pub struct Casts {
    pub i: Option<i64>,
    pub u: Option<u64>,
    pub f: Option<u64>,
    pub b: Option<bool>,
    pub s: Option<String>,
    pub tid: Option<u128>,
    pub sid: Option<u64>,
    pub ts: Option<String>,
    pub kind: Option<String>,
}

/// Everything observed of one enumerated / looked-up value.
#[derive(Debug, Clone, PartialEq)]
pub struct Obs {
    pub disp: String,
    pub null: bool,
    pub casts: Casts,
}

pub fn casts(v: &Value) -> Casts {
    Casts {
        i: v.by_ref().cast::<i64>(),
        u: v.by_ref().cast::<u64>(),
        f: v.by_ref().cast::<f64>().map(|f| f.to_bits()),
        b: v.by_ref().cast::<bool>(),
        s: v.by_ref().cast::<emit::Str>().map(|s| s.get().to_string()),
        tid: v.by_ref().cast::<TraceId>().map(|t| t.to_u128()),
        sid: v.by_ref().cast::<SpanId>().map(|t| t.to_u64()),
        ts: v.by_ref().cast::<emit::Timestamp>().map(|t| t.to_string()),
        kind: v.by_ref().cast::<emit::Kind>().map(|t| t.to_string()),
    }
}

pub fn obs(v: &Value) -> Obs {
    Obs {
        disp: v.to_string(),
        null: v.is_null(),
        casts: casts(v),
    }
}

pub fn obs_of_val(v: &Val) -> Obs {
    let r = RVal::from(v);
    let o = obs(&r.to_value());
    o
}

#[derive(Serialize, Deserialize, Debug, Clone)]
pub enum ExtSpec {
    Point(u32),
    Range(u32, u32),
}

impl ExtSpec {
    pub fn build(&self) -> emit::Extent {
        let ts = |s: u32| emit::Timestamp::from_unix(std::time::Duration::from_secs(s as u64)).unwrap();
        match self {
            ExtSpec::Point(a) => emit::Extent::point(ts(*a)),
            ExtSpec::Range(a, b) => emit::Extent::range(ts(*a)..ts(*b)),
        }
    }
}

/// The tree of real emit combinators to build (E1 "dynamic combinator tree").
#[derive(Serialize, Deserialize, Debug, Clone)]
pub enum Spec {
    /// `(K, V)`; key type 0 = `String`, 1 = `Str<'static>`
    Pair(Kv, u8),
    /// `[(String, V)]` (slice of pairs)
    Slice(Vec<Kv>),
    /// `[(String, V); N]`, N <= 4
    Array(Vec<Kv>),
    /// `[P]`: slice of nested collections
    Nested(Vec<Spec>),
    /// `BTreeMap<K, V>`; key type 0 = `String`, 1 = `Str<'static>`; built first-value-wins
    BTree(Vec<Kv>, u8),
    /// `HashMap<String, V>`; built first-value-wins
    Hash(Vec<Kv>),
    Opt(Option<Box<Spec>>),
    And(Box<Spec>, Box<Spec>),
    Boxed(Box<Spec>),
    Arc(Box<Spec>),
    Ref(Box<Spec>),
    /// `dyn ErasedProps`: 0 = called on the `dyn` itself, 1 = through `Box<dyn ..>`, 2 = through `&dyn ..`
    Erased(u8, Box<Spec>),
    Dedup(Box<Spec>),
    AsMap(Box<Spec>),
    Empty,
    Span { name: String, inner: Box<Spec> },
    Metric { name: String, agg: String, value: Val, inner: Box<Spec> },
    Extent(ExtSpec),
    SpanCtxt { trace: Option<u128>, parent: Option<u64>, span: Option<u64> },
    /// a cloned snapshot (`ThreadLocalCtxtFrame`) of the ambient context after entering these layers
    /// (`true` = `Frame::root`, `false` = `Frame::push`)
    Frame(Vec<(bool, Vec<Kv>)>),
    /// a collection built by a fixed `emit::props!` call site (see `p::MACRO_SHAPES`) over these values
    Macro(u8, Vec<Val>),
}

impl Spec {
    pub fn depth(&self) -> usize {
        match self {
            Spec::Nested(v) => 1 + v.iter().map(|s| s.depth()).max().unwrap_or(0),
            Spec::Opt(None) => 1,
            Spec::Opt(Some(s))
            | Spec::Boxed(s)
            | Spec::Arc(s)
            | Spec::Ref(s)
            | Spec::Erased(_, s)
            | Spec::Dedup(s)
            | Spec::AsMap(s)
            | Spec::Span { inner: s, .. }
            | Spec::Metric { inner: s, .. } => 1 + s.depth(),
            Spec::And(a, b) => 1 + a.depth().max(b.depth()),
            _ => 0,
        }
    }

    /// Visit every node.
    pub fn walk(&self, f: &mut dyn FnMut(&Spec)) {
        f(self);
        match self {
            Spec::Nested(v) => v.iter().for_each(|s| s.walk(f)),
            Spec::Opt(Some(s))
            | Spec::Boxed(s)
            | Spec::Arc(s)
            | Spec::Ref(s)
            | Spec::Erased(_, s)
            | Spec::Dedup(s)
            | Spec::AsMap(s)
            | Spec::Span { inner: s, .. }
            | Spec::Metric { inner: s, .. } => s.walk(f),
            Spec::And(a, b) => {
                a.walk(f);
                b.walk(f)
            }
            _ => {}
        }
    }

    pub fn name(&self) -> &'static str {
        match self {
            Spec::Pair(..) => "pair",
            Spec::Slice(..) => "slice",
            Spec::Array(..) => "array",
            Spec::Nested(..) => "nested-slice",
            Spec::BTree(..) => "btreemap",
            Spec::Hash(..) => "hashmap",
            Spec::Opt(None) => "option-none",
            Spec::Opt(Some(_)) => "option-some",
            Spec::And(..) => "and",
            Spec::Boxed(..) => "box",
            Spec::Arc(..) => "arc",
            Spec::Ref(..) => "ref",
            Spec::Erased(..) => "erased",
            Spec::Dedup(..) => "dedup",
            Spec::AsMap(..) => "as_map",
            Spec::Empty => "empty",
            Spec::Span { .. } => "span",
            Spec::Metric { .. } => "metric",
            Spec::Extent(..) => "extent",
            Spec::SpanCtxt { .. } => "span_ctxt",
            Spec::Frame(..) => "ambient-frame-clone",
            Spec::Macro(..) => "macro-props",
        }
    }
}

/// One stretch of the expected enumeration. Every item carries the set of acceptable observations
/// (a singleton except for ambient frames, where the property does not say which of several pushed
/// values for one key survives).
#[derive(Debug, Clone)]
pub struct Seg {
    pub ordered: bool,
    pub items: Vec<(String, Vec<Obs>)>,
}

fn first_wins(kvs: &[Kv]) -> Vec<Kv> {
    let mut out: Vec<Kv> = Vec::new();
    for (k, v) in kvs {
        if !out.iter().any(|(k2, _)| k2 == k) {
            out.push((k.clone(), v.clone()));
        }
    }
    out
}

pub fn first_wins_pub(kvs: &[Kv]) -> Vec<Kv> {
    first_wins(kvs)
}

fn items(kvs: &[Kv]) -> Vec<(String, Vec<Obs>)> {
    kvs.iter().map(|(k, v)| (k.clone(), vec![obs_of_val(v)])).collect()
}

fn flatten(segs: &[Seg]) -> Vec<(String, Vec<Obs>)> {
    segs.iter().flat_map(|s| s.items.iter().cloned()).collect()
}

/// Each key once, with the candidates for its *first* value: exact where the model determines the
/// order, the union of the candidates inside one unordered stretch otherwise.
pub fn first_map(segs: &[Seg]) -> Vec<(String, Vec<Obs>)> {
    let mut out: Vec<(String, Vec<Obs>)> = Vec::new();
    for seg in segs {
        let mut here: Vec<(String, Vec<Obs>)> = Vec::new();
        for (k, c) in &seg.items {
            if out.iter().any(|(k2, _)| k2 == k) {
                continue;
            }
            match here.iter_mut().find(|(k2, _)| k2 == k) {
                None => here.push((k.clone(), c.clone())),
                Some((_, c2)) => {
                    if !seg.ordered {
                        for o in c {
                            if !c2.contains(o) {
                                c2.push(o.clone());
                            }
                        }
                    }
                }
            }
        }
        out.extend(here);
    }
    out
}

/// What pushing `layers` onto an empty ambient context leaves visible: every key once; which of
/// several values pushed for one key is kept is outside this property (C03), so all are candidates.
pub fn ambient_items(layers: &[(bool, Vec<(String, Vec<Obs>)>)]) -> Vec<(String, Vec<Obs>)> {
    let mut map: BTreeMap<String, Vec<Obs>> = BTreeMap::new();
    for (root, kvs) in layers {
        if *root {
            map.clear();
        }
        for (k, c) in kvs {
            let e = map.entry(k.clone()).or_default();
            for o in c {
                if !e.contains(o) {
                    e.push(o.clone());
                }
            }
        }
    }
    map.into_iter().collect()
}

fn own_keys(p: &impl Props) -> Vec<(String, Vec<Obs>)> {
    let mut out = Vec::new();
    let _ = p.for_each(|k, v| {
        out.push((k.get().to_string(), vec![obs(&v)]));
        std::ops::ControlFlow::Continue(())
    });
    out
}

/// The reference evaluator: the expected enumeration of the collection `spec` describes.
pub fn segs(spec: &Spec) -> Vec<Seg> {
    match spec {
        Spec::Pair(kv, _) => vec![Seg { ordered: true, items: items(std::slice::from_ref(kv)) }],
        Spec::Slice(kvs) | Spec::Array(kvs) => vec![Seg { ordered: true, items: items(kvs) }],
        Spec::Nested(v) => v.iter().flat_map(segs).collect(),
        Spec::BTree(kvs, _) => {
            let mut u = first_wins(kvs);
            u.sort_by(|a, b| a.0.as_bytes().cmp(b.0.as_bytes()));
            vec![Seg { ordered: true, items: items(&u) }]
        }
        Spec::Hash(kvs) => vec![Seg { ordered: false, items: items(&first_wins(kvs)) }],
        Spec::Opt(None) | Spec::Empty => vec![],
        Spec::Opt(Some(s)) | Spec::Boxed(s) | Spec::Arc(s) | Spec::Ref(s) | Spec::Erased(_, s) | Spec::AsMap(s) => segs(s),
        Spec::And(a, b) => {
            let mut v = segs(a);
            v.extend(segs(b));
            v
        }
        Spec::Dedup(s) => vec![Seg { ordered: false, items: first_map(&segs(s)) }],
        // views with fixed keys: what the view itself contributes is taken from the real view over
        // an empty collection; where those keys sit relative to the inner properties is not stated by
        // the property, so the whole view is one unordered stretch
        Spec::Span { name, inner } => {
            let view = emit::span::Span::new(emit::Path::new_raw("m"), emit::Str::new_ref(name), emit::Empty, emit::Empty);
            let mut it = own_keys(&view);
            it.extend(flatten(&segs(inner)));
            vec![Seg { ordered: false, items: it }]
        }
        Spec::Metric { name, agg, value, inner } => {
            let view = emit::metric::Metric::new(
                emit::Path::new_raw("m"),
                emit::Str::new_ref(name),
                emit::Str::new_ref(agg),
                emit::Empty,
                crate::p::static_value(value),
                emit::Empty,
            );
            let mut it = own_keys(&view);
            it.extend(flatten(&segs(inner)));
            vec![Seg { ordered: false, items: it }]
        }
        Spec::Extent(e) => vec![Seg { ordered: false, items: own_keys(&e.build()) }],
        Spec::SpanCtxt { trace, parent, span } => {
            let c = span_ctxt(*trace, *parent, *span);
            vec![Seg { ordered: false, items: own_keys(&c) }]
        }
        Spec::Frame(layers) => {
            let layers: Vec<(bool, Vec<(String, Vec<Obs>)>)> = layers.iter().map(|(r, kvs)| (*r, items(kvs))).collect();
            vec![Seg { ordered: false, items: ambient_items(&layers) }]
        }
        Spec::Macro(shape, vals) => {
            vec![Seg { ordered: false, items: items(&crate::p::macro_model(*shape, vals)) }]
        }
    }
}

pub fn span_ctxt(trace: Option<u128>, parent: Option<u64>, span: Option<u64>) -> emit::span::SpanCtxt {
    emit::span::SpanCtxt::new(
        trace.and_then(TraceId::from_u128),
        parent.and_then(SpanId::from_u64),
        span.and_then(SpanId::from_u64),
    )
}

pub fn flatten_pub(segs: &[Seg]) -> Vec<(String, Vec<Obs>)> {
    flatten(segs)
}
