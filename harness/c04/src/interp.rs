//! The span-tree interpreter: recursive functions that carry the FIXED macro call sites (explicit
//! `rt:` parameter, so nothing process-global is touched) and walk the numbered program.

use std::sync::Mutex;

use emit::span::{SpanCtxt, SpanId, TraceId};
use emit::{Frame, Props};

use crate::exec::{alternating, block_on, catch_fut, catch_planned, join, planned_panic, yield_now, BoxFut};
use crate::rt::{Rt, TCtxt};
use crate::tree::{Form, IdForm, Incoming, PItem, PNode, RunHow};

/// `SpanCtxt::current(rt.ctxt())` at check point `id`.
#[derive(Debug, Clone, PartialEq, Eq)]
pub struct Obs {
    pub id: usize,
    pub trace: Option<u128>,
    pub parent: Option<u64>,
    pub span: Option<u64>,
    /// how many times the `span_id` key is listed by the ambient props at this point (classification only:
    /// a context may list a key more than once, the first occurrence is the one that counts)
    pub span_id_listed: usize,
}

pub struct Env<'a, C: TCtxt> {
    pub rt: &'a Rt<C>,
    pub obs: &'a Mutex<Vec<Obs>>,
    /// first panic caught on a hop thread (signature, message)
    pub fail: &'a Mutex<Option<vcore::Fail>>,
    /// frames captured by `CaptureFrame` items, by slot, until a `RunFrame` takes them
    pub frames: &'a [Mutex<Option<CapturedFrame<C>>>],
}

/// (the frame owns a clone of the ctxt value, so it borrows nothing)
pub type CapturedFrame<C> = Frame<C>;

/// reserved check id: the ambient context of a fresh poll thread right after a poll that ran there
pub const POLL_THREAD_END: usize = usize::MAX;

fn check<C: TCtxt>(env: &Env<C>, id: usize) {
    let c = SpanCtxt::current(env.rt.ctxt());
    let span_id_listed = env.rt.ctxt().with_current(|current| {
        let mut n = 0;
        let _ = current.for_each(|k, _| {
            if k.get() == "span_id" {
                n += 1;
            }
            std::ops::ControlFlow::Continue(())
        });
        n
    });
    env.obs.lock().unwrap().push(Obs {
        id,
        trace: c.trace_id().map(|t| t.to_u128()),
        parent: c.span_parent().map(|s| s.to_u64()),
        span: c.span_id().map(|s| s.to_u64()),
        span_id_listed,
    });
}

fn event<C: TCtxt>(env: &Env<C>, id: usize) {
    emit::emit!(rt: env.rt, "event {eid}", eid: id as u64);
}

// ---------------------------------------------------------------------------------------------
// span call sites, sync

#[emit::span(rt: env.rt, mdl: emit::Path::new_raw(node.mdl), "sync_fn")]
fn span_sync_fn<C: TCtxt>(env: &Env<C>, node: &PNode) {
    check(env, node.pre);
    run_sync(env, &node.items);
}

fn span_manual_call<C: TCtxt>(env: &Env<C>, node: &PNode) {
    let (mut guard, frame) = emit::new_span!(rt: env.rt, mdl: emit::Path::new_raw(node.mdl), "manual_call");
    frame.call(move || {
        guard.start();
        check(env, node.pre);
        run_sync(env, &node.items);
        guard.complete();
    })
}

fn span_manual_enter<C: TCtxt>(env: &Env<C>, node: &PNode) {
    let (guard, mut frame) = emit::new_span!(rt: env.rt, mdl: emit::Path::new_raw(node.mdl), "manual_enter");
    {
        let _entered = frame.enter();
        // declared after the enter guard: an unwind drops (= completes) it while the frame is still entered
        let mut guard = guard;
        guard.start();
        check(env, node.pre);
        run_sync(env, &node.items);
        drop(guard);
    }
    drop(frame);
}

#[emit::span(rt: env.rt, guard: span, mdl: emit::Path::new_raw(node.mdl), "guard_sync")]
fn span_guard_sync<C: TCtxt>(env: &Env<C>, node: &PNode) {
    check(env, node.pre);
    run_sync(env, &node.items);
    span.complete();
}

#[emit::span(rt: env.rt, when: emit::filter::from_fn(|_| node.enabled), mdl: emit::Path::new_raw(node.mdl), "when_sync")]
fn span_when_sync<C: TCtxt>(env: &Env<C>, node: &PNode) {
    check(env, node.pre);
    run_sync(env, &node.items);
}

#[emit::span(rt: env.rt, ok_lvl: emit::Level::Debug, mdl: emit::Path::new_raw(node.mdl), "result_sync")]
fn span_result_sync<C: TCtxt>(env: &Env<C>, node: &PNode) -> Result<(), std::io::Error> {
    check(env, node.pre);
    run_sync(env, &node.items);
    if node.id % 2 == 1 {
        return Err(std::io::Error::new(std::io::ErrorKind::Other, "odd node"));
    }
    Ok(())
}

// ---------------------------------------------------------------------------------------------
// span call sites, async

#[emit::span(rt: env.rt, mdl: emit::Path::new_raw(node.mdl), "async_fn")]
async fn span_async_fn<C: TCtxt>(env: &Env<'_, C>, node: &PNode) {
    check(env, node.pre);
    run_async(env, &node.items).await;
}

async fn span_manual_future<C: TCtxt>(env: &Env<'_, C>, node: &PNode) {
    let (mut guard, frame) = emit::new_span!(rt: env.rt, mdl: emit::Path::new_raw(node.mdl), "manual_future");
    frame
        .in_future(async move {
            guard.start();
            check(env, node.pre);
            run_async(env, &node.items).await;
            guard.complete();
        })
        .await
}

#[emit::span(rt: env.rt, guard: span, mdl: emit::Path::new_raw(node.mdl), "guard_async")]
async fn span_guard_async<C: TCtxt>(env: &Env<'_, C>, node: &PNode) {
    check(env, node.pre);
    run_async(env, &node.items).await;
    span.complete();
}

#[emit::span(rt: env.rt, err_lvl: emit::Level::Warn, mdl: emit::Path::new_raw(node.mdl), "result_async")]
async fn span_result_async<C: TCtxt>(env: &Env<'_, C>, node: &PNode) -> Result<(), std::io::Error> {
    check(env, node.pre);
    run_async(env, &node.items).await;
    if node.id % 2 == 1 {
        return Err(std::io::Error::new(std::io::ErrorKind::Other, "odd node"));
    }
    Ok(())
}

// ---------------------------------------------------------------------------------------------
// span call sites where the span's OWN frame (the one `new_span!` returns) travels to another thread

fn park<C: TCtxt>(env: &Env<C>, r: std::thread::Result<Result<(), vcore::Fail>>) {
    let fail = match r {
        Ok(Ok(())) => return,
        Ok(Err(f)) => f,
        Err(_) => vcore::Fail::new("panic@handoff-thread", "hand-off thread died outside the guarded body"),
    };
    env.fail.lock().unwrap().get_or_insert(fail);
}

fn span_handoff_call<C: TCtxt>(env: &Env<C>, node: &PNode) {
    let (mut guard, frame) = emit::new_span!(rt: env.rt, mdl: emit::Path::new_raw(node.mdl), "handoff_call");
    let r = std::thread::scope(|s| {
        s.spawn(move || {
            vcore::catch(move || {
                // entering the carried frame is the first thing this thread does with the context
                let _ = catch_planned(|| {
                    frame.call(move || {
                        guard.start();
                        check(env, node.pre);
                        run_sync(env, &node.items);
                        guard.complete();
                    })
                });
                far_side_goes_on(env, node);
            })
        })
        .join()
    });
    park(env, r);
}

/// The far thread is a worker: after the span's frame has been left it goes on with unrelated work.
fn far_side_goes_on<C: TCtxt>(env: &Env<C>, node: &PNode) {
    if let Some(id) = node.far_end {
        check(env, id);
    }
    run_sync(env, &node.after);
}

fn span_handoff_in_fn<C: TCtxt>(env: &Env<C>, node: &PNode) {
    let (mut guard, frame) = emit::new_span!(rt: env.rt, mdl: emit::Path::new_raw(node.mdl), "handoff_in_fn");
    let on_thread = frame.in_fn(move || {
        guard.start();
        check(env, node.pre);
        run_sync(env, &node.items);
        drop(guard);
    });
    let r = std::thread::scope(|s| {
        s.spawn(move || {
            vcore::catch(move || {
                let _ = catch_planned(on_thread);
                far_side_goes_on(env, node);
            })
        })
        .join()
    });
    park(env, r);
}

fn span_handoff_enter_back<C: TCtxt>(env: &Env<C>, node: &PNode) {
    let (mut guard, mut frame) = emit::new_span!(rt: env.rt, mdl: emit::Path::new_raw(node.mdl), "handoff_enter_back");
    let r = std::thread::scope(|s| {
        s.spawn(move || {
            let r = vcore::catch(|| {
                let _ = catch_planned(|| {
                    let _entered = frame.enter();
                    guard.start();
                    check(env, node.pre);
                    run_sync(env, &node.items);
                });
                far_side_goes_on(env, node);
            });
            (r, guard, frame)
        })
        .join()
    });
    match r {
        Ok((r, guard, mut frame)) => {
            park(env, Ok(r));
            // back on the parent thread: complete inside the span's frame, as the docs demand
            let _entered = frame.enter();
            guard.complete();
        }
        Err(e) => park(env, Err(e)),
    }
}

async fn span_handoff_future<C: TCtxt>(env: &Env<'_, C>, node: &PNode) {
    let (mut guard, frame) = emit::new_span!(rt: env.rt, mdl: emit::Path::new_raw(node.mdl), "handoff_future");
    alternating(
        frame.in_future(async move {
            guard.start();
            check(env, node.pre);
            run_async(env, &node.items).await;
            guard.complete();
        }),
        &|| check(env, POLL_THREAD_END),
        env.fail,
    )
    .await
}

// ---------------------------------------------------------------------------------------------
// dispatch

fn span_sync<C: TCtxt>(env: &Env<C>, node: &PNode) {
    match node.form {
        Form::SyncFn => span_sync_fn(env, node),
        Form::ManualCall => span_manual_call(env, node),
        Form::ManualEnter => span_manual_enter(env, node),
        Form::GuardSync => span_guard_sync(env, node),
        Form::WhenSync => span_when_sync(env, node),
        Form::ResultSync => {
            let _ = span_result_sync(env, node);
        }
        // an async span started from synchronous code: driven to completion right here
        Form::HandoffCall => span_handoff_call(env, node),
        Form::HandoffInFn => span_handoff_in_fn(env, node),
        Form::HandoffEnterBack => span_handoff_enter_back(env, node),
        Form::AsyncFn | Form::ManualFuture | Form::GuardAsync | Form::ResultAsync | Form::HandoffFuture => block_on(span_async(env, node)),
    }
}

fn span_async<'a, C: TCtxt>(env: &'a Env<'a, C>, node: &'a PNode) -> BoxFut<'a> {
    match node.form {
        Form::AsyncFn => Box::pin(span_async_fn(env, node)),
        Form::ManualFuture => Box::pin(span_manual_future(env, node)),
        Form::GuardAsync => Box::pin(span_guard_async(env, node)),
        Form::HandoffFuture => Box::pin(span_handoff_future(env, node)),
        Form::ResultAsync => Box::pin(async move {
            let _ = span_result_async(env, node).await;
        }),
        // a synchronous span inside async code runs within one poll
        _ => Box::pin(async move { span_sync(env, node) }),
    }
}

pub fn run_sync<C: TCtxt>(env: &Env<C>, items: &[PItem]) {
    for it in items {
        match it {
            PItem::Span(n) => {
                span_sync(env, n);
                if let Some(post) = n.post {
                    check(env, post);
                }
            }
            PItem::Panic => planned_panic(),
            PItem::Catch { items, post } => {
                let _ = catch_planned(|| run_sync(env, items));
                check(env, *post);
            }
            PItem::CaptureFrame { slot, props } => capture_frame(env, *slot, *props),
            PItem::RunFrame { frame, how, items, pre, end, post } => {
                match frame.and_then(|f| env.frames[f].lock().unwrap().take()) {
                    None if *how == RunHow::OtherThread => run_frame_elsewhere(env, None, items, *pre, *end),
                    None => {
                        check(env, *pre);
                        run_sync(env, items);
                    }
                    Some(frame) => match how {
                        RunHow::Call => frame.call(|| {
                            check(env, *pre);
                            run_sync(env, items)
                        }),
                        RunHow::EnterGuard => {
                            let mut frame = frame;
                            let _entered = frame.enter();
                            check(env, *pre);
                            run_sync(env, items)
                        }
                        RunHow::InFuture => block_on(frame.in_future(async {
                            check(env, *pre);
                            run_async(env, items).await
                        })),
                        RunHow::OtherThread => run_frame_elsewhere(env, Some(frame), items, *pre, *end),
                    },
                }
                if let Some(post) = post {
                    check(env, *post);
                }
            }
            PItem::Event { id } => event(env, *id),
            PItem::Check { id } => check(env, *id),
            PItem::Yield => {}
            PItem::Hop { carry, fut, items, pre, end, after, post } => {
                hop(env, *carry, *fut, items, *pre, *end, after);
                check(env, *post);
            }
            PItem::Join { carry, migrate, tasks, schedule, post } => {
                block_on(join(spawn_tasks(env, *carry, tasks), schedule, *migrate, &|| check(env, POLL_THREAD_END), env.fail));
                check(env, *post);
            }
        }
    }
}

pub fn run_async<'a, C: TCtxt>(env: &'a Env<'a, C>, items: &'a [PItem]) -> BoxFut<'a> {
    Box::pin(async move {
        for it in items {
            match it {
                PItem::Span(n) => {
                    span_async(env, n).await;
                    if let Some(post) = n.post {
                        check(env, post);
                    }
                }
                PItem::Panic => planned_panic(),
                PItem::Catch { items, post } => {
                    catch_fut(run_async(env, items)).await;
                    check(env, *post);
                }
                PItem::CaptureFrame { slot, props } => capture_frame(env, *slot, *props),
                PItem::RunFrame { frame, how, items, pre, end, post } => {
                    match frame.and_then(|f| env.frames[f].lock().unwrap().take()) {
                        None if *how == RunHow::OtherThread => run_frame_elsewhere(env, None, items, *pre, *end),
                        None => {
                            check(env, *pre);
                            run_async(env, items).await;
                        }
                        Some(frame) => match how {
                            // synchronous ways of entering run their items within this poll
                            RunHow::Call => frame.call(|| {
                                check(env, *pre);
                                run_sync(env, items)
                            }),
                            RunHow::EnterGuard => {
                                let mut frame = frame;
                                let _entered = frame.enter();
                                check(env, *pre);
                                run_sync(env, items)
                            }
                            RunHow::InFuture => {
                                frame
                                    .in_future(async {
                                        check(env, *pre);
                                        run_async(env, items).await
                                    })
                                    .await
                            }
                            RunHow::OtherThread => run_frame_elsewhere(env, Some(frame), items, *pre, *end),
                        },
                    }
                    if let Some(post) = post {
                        check(env, *post);
                    }
                }
                PItem::Event { id } => event(env, *id),
                PItem::Check { id } => check(env, *id),
                PItem::Yield => yield_now().await,
                PItem::Hop { carry, fut, items, pre, end, after, post } => {
                    hop(env, *carry, *fut, items, *pre, *end, after);
                    check(env, *post);
                }
                PItem::Join { carry, migrate, tasks, schedule, post } => {
                    let hook = || check(env, POLL_THREAD_END);
                    join(spawn_tasks(env, *carry, tasks), schedule, *migrate, &hook, env.fail).await;
                    check(env, *post);
                }
            }
        }
    })
}

/// The task futures are created here, in the context of the joining code (like `join!(a(), b())`);
/// with `carry` each one is additionally wrapped in the current frame (like a spawned task would be).
fn spawn_tasks<'a, C: TCtxt>(env: &'a Env<'a, C>, carry: bool, tasks: &'a [Vec<PItem>]) -> Vec<BoxFut<'a>> {
    tasks
        .iter()
        .map(|t| -> BoxFut<'a> {
            if carry {
                Box::pin(Frame::current(env.rt.ctxt()).in_future(run_async(env, t)))
            } else {
                run_async(env, t)
            }
        })
        .collect()
}

/// Continue on a fresh thread (joined before going on, so the case stays deterministic).
fn hop<C: TCtxt>(env: &Env<C>, carry: bool, fut: bool, items: &[PItem], pre: usize, end: usize, after: &[PItem]) {
    let frame = if carry { Some(Frame::current(env.rt.ctxt())) } else { None };
    let r = std::thread::scope(|s| {
        s.spawn(move || {
            vcore::catch(move || {
                let body_sync = || {
                    check(env, pre);
                    run_sync(env, items)
                };
                // the body may panic (planned): this thread catches that and goes on
                let _ = catch_planned(|| match (frame, fut) {
                    (Some(f), false) => f.call(body_sync),
                    (Some(f), true) => block_on(f.in_future(async {
                        check(env, pre);
                        run_async(env, items).await
                    })),
                    (None, false) => body_sync(),
                    (None, true) => block_on(async {
                        check(env, pre);
                        run_async(env, items).await
                    }),
                });
                // the thread goes on as a worker: nothing of the carried frame may still be ambient
                check(env, end);
                run_sync(env, after);
            })
        })
        .join()
    });
    let fail = match r {
        Ok(Ok(())) => None,
        Ok(Err(f)) => Some(f),
        Err(_) => Some(vcore::Fail::new("panic@hop-thread", "hop thread died outside the guarded body")),
    };
    if let Some(f) = fail {
        let mut slot = env.fail.lock().unwrap();
        if slot.is_none() {
            *slot = Some(f);
        }
    }
}

// ---------------------------------------------------------------------------------------------
// non-span frames captured at one point and entered at another

fn capture_frame<C: TCtxt>(env: &Env<C>, slot: usize, props: bool) {
    let ctxt = env.rt.ctxt().clone();
    let frame = if props {
        let job = slot as u64;
        Frame::push(ctxt, emit::props! { job })
    } else {
        Frame::current(ctxt)
    };
    *env.frames[slot].lock().unwrap() = Some(frame);
}

fn run_frame_elsewhere<C: TCtxt>(env: &Env<C>, frame: Option<CapturedFrame<C>>, items: &[PItem], pre: usize, end: Option<usize>) {
    let r = std::thread::scope(|s| {
        s.spawn(move || {
            vcore::catch(move || {
                // entering the frame is this thread's first act; a planned panic in the body is caught here
                let _ = catch_planned(|| {
                    let body = || {
                        check(env, pre);
                        run_sync(env, items)
                    };
                    match frame {
                        Some(frame) => frame.call(body),
                        None => body(),
                    }
                });
                if let Some(end) = end {
                    check(env, end);
                }
            })
        })
        .join()
    });
    park(env, r);
}

// ---------------------------------------------------------------------------------------------
// root: incoming ids pushed into the context before the tree runs

pub fn hex32(v: u128, upper: bool) -> String {
    if upper {
        format!("{v:032X}")
    } else {
        format!("{v:032x}")
    }
}

pub fn hex16(v: u64, upper: bool) -> String {
    if upper {
        format!("{v:016X}")
    } else {
        format!("{v:016x}")
    }
}

pub fn run_root<C: TCtxt>(env: &Env<C>, incoming: Option<&Incoming>, items: &[PItem], final_check: usize) {
    match incoming {
        None => run_sync(env, items),
        Some(inc) => {
            let frame = match inc.form {
                IdForm::Typed => {
                    let trace_id = TraceId::from_u128(inc.trace()).unwrap();
                    let span_id = inc.span().map(|s| SpanId::from_u64(s).unwrap());
                    Frame::push(env.rt.ctxt(), emit::props! { trace_id, span_id })
                }
                IdForm::HexLower | IdForm::HexUpper => {
                    let upper = inc.form == IdForm::HexUpper;
                    let t = hex32(inc.trace(), upper);
                    let s = inc.span().map(|s| hex16(s, upper));
                    let trace_id: &str = &t;
                    let span_id: Option<&str> = s.as_deref();
                    Frame::push(env.rt.ctxt(), emit::props! { trace_id, span_id })
                }
                IdForm::Int => {
                    let trace_id: u128 = inc.trace();
                    let span_id: Option<u64> = inc.span();
                    Frame::push(env.rt.ctxt(), emit::props! { trace_id, span_id })
                }
            };
            frame.call(|| run_sync(env, items));
        }
    }
    check(env, final_check);
}
