//! The explicit runtime every case builds for itself: recording emitter, module filter, a fresh
//! ambient context of the generated kind (`ctxts.rs`), counting clock and the non-repeating counter rng.

use std::ops::ControlFlow;
use std::sync::atomic::{AtomicU64, Ordering};
use std::sync::{Arc, Mutex};
use std::time::Duration;

use emit::event::ToEvent;
use emit::runtime::Runtime;
use emit::{Clock, Ctxt, Emitter, Filter, Props, Rng, Timestamp};

use crate::tree::RngKind;

/// What the interpreter needs of an ambient context: frames travel between threads, the context value
/// is shared by them, and a captured frame owns a clone of it (`ThreadLocalCtxt` is `Copy`, the plain
/// user contexts are a handle, the type-erased one is an `Arc`).
pub trait TCtxt: Ctxt<Frame: Send> + Clone + Send + Sync + 'static {}

impl<C: Ctxt<Frame: Send> + Clone + Send + Sync + 'static> TCtxt for C {}

pub type Rt<C> = Runtime<Recorder, ModFilter, C, CountingClock, Option<CounterRng>>;

/// One event as it reached the emitter.
#[derive(Debug, Clone)]
pub struct Rec {
    pub is_span: bool,
    pub mdl: String,
    /// `eid` property of `emit!` events
    pub eid: Option<u64>,
    /// every occurrence (in enumeration order) of the three id keys, rendered with `Display`
    pub trace_id: Vec<String>,
    pub span_id: Vec<String>,
    pub span_parent: Vec<String>,
    pub has_extent: bool,
}

#[derive(Clone, Default)]
pub struct Recorder(pub Arc<Mutex<Vec<Rec>>>);

impl Emitter for Recorder {
    fn emit<E: ToEvent>(&self, evt: E) {
        let evt = evt.to_event();
        let mut rec = Rec {
            is_span: false,
            mdl: evt.mdl().to_string(),
            eid: None,
            trace_id: Vec::new(),
            span_id: Vec::new(),
            span_parent: Vec::new(),
            has_extent: evt.extent().is_some(),
        };
        let mut kind_seen = false;
        let mut eid_seen = false;
        let _ = evt.props().for_each(|k, v| {
            match k.get() {
                "evt_kind" if !kind_seen => {
                    kind_seen = true;
                    rec.is_span = v.to_string() == "span";
                }
                "eid" if !eid_seen => {
                    eid_seen = true;
                    rec.eid = v.to_string().parse().ok();
                }
                "trace_id" => rec.trace_id.push(v.to_string()),
                "span_id" => rec.span_id.push(v.to_string()),
                "span_parent" => rec.span_parent.push(v.to_string()),
                _ => {}
            }
            ControlFlow::Continue(())
        });
        self.0.lock().unwrap().push(rec);
    }

    fn blocking_flush(&self, _: Duration) -> bool {
        true
    }
}

/// Rejects everything whose module lies under `off`.
pub struct ModFilter;

impl Filter for ModFilter {
    fn matches<E: ToEvent>(&self, evt: E) -> bool {
        let evt = evt.to_event();
        !evt.mdl().to_string().starts_with("off::")
    }
}

pub struct CountingClock(AtomicU64);

impl Clock for CountingClock {
    fn now(&self) -> Option<Timestamp> {
        Timestamp::from_unix(Duration::from_secs(1_700_000_000 + self.0.fetch_add(1, Ordering::Relaxed)))
    }
}

/// k-th 64-bit word = splitmix64 finaliser (a bijection on u64) of `seed + k`, skipping the single
/// zero output: never repeats within 2^64 draws and never yields 0.
pub struct CounterRng {
    next: AtomicU64,
    mixed: bool,
}

fn mix64(x: u64) -> u64 {
    let mut z = x.wrapping_add(0x9E3779B97F4A7C15);
    z = (z ^ (z >> 30)).wrapping_mul(0xBF58476D1CE4E5B9);
    z = (z ^ (z >> 27)).wrapping_mul(0x94D049BB133111EB);
    z ^ (z >> 31)
}

impl CounterRng {
    pub fn new(seed: u64) -> Self {
        CounterRng { next: AtomicU64::new(seed), mixed: true }
    }

    pub fn sequential(seed: u64) -> Self {
        CounterRng { next: AtomicU64::new(seed), mixed: false }
    }

    fn word(&self) -> u64 {
        loop {
            let k = self.next.fetch_add(1, Ordering::Relaxed);
            let v = if self.mixed { mix64(k) } else { k };
            if v != 0 {
                return v;
            }
        }
    }
}

impl Rng for CounterRng {
    fn fill<A: AsMut<[u8]>>(&self, mut arr: A) -> Option<A> {
        for chunk in arr.as_mut().chunks_mut(8) {
            let w = self.word().to_le_bytes();
            chunk.copy_from_slice(&w[..chunk.len()]);
        }
        Some(arr)
    }
}

pub fn build<C: TCtxt>(rng: RngKind, ctxt: C) -> (Rt<C>, Recorder) {
    let rec = Recorder::default();
    let rt = Runtime::new()
        .with_emitter(rec.clone())
        .with_filter(ModFilter)
        .with_ctxt(ctxt)
        .with_clock(CountingClock(AtomicU64::new(0)))
        .with_rng(match rng {
            RngKind::Counter(seed) => Some(CounterRng::new(seed)),
            RngKind::Sequential(seed) => Some(CounterRng::sequential(seed)),
            RngKind::Empty => None,
        });
    (rt, rec)
}
