//! The span tree as data (the replay unit), its numbering into a program with unique node / event /
//! check ids, and the *static* part of the model: for every program point the innermost enclosing
//! ENABLED span (or none) and whether the incoming ids pushed before the root are visible there.

use serde::{Deserialize, Serialize};
use std::sync::OnceLock;

/// How a span node is written in the interpreter (each variant is one fixed macro call site).
#[derive(Serialize, Deserialize, Debug, Clone, Copy, PartialEq, Eq)]
pub enum Form {
    /// `#[emit::span(rt, mdl, ..)] fn`
    SyncFn,
    /// `emit::new_span!` + `frame.call(move || { guard.start(); ..; guard.complete() })`
    ManualCall,
    /// `emit::new_span!` + `let _g = frame.enter(); guard.start(); ..; drop(guard)`
    ManualEnter,
    /// `#[emit::span(rt, guard: span, ..)] fn` completing the guard by hand at the end
    GuardSync,
    /// `#[emit::span(rt, when: from_fn(|_| enabled), ..)] fn` (the `when` parameter decides instead of the runtime filter)
    WhenSync,
    /// `#[emit::span(rt, ok_lvl: .., ..)] fn -> Result` (the expansion that wraps the body in a closure and
    /// completes through `complete_with`); odd nodes return `Err`
    ResultSync,
    /// `#[emit::span(..)] async fn`
    AsyncFn,
    /// `emit::new_span!` + `frame.in_future(async move { guard.start(); ..; guard.complete() }).await`
    ManualFuture,
    /// `#[emit::span(rt, guard: span, ..)] async fn`
    GuardAsync,
    /// `#[emit::span(rt, err_lvl: .., ..)] async fn -> Result`; odd nodes return `Err`
    ResultAsync,
    /// the span's OWN frame (from `new_span!`) is moved to a fresh thread and entered there with
    /// `frame.call(..)`; the guard is started and completed there
    HandoffCall,
    /// `thread::spawn(frame.in_fn(..))` with the span's own frame; guard started and completed there
    HandoffInFn,
    /// the span's own frame is entered on a fresh thread (`frame.enter()`), the guard is started there,
    /// comes back with the frame and is completed on the parent thread inside `frame.enter()` again
    HandoffEnterBack,
    /// `frame.in_future(async move { guard.start(); ..; guard.complete() })` with the span's own frame,
    /// whose polls alternate between fresh threads and the awaiting thread
    HandoffFuture,
}

impl Form {
    pub fn is_async(self) -> bool {
        matches!(self, Form::AsyncFn | Form::ManualFuture | Form::GuardAsync | Form::ResultAsync | Form::HandoffFuture)
    }
    /// the frame returned by `new_span!` itself travels to another thread
    /// hand-off forms whose body runs synchronously on one far thread (which can then go on with other work)
    pub fn is_sync_handoff(self) -> bool {
        matches!(self, Form::HandoffCall | Form::HandoffInFn | Form::HandoffEnterBack)
    }
    pub fn is_handoff(self) -> bool {
        matches!(self, Form::HandoffCall | Form::HandoffInFn | Form::HandoffEnterBack | Form::HandoffFuture)
    }
    pub fn label(self) -> &'static str {
        match self {
            Form::SyncFn => "form:sync-fn",
            Form::ManualCall => "form:manual-call",
            Form::ManualEnter => "form:manual-enter",
            Form::GuardSync => "form:guard-sync",
            Form::WhenSync => "form:when-sync",
            Form::ResultSync => "form:result-sync",
            Form::ResultAsync => "form:result-async",
            Form::AsyncFn => "form:async-fn",
            Form::ManualFuture => "form:manual-future",
            Form::GuardAsync => "form:guard-async",
            Form::HandoffCall => "form:handoff-call",
            Form::HandoffInFn => "form:handoff-in-fn",
            Form::HandoffEnterBack => "form:handoff-enter-back",
            Form::HandoffFuture => "form:handoff-future",
        }
    }
}

#[derive(Serialize, Deserialize, Debug, Clone, Copy, PartialEq, Eq)]
pub enum RunHow {
    /// `frame.call(..)`
    Call,
    /// `let _g = frame.enter(); ..`
    EnterGuard,
    /// `frame.in_future(async { .. })`, awaited (block_on in sync code)
    InFuture,
    /// moved to a fresh thread and `frame.call(..)`ed there (without a frame: the items still run on a fresh thread)
    OtherThread,
}

#[derive(Serialize, Deserialize, Debug, Clone)]
pub struct Node {
    pub form: Form,
    /// false: the filter rejects this span (by module, or through `when` for `WhenSync`)
    pub enabled: bool,
    pub items: Vec<Item>,
    /// only for the synchronous hand-off forms: more work on the SAME far thread after the span's frame
    /// has been left there (an unrelated program: nothing of the span may still be ambient)
    #[serde(default)]
    pub after: Vec<Item>,
}

#[derive(Serialize, Deserialize, Debug, Clone)]
pub enum Item {
    Span(Node),
    /// `emit::emit!(rt: rt, ..)`
    Event,
    /// `SpanCtxt::current(rt.ctxt())`
    Check,
    /// return `Pending` once (only meaningful in async bodies; a no-op in sync ones)
    Yield,
    /// panic right here (a quiet, planned unwind); it travels up through every enclosing scope to the
    /// nearest `Catch` (or to the top of the hop / hand-off thread it happens on, which catches it too)
    Panic,
    /// `catch_unwind` around `items` (in async code: around every poll of them); the thread is used on afterwards
    Catch { items: Vec<Item> },
    /// make a NON-span frame here and keep it for later: `Frame::current(rt.ctxt())`, or with `props`
    /// `Frame::push(rt.ctxt(), props!{ job })` (a plain property) — what a dispatcher captures when a job is submitted
    CaptureFrame { props: bool },
    /// take the nearest frame captured lexically before this point that nobody has used yet (none: just run
    /// the items) and run `items` inside it, wherever this is. A `ThreadLocalCtxt` frame is a full snapshot
    /// of what was ambient where it was made: that is what is ambient inside, and what was ambient before
    /// it was entered is ambient again afterwards
    RunFrame { how: RunHow, items: Vec<Item> },
    /// run `items` on a fresh thread; `carry` = inside `Frame::current(rt.ctxt())` captured here;
    /// `fut` = through `Frame::in_future` + a block_on on that thread instead of `Frame::call`
    /// `after`: more work on the SAME fresh thread once the carried frame has been left (the thread is a
    /// worker that goes on with something unrelated; entering the carried frame was its very first act)
    Hop {
        carry: bool,
        fut: bool,
        items: Vec<Item>,
        #[serde(default)]
        after: Vec<Item>,
    },
    /// poll the tasks on the hand-rolled executor in the order given by `schedule` (low 3 bits pick the
    /// live task; then round robin); `carry` wraps each task in `Frame::current(rt.ctxt()).in_future(..)`;
    /// `migrate` (only with `carry`) runs the polls whose schedule entry has bit 3 set on a fresh thread,
    /// like a work-stealing runtime resuming a spawned task on another worker
    Join { carry: bool, migrate: bool, tasks: Vec<Vec<Item>>, schedule: Vec<u8> },
}

#[derive(Serialize, Deserialize, Debug, Clone, Copy, PartialEq, Eq)]
pub enum IdForm {
    /// `TraceId` / `SpanId` values
    Typed,
    /// 32 / 16 lowercase hex digits as `&str`
    HexLower,
    /// 32 / 16 uppercase hex digits as `&str`
    HexUpper,
    /// `u128` / `u64`
    Int,
}

#[derive(Serialize, Deserialize, Debug, Clone)]
pub struct Incoming {
    /// (high, low) 64 bits of the trace id (serde_json has no u128); non-zero (0 is mapped to 1)
    pub trace: (u64, u64),
    /// non-zero when present (0 is mapped to 1)
    pub span: Option<u64>,
    pub form: IdForm,
}

impl Incoming {
    pub fn trace(&self) -> u128 {
        (((self.trace.0 as u128) << 64) | self.trace.1 as u128).max(1)
    }
    pub fn span(&self) -> Option<u64> {
        self.span.map(|s| s.max(1))
    }
}

#[derive(Serialize, Deserialize, Debug, Clone, Copy, PartialEq, Eq)]
pub enum RngKind {
    /// non-repeating: k-th 64-bit draw = bijective_mix(seed + k), skipping 0
    Counter(u64),
    /// `None::<CounterRng>` — behaves like `emit::Empty`: every draw fails
    Empty,
    /// non-repeating and SEQUENTIAL: k-th 64-bit draw = seed + k (skipping 0) -- successive draws differ in their low
    /// bits only, like a counting test rng; "distinct as long as the random source does not repeat" holds for it too
    Sequential(u64),
}

/// The ambient context the runtime is built with (`ctxts.rs`).
#[derive(Serialize, Deserialize, Debug, Clone, Copy, PartialEq, Eq, Default)]
pub enum CtxtKind {
    /// `ThreadLocalCtxt::new()`: a map, unique keys, keyed lookup, typed fast path for ids
    #[default]
    ThreadLocal,
    /// the minimal user context: required methods only, frames are flat lists of pairs, the provided
    /// `open_push` / `open_disabled`; `Current` lists innermost first WITH duplicates (`dedup`: `open_root`
    /// keeps the first pair per key instead)
    Stack { dedup: bool },
    /// `Arc<dyn ErasedCtxt + Send + Sync>` over the given context
    Erased(Inner),
}

#[derive(Serialize, Deserialize, Debug, Clone, Copy, PartialEq, Eq)]
pub enum Inner {
    ThreadLocal,
    /// `Some(ThreadLocalCtxt)`
    SomeThreadLocal,
    Stack,
    StackDedup,
    /// persistent stack of frames with its own `open_push`, duplicates innermost first
    Chain,
    /// `Some(StackCtxt)`
    SomeStack,
    /// `Arc<StackCtxt>`
    ArcStack,
    /// `Box<ChainCtxt>`
    BoxChain,
}

impl CtxtKind {
    /// `Current` can list a key more than once (innermost first; valid: `Props` is first-wins)
    pub fn duplicates(self) -> bool {
        match self {
            CtxtKind::ThreadLocal | CtxtKind::Stack { dedup: true } => false,
            CtxtKind::Stack { dedup: false } => true,
            CtxtKind::Erased(i) => matches!(i, Inner::Stack | Inner::Chain | Inner::SomeStack | Inner::ArcStack | Inner::BoxChain),
        }
    }
    pub fn label(self) -> &'static str {
        match self {
            CtxtKind::ThreadLocal => "ctxt:thread-local",
            CtxtKind::Stack { dedup: false } => "ctxt:plain-stack/provided-open-push/duplicates",
            CtxtKind::Stack { dedup: true } => "ctxt:plain-stack/provided-open-push/dedup-in-open-root",
            CtxtKind::Erased(Inner::ThreadLocal) => "ctxt:erased/thread-local",
            CtxtKind::Erased(Inner::SomeThreadLocal) => "ctxt:erased/some-thread-local",
            CtxtKind::Erased(Inner::Stack) => "ctxt:erased/plain-stack-duplicates",
            CtxtKind::Erased(Inner::StackDedup) => "ctxt:erased/plain-stack-dedup",
            CtxtKind::Erased(Inner::Chain) => "ctxt:erased/frame-chain-duplicates",
            CtxtKind::Erased(Inner::SomeStack) => "ctxt:erased/some-plain-stack-duplicates",
            CtxtKind::Erased(Inner::ArcStack) => "ctxt:erased/arc-plain-stack-duplicates",
            CtxtKind::Erased(Inner::BoxChain) => "ctxt:erased/box-frame-chain-duplicates",
        }
    }
}

#[derive(Serialize, Deserialize, Debug, Clone)]
pub struct Case {
    pub rng: RngKind,
    pub incoming: Option<Incoming>,
    pub items: Vec<Item>,
    /// (absent in replay files written before the context became a dimension: the real one)
    #[serde(default)]
    pub ctxt: CtxtKind,
}

// ---------------------------------------------------------------------------------------------
// numbered program

/// Where a program point sits: the innermost enclosing enabled span, and whether the incoming ids
/// pushed before the root are still visible (false after a thread hop that carries no frame).
#[derive(Debug, Clone, Copy, PartialEq, Eq)]
pub struct Scope {
    pub span: Option<usize>,
    pub base: bool,
}

#[derive(Debug)]
pub struct PNode {
    pub id: usize,
    pub form: Form,
    pub enabled: bool,
    pub mdl: &'static str,
    pub items: Vec<PItem>,
    /// check id taken as the first statement of the body
    pub pre: usize,
    /// check id taken right after the span has ended (None: the span is left by a planned panic that
    /// travels on through the caller, so that statement is never reached)
    pub post: Option<usize>,
    /// synchronous hand-off forms: check taken on the far thread right after the span's frame was left …
    pub far_end: Option<usize>,
    /// … followed by this unrelated work on that thread
    pub after: Vec<PItem>,
}

#[derive(Debug)]
pub enum PItem {
    Span(PNode),
    Event { id: usize },
    Check { id: usize },
    Yield,
    Panic,
    Catch { items: Vec<PItem>, post: usize },
    CaptureFrame { slot: usize, props: bool },
    /// `frame`: the capture slot this run takes (resolved lexically by the numberer, each capture is used once)
    RunFrame { frame: Option<usize>, how: RunHow, items: Vec<PItem>, pre: usize, end: Option<usize>, post: Option<usize> },
    Hop { carry: bool, fut: bool, items: Vec<PItem>, pre: usize, end: usize, after: Vec<PItem>, post: usize },
    Join { carry: bool, migrate: bool, tasks: Vec<Vec<PItem>>, schedule: Vec<u8>, post: usize },
}

#[derive(Debug, Clone)]
pub struct SpanInfo {
    pub enabled: bool,
    /// the scope the span is started in (its nearest enabled ancestor)
    pub outer: Scope,
    pub depth: usize,
    /// for an enabled span: how many enabled spans' ids are stacked in the ambient context inside it (itself
    /// included) — the chain of nearest enabled ancestors as the ambient context sees it, which also runs
    /// through carried / captured frames; 0 for a rejected span
    pub chain: usize,
    pub form: Form,
    /// the span is left by a planned panic (whether it then completes is C05's business: 0 or 1 events)
    pub unwinds: bool,
}

#[derive(Debug, Default)]
pub struct Stats {
    pub max_depth: usize,
    /// longest chain of enabled spans stacked in the ambient context
    pub max_chain: usize,
    /// an `emit!` event directly inside an enabled span whose chain is >= 3
    pub event_at_chain3: bool,
    /// an enabled span with chain >= 3 ends normally and the check right after it (back in its parent,
    /// chain >= 2) is taken: "when a span ends the ambient ids revert to its parent's" below the top levels
    pub revert_after_chain3: bool,
    pub disabled_with_enabled_descendant: bool,
    pub joins: usize,
    pub join_tasks_max: usize,
    pub join_interleavable: bool,
    pub hops_carry: usize,
    pub hops_bare: usize,
    pub hops_future: usize,
    pub joins_carry: usize,
    pub joins_migrating: usize,
    pub handoffs: usize,
    pub frames_run: usize,
    pub frame_entered_where_ambient_differs: bool,
    pub foreign_frame_in_span: bool,
    pub foreign_frame_by_call: bool,
    pub foreign_frame_by_enter: bool,
    pub foreign_frame_by_future: bool,
    pub frame_captured_in_span_entered_elsewhere: bool,
    pub exit_panic_sync_call: bool,
    pub exit_panic_enter_guard: bool,
    pub exit_panic_async: bool,
    pub exit_panic_disabled_span: bool,
    pub exit_panic_caught_on_far_thread: bool,
    pub after_panic_sibling_span: bool,
    pub after_panic_event_in_enclosing_span: bool,
    pub after_panic_new_root_trace: bool,
    pub worker_root_span_after_carried_frame: bool,
    pub handoff_enabled_with_descendants: bool,
    pub handoff_disabled_with_descendants: bool,
    pub events: usize,
    pub events_in_disabled: bool,
    pub async_nodes: usize,
    pub sync_in_async: bool,
    pub async_in_sync: bool,
}

#[derive(Debug)]
pub struct Prog {
    pub items: Vec<PItem>,
    pub spans: Vec<SpanInfo>,
    pub events: Vec<Scope>,
    pub checks: Vec<Scope>,
    /// check taken after everything (incoming frame included) has been left
    pub final_check: usize,
    /// number of capture slots
    pub frames: usize,
    pub stats: Stats,
}

pub const MAX_NODES: usize = 256;

/// Static module names: `on::nNNN` is accepted by the runtime's filter, `off::nNNN` rejected.
pub fn mdl_name(id: usize, on: bool) -> &'static str {
    static TABLE: OnceLock<Vec<(&'static str, &'static str)>> = OnceLock::new();
    let t = TABLE.get_or_init(|| {
        (0..MAX_NODES)
            .map(|i| {
                let on: &'static str = Box::leak(format!("on::n{i:03}").into_boxed_str());
                let off: &'static str = Box::leak(format!("off::n{i:03}").into_boxed_str());
                (on, off)
            })
            .collect()
    });
    assert!(id < MAX_NODES, "more than {MAX_NODES} span nodes in one case");
    if on {
        t[id].0
    } else {
        t[id].1
    }
}

/// `on::n017` / `off::n017` → 17
pub fn node_of_mdl(mdl: &str) -> Option<usize> {
    let rest = mdl.strip_prefix("on::n").or_else(|| mdl.strip_prefix("off::n"))?;
    rest.parse().ok()
}

struct Numberer {
    spans: Vec<SpanInfo>,
    events: Vec<Scope>,
    checks: Vec<Scope>,
    stats: Stats,
    /// control flow of planned panics: one is travelling up through the items being numbered …
    unwinding: bool,
    /// … and has left this many ENABLED spans so far
    unwound_enabled: usize,
    /// the thread whose items are being numbered has caught a panic that unwound through enabled spans
    after_panic: bool,
    /// what was ambient where each `CaptureFrame` stands, by slot …
    captured: Vec<Scope>,
    /// … the slots lexically visible from the point being numbered, innermost last …
    visible: Vec<usize>,
    /// … and those some `RunFrame` has already claimed
    used: Vec<bool>,
}

#[derive(Clone, Copy)]
struct Where {
    scope: Scope,
    depth: usize,
    in_async: bool,
    in_disabled: bool,
}

impl Numberer {
    fn check(&mut self, scope: Scope) -> usize {
        self.checks.push(scope);
        self.checks.len() - 1
    }

    /// Items behind a point where a planned panic leaves the list never run: they are not numbered (and
    /// not interpreted), so "exactly once" keeps holding for everything that is.
    fn items(&mut self, items: &[Item], w: Where) -> Vec<PItem> {
        // captures made inside this list stop being visible when it ends (a later point cannot be sure they ran)
        let visible = self.visible.len();
        let mut out = Vec::new();
        for it in items {
            out.push(self.item(it, w));
            if self.unwinding {
                break;
            }
        }
        self.visible.truncate(visible);
        out
    }

    /// The unwind stops here; `goes_on`: the catching thread is the one whose items follow.
    fn caught(&mut self) -> bool {
        let through_spans = self.unwinding && self.unwound_enabled > 0;
        self.unwinding = false;
        self.unwound_enabled = 0;
        through_spans
    }

    fn item(&mut self, it: &Item, w: Where) -> PItem {
        match it {
            Item::Panic => {
                self.unwinding = true;
                self.unwound_enabled = 0;
                PItem::Panic
            }
            Item::CaptureFrame { props } => {
                let slot = self.captured.len();
                self.captured.push(w.scope);
                self.used.push(false);
                self.visible.push(slot);
                PItem::CaptureFrame { slot, props: *props }
            }
            Item::RunFrame { how, items } => {
                let frame = self.visible.iter().rev().copied().find(|s| !self.used[*s]);
                if let Some(f) = frame {
                    self.used[f] = true;
                }
                let elsewhere = *how == RunHow::OtherThread;
                let nothing = Scope { span: None, base: false };
                let inner = match frame {
                    // the frame is a snapshot of what was ambient where it was captured
                    Some(f) => self.captured[f],
                    None if elsewhere => nothing,
                    None => w.scope,
                };
                if let Some(f) = frame {
                    self.stats.frames_run += 1;
                    let c = self.captured[f];
                    if !elsewhere && c != w.scope {
                        self.stats.frame_entered_where_ambient_differs = true;
                        // captured where nothing was ambient, entered inside an enabled span
                        if c.span.is_none() && !c.base && w.scope.span.is_some() {
                            self.stats.foreign_frame_in_span = true;
                            match how {
                                RunHow::Call => self.stats.foreign_frame_by_call = true,
                                RunHow::EnterGuard => self.stats.foreign_frame_by_enter = true,
                                RunHow::InFuture => self.stats.foreign_frame_by_future = true,
                                RunHow::OtherThread => {}
                            }
                        }
                        if c.span.is_some() {
                            self.stats.frame_captured_in_span_entered_elsewhere = true;
                        }
                    }
                }
                let pre = self.check(inner);
                let saved_after = elsewhere.then(|| std::mem::replace(&mut self.after_panic, false));
                let in_async = match (frame, how) {
                    (Some(_), RunHow::InFuture) => true,
                    (Some(_), _) | (None, RunHow::OtherThread) => false,
                    (None, _) => w.in_async,
                };
                let items = self.items(items, Where { scope: inner, in_async, ..w });
                let end = if elsewhere {
                    // a planned panic in the body is caught at the top of that thread
                    if self.unwinding {
                        self.stats.exit_panic_caught_on_far_thread = true;
                    }
                    self.caught();
                    Some(self.check(nothing))
                } else {
                    None
                };
                if let Some(v) = saved_after {
                    self.after_panic = v;
                }
                // left by a planned panic: the statement after it is never reached
                let post = if self.unwinding { None } else { Some(self.check(w.scope)) };
                PItem::RunFrame { frame, how: *how, items, pre, end, post }
            }
            Item::Catch { items } => {
                let items = self.items(items, w);
                if self.caught() {
                    self.after_panic = true;
                }
                // "when a span ends the ambient ids revert": ending by unwinding included
                let post = self.check(w.scope);
                PItem::Catch { items, post }
            }
            Item::Event => {
                if self.after_panic && w.scope.span.is_some() {
                    self.stats.after_panic_event_in_enclosing_span = true;
                }
                if w.scope.span.is_some_and(|a| self.spans[a].chain >= 3) {
                    self.stats.event_at_chain3 = true;
                }
                self.events.push(w.scope);
                self.stats.events += 1;
                if w.in_disabled {
                    self.stats.events_in_disabled = true;
                }
                PItem::Event { id: self.events.len() - 1 }
            }
            Item::Check => PItem::Check { id: self.check(w.scope) },
            Item::Yield => PItem::Yield,
            Item::Span(n) => {
                let id = self.spans.len();
                let depth = w.depth + 1;
                self.stats.max_depth = self.stats.max_depth.max(depth);
                let chain = if n.enabled { 1 + w.scope.span.map_or(0, |a| self.spans[a].chain) } else { 0 };
                self.stats.max_chain = self.stats.max_chain.max(chain);
                self.spans.push(SpanInfo { enabled: n.enabled, outer: w.scope, depth, chain, form: n.form, unwinds: false });
                if self.after_panic {
                    if w.scope.span.is_some() {
                        self.stats.after_panic_sibling_span = true;
                    } else if n.enabled && !w.scope.base {
                        self.stats.after_panic_new_root_trace = true;
                    }
                }
                // a hand-off body runs on other threads: "after a panic on this thread" does not carry over
                let saved_after = n.form.is_handoff().then(|| std::mem::replace(&mut self.after_panic, false));
                if n.form.is_async() {
                    self.stats.async_nodes += 1;
                    if !w.in_async {
                        self.stats.async_in_sync = true;
                    }
                } else if w.in_async {
                    self.stats.sync_in_async = true;
                }
                // for `WhenSync` the module always passes the runtime filter; `when` decides
                let mdl = mdl_name(id, n.enabled || n.form == Form::WhenSync);
                let inner = if n.enabled { Scope { span: Some(id), base: w.scope.base } } else { w.scope };
                let pre = self.check(inner);
                let before = self.spans.len();
                let events_before = self.events.len();
                let items = self.items(
                    &n.items,
                    Where { scope: inner, depth, in_async: n.form.is_async(), in_disabled: !n.enabled },
                );
                let mut far_thread_caught = false;
                if self.unwinding {
                    // a planned panic leaves this span
                    self.spans[id].unwinds = true;
                    match n.form {
                        Form::ManualEnter | Form::HandoffEnterBack => self.stats.exit_panic_enter_guard = true,
                        f if f.is_async() => self.stats.exit_panic_async = true,
                        // everything that goes through `Frame::call` (attribute on a sync fn, `in_fn`, …)
                        _ => self.stats.exit_panic_sync_call = true,
                    }
                    if n.enabled {
                        self.unwound_enabled += 1;
                    } else {
                        self.stats.exit_panic_disabled_span = true;
                    }
                    if n.form.is_handoff() {
                        // the far thread (or the task's own poll loop) catches it; the parent just goes on
                        self.stats.exit_panic_caught_on_far_thread = true;
                        far_thread_caught = self.caught();
                    }
                }
                let enabled_below = self.spans[before..].iter().any(|s| s.enabled);
                if !n.enabled && enabled_below {
                    self.stats.disabled_with_enabled_descendant = true;
                }
                if n.form.is_handoff() {
                    self.stats.handoffs += 1;
                    // something below that has to find the ids ABOVE this node through this node's own frame
                    let content = enabled_below || self.events.len() > events_before;
                    let something_above = w.scope.span.is_some() || w.scope.base;
                    if content && n.enabled {
                        self.stats.handoff_enabled_with_descendants = true;
                    }
                    if content && !n.enabled && something_above {
                        self.stats.handoff_disabled_with_descendants = true;
                    }
                }
                // what the far thread does after the span's frame was left: nothing is ambient there
                let nothing = Scope { span: None, base: false };
                let (far_end, after) = if n.form.is_sync_handoff() {
                    let far_end = self.check(nothing);
                    let first = self.spans.len();
                    self.after_panic = far_thread_caught;
                    let after = self.items(&n.after, Where { scope: nothing, depth: 0, in_async: false, in_disabled: false });
                    assert!(!self.unwinding, "a planned panic in `after` items is never caught (normaliser)");
                    let carried_ids = n.enabled || w.scope.span.is_some() || w.scope.base;
                    if carried_ids && self.spans[first..].iter().any(|s| s.enabled && s.depth == 1) {
                        self.stats.worker_root_span_after_carried_frame = true;
                    }
                    (Some(far_end), after)
                } else {
                    (None, Vec::new())
                };
                if let Some(v) = saved_after {
                    self.after_panic = v;
                }
                let post = if self.unwinding { None } else { Some(self.check(w.scope)) };
                if post.is_some() && chain >= 3 {
                    self.stats.revert_after_chain3 = true;
                }
                PItem::Span(PNode { id, form: n.form, enabled: n.enabled, mdl, items, pre, post, far_end, after })
            }
            Item::Hop { carry, fut, items, after } => {
                if *carry {
                    self.stats.hops_carry += 1;
                } else {
                    self.stats.hops_bare += 1;
                }
                if *fut {
                    self.stats.hops_future += 1;
                }
                let inner = if *carry { w.scope } else { Scope { span: None, base: false } };
                let pre = self.check(inner);
                let saved_after = std::mem::replace(&mut self.after_panic, false);
                let items = self.items(items, Where { scope: inner, in_async: *fut, ..w });
                // a planned panic in the body is caught at the top of the hop thread, which goes on
                if self.unwinding {
                    self.stats.exit_panic_caught_on_far_thread = true;
                }
                let far_thread_caught = self.caught();
                let nothing = Scope { span: None, base: false };
                let end = self.check(nothing);
                let first = self.spans.len();
                self.after_panic = far_thread_caught;
                let after = self.items(after, Where { scope: nothing, depth: 0, in_async: false, in_disabled: false });
                assert!(!self.unwinding, "a planned panic in `after` items is never caught (normaliser)");
                self.after_panic = saved_after;
                if *carry && (w.scope.span.is_some() || w.scope.base) && self.spans[first..].iter().any(|s| s.enabled && s.depth == 1) {
                    self.stats.worker_root_span_after_carried_frame = true;
                }
                let post = self.check(w.scope);
                PItem::Hop { carry: *carry, fut: *fut, items, pre, end, after, post }
            }
            Item::Join { carry, migrate, tasks, schedule } => {
                self.stats.joins += 1;
                if *carry && *migrate && schedule.iter().any(|v| v & 8 != 0) {
                    self.stats.joins_migrating += 1;
                }
                self.stats.join_tasks_max = self.stats.join_tasks_max.max(tasks.len());
                if *carry {
                    self.stats.joins_carry += 1;
                }
                let suspends = tasks.iter().filter(|t| can_suspend(t)).count();
                if tasks.len() >= 2 && suspends >= 1 {
                    self.stats.join_interleavable = true;
                }
                let saved_after = self.after_panic;
                let tasks = tasks
                    .iter()
                    .map(|t| {
                        self.after_panic = false;
                        let t = self.items(t, Where { in_async: true, ..w });
                        assert!(!self.unwinding, "a planned panic never leaves a join task (normaliser)");
                        t
                    })
                    .collect();
                self.after_panic = saved_after;
                let post = self.check(w.scope);
                PItem::Join { carry: *carry, migrate: *carry && *migrate, tasks, schedule: schedule.clone(), post }
            }
        }
    }
}

/// Whether running these items in async mode can return `Pending` at least once.
fn can_suspend(items: &[Item]) -> bool {
    items.iter().any(|it| match it {
        Item::Yield => true,
        Item::Span(n) => n.form.is_async() && can_suspend(&n.items),
        Item::Join { tasks, .. } => !tasks.is_empty(),
        _ => false,
    })
}

pub fn number(case: &Case) -> Prog {
    let mut n = Numberer { spans: Vec::new(), events: Vec::new(), checks: Vec::new(), stats: Stats::default(), unwinding: false, unwound_enabled: 0, after_panic: false, captured: Vec::new(), visible: Vec::new(), used: Vec::new() };
    let top = Scope { span: None, base: case.incoming.is_some() };
    let items = n.items(&case.items, Where { scope: top, depth: 0, in_async: false, in_disabled: false });
    assert!(!n.unwinding, "a planned panic never reaches the top of the case (normaliser)");
    let final_check = n.check(Scope { span: None, base: false });
    Prog { items, spans: n.spans, events: n.events, checks: n.checks, final_check, frames: n.captured.len(), stats: n.stats }
}
