//! Hand-rolled single-thread executor pieces: `block_on`, a one-shot `Yield`, and a join whose poll
//! order is the generated schedule (one child poll per poll of the join).

use std::future::Future;
use std::pin::Pin;
use std::task::{Context, Poll, Waker};

pub type BoxFut<'a> = Pin<Box<dyn Future<Output = ()> + 'a>>;

pub fn block_on<F: Future>(fut: F) -> F::Output {
    let mut fut = std::pin::pin!(fut);
    let mut cx = Context::from_waker(Waker::noop());
    let mut polls = 0u64;
    loop {
        if let Poll::Ready(v) = fut.as_mut().poll(&mut cx) {
            return v;
        }
        polls += 1;
        assert!(polls < 10_000_000, "harness executor: future never completes");
    }
}

/// `Pending` once, then `Ready`.
pub struct YieldNow(bool);

pub fn yield_now() -> YieldNow {
    YieldNow(false)
}

impl Future for YieldNow {
    type Output = ();
    fn poll(mut self: Pin<&mut Self>, cx: &mut Context<'_>) -> Poll<()> {
        if self.0 {
            Poll::Ready(())
        } else {
            self.0 = true;
            cx.waker().wake_by_ref();
            Poll::Pending
        }
    }
}

pub struct JoinFut<'a> {
    tasks: Vec<Option<BoxFut<'a>>>,
    schedule: &'a [u8],
    pos: usize,
    rr: usize,
}

pub fn join<'a>(tasks: Vec<BoxFut<'a>>, schedule: &'a [u8]) -> JoinFut<'a> {
    JoinFut { tasks: tasks.into_iter().map(Some).collect(), schedule, pos: 0, rr: 0 }
}

impl<'a> Future for JoinFut<'a> {
    type Output = ();
    fn poll(mut self: Pin<&mut Self>, cx: &mut Context<'_>) -> Poll<()> {
        let this = &mut *self;
        let live: Vec<usize> = (0..this.tasks.len()).filter(|i| this.tasks[*i].is_some()).collect();
        if live.is_empty() {
            return Poll::Ready(());
        }
        let k = if this.pos < this.schedule.len() {
            let k = this.schedule[this.pos] as usize % live.len();
            this.pos += 1;
            k
        } else {
            let k = this.rr % live.len();
            this.rr += 1;
            k
        };
        let i = live[k];
        if this.tasks[i].as_mut().unwrap().as_mut().poll(cx).is_ready() {
            this.tasks[i] = None;
        }
        if this.tasks.iter().all(|t| t.is_none()) {
            Poll::Ready(())
        } else {
            cx.waker().wake_by_ref();
            Poll::Pending
        }
    }
}
