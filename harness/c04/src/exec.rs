//! Hand-rolled single-thread executor pieces: `block_on`, a one-shot `Yield`, and a join whose poll
//! order is the generated schedule (one child poll per poll of the join).

use std::future::Future;
use std::pin::Pin;
use std::task::{Context, Poll, Waker};

/// The payload of the harness's planned panics. Raised with `resume_unwind`, so the panic hook (and its
/// output) is skipped while everything else — unwinding, `thread::panicking()`, drops — is the real thing.
pub struct Planned;

pub fn planned_panic() -> ! {
    std::panic::resume_unwind(Box::new(Planned))
}

/// `catch_unwind` that swallows a planned panic (→ `Err(())`) and re-raises anything else.
pub fn catch_planned<R>(f: impl FnOnce() -> R) -> Result<R, ()> {
    match std::panic::catch_unwind(std::panic::AssertUnwindSafe(f)) {
        Ok(r) => Ok(r),
        Err(p) if p.is::<Planned>() => Err(()),
        Err(p) => std::panic::resume_unwind(p),
    }
}

/// `catch_unwind` around every poll of `inner`; a planned panic ends it (the poisoned future is dropped).
pub struct CatchFut<'a> {
    inner: Option<BoxFut<'a>>,
}

pub fn catch_fut<'a>(inner: BoxFut<'a>) -> CatchFut<'a> {
    CatchFut { inner: Some(inner) }
}

impl<'a> Future for CatchFut<'a> {
    type Output = ();
    fn poll(mut self: Pin<&mut Self>, cx: &mut Context<'_>) -> Poll<()> {
        let Some(inner) = self.inner.as_mut() else { return Poll::Ready(()) };
        match catch_planned(|| inner.as_mut().poll(cx)) {
            Ok(Poll::Pending) => Poll::Pending,
            Ok(Poll::Ready(())) | Err(()) => {
                self.inner = None;
                Poll::Ready(())
            }
        }
    }
}

pub type BoxFut<'a> = Pin<Box<dyn Future<Output = ()> + Send + 'a>>;

pub fn block_on<F: Future>(fut: F) -> F::Output {
    let mut fut = std::pin::pin!(fut);
    let mut cx = Context::from_waker(Waker::noop());
    let mut polls = 0u64;
    loop {
        if let Poll::Ready(v) = fut.as_mut().poll(&mut cx) {
            return v;
        }
        polls += 1;
        assert!(polls < 10_000_000, "harness executor: future never completes");
    }
}

/// `Pending` once, then `Ready`.
pub struct YieldNow(bool);

pub fn yield_now() -> YieldNow {
    YieldNow(false)
}

impl Future for YieldNow {
    type Output = ();
    fn poll(mut self: Pin<&mut Self>, cx: &mut Context<'_>) -> Poll<()> {
        if self.0 {
            Poll::Ready(())
        } else {
            self.0 = true;
            cx.waker().wake_by_ref();
            Poll::Pending
        }
    }
}

pub struct JoinFut<'a> {
    tasks: Vec<Option<BoxFut<'a>>>,
    /// low 3 bits: which live task to poll; bit 3 (with `migrate`): poll it on a fresh thread
    schedule: &'a [u8],
    migrate: bool,
    pos: usize,
    rr: usize,
    /// called on the fresh thread right after a migrated poll returned (observes what it left behind)
    after_foreign_poll: &'a (dyn Fn() + Sync),
    /// first panic caught on a migrated poll
    fail: &'a std::sync::Mutex<Option<vcore::Fail>>,
}

pub fn join<'a>(
    tasks: Vec<BoxFut<'a>>,
    schedule: &'a [u8],
    migrate: bool,
    after_foreign_poll: &'a (dyn Fn() + Sync),
    fail: &'a std::sync::Mutex<Option<vcore::Fail>>,
) -> JoinFut<'a> {
    JoinFut { tasks: tasks.into_iter().map(Some).collect(), schedule, migrate, pos: 0, rr: 0, after_foreign_poll, fail }
}

impl<'a> Future for JoinFut<'a> {
    type Output = ();
    fn poll(mut self: Pin<&mut Self>, cx: &mut Context<'_>) -> Poll<()> {
        let this = &mut *self;
        let live: Vec<usize> = (0..this.tasks.len()).filter(|i| this.tasks[*i].is_some()).collect();
        if live.is_empty() {
            return Poll::Ready(());
        }
        let (k, elsewhere) = if this.pos < this.schedule.len() {
            let v = this.schedule[this.pos];
            this.pos += 1;
            ((v & 7) as usize % live.len(), this.migrate && v & 8 != 0)
        } else {
            let k = this.rr % live.len();
            this.rr += 1;
            (k, false)
        };
        let i = live[k];
        let task = this.tasks[i].as_mut().unwrap();
        let ready = if elsewhere {
            // like a work-stealing runtime resuming the task on another worker: this poll runs on a
            // fresh thread (whose ambient context is empty), the next one may be back here
            let hook = this.after_foreign_poll;
            let r = std::thread::scope(|s| {
                s.spawn(|| {
                    vcore::catch(|| {
                        let ready = task.as_mut().poll(&mut Context::from_waker(Waker::noop())).is_ready();
                        hook();
                        ready
                    })
                })
                .join()
            });
            match r {
                Ok(Ok(ready)) => ready,
                Ok(Err(f)) => {
                    this.fail.lock().unwrap().get_or_insert(f);
                    true
                }
                Err(_) => {
                    this.fail.lock().unwrap().get_or_insert(vcore::Fail::new("panic@poll-thread", "poll thread died"));
                    true
                }
            }
        } else {
            task.as_mut().poll(cx).is_ready()
        };
        if ready {
            this.tasks[i] = None;
        }
        if this.tasks.iter().all(|t| t.is_none()) {
            Poll::Ready(())
        } else {
            cx.waker().wake_by_ref();
            Poll::Pending
        }
    }
}

/// Drives `inner` with polls that alternate between a fresh thread (first) and the polling thread, the
/// way a work-stealing runtime moves a task between workers.
pub struct Alternating<'a, F> {
    inner: Pin<Box<F>>,
    polls: usize,
    after_foreign_poll: &'a (dyn Fn() + Sync),
    fail: &'a std::sync::Mutex<Option<vcore::Fail>>,
}

pub fn alternating<'a, F: Future<Output = ()> + Send>(
    inner: F,
    after_foreign_poll: &'a (dyn Fn() + Sync),
    fail: &'a std::sync::Mutex<Option<vcore::Fail>>,
) -> Alternating<'a, F> {
    Alternating { inner: Box::pin(inner), polls: 0, after_foreign_poll, fail }
}

impl<'a, F: Future<Output = ()> + Send> Future for Alternating<'a, F> {
    type Output = ();
    fn poll(mut self: Pin<&mut Self>, cx: &mut Context<'_>) -> Poll<()> {
        let this = &mut *self;
        let elsewhere = this.polls % 2 == 0;
        this.polls += 1;
        if !elsewhere {
            // a planned panic inside ends the task here (the task's own catch), the thread goes on
            return match catch_planned(|| this.inner.as_mut().poll(cx)) {
                Ok(p) => p,
                Err(()) => Poll::Ready(()),
            };
        }
        let inner = &mut this.inner;
        let hook = this.after_foreign_poll;
        let r = std::thread::scope(|s| {
            s.spawn(|| {
                vcore::catch(|| {
                    let ready = match catch_planned(|| inner.as_mut().poll(&mut Context::from_waker(Waker::noop())).is_ready()) {
                        Ok(ready) => ready,
                        Err(()) => true,
                    };
                    hook();
                    ready
                })
            })
            .join()
        });
        let ready = match r {
            Ok(Ok(ready)) => ready,
            Ok(Err(f)) => {
                this.fail.lock().unwrap().get_or_insert(f);
                true
            }
            Err(_) => {
                this.fail.lock().unwrap().get_or_insert(vcore::Fail::new("panic@poll-thread", "poll thread died"));
                true
            }
        };
        if ready {
            Poll::Ready(())
        } else {
            cx.waker().wake_by_ref();
            Poll::Pending
        }
    }
}
