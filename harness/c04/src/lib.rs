//! C04 — nested spans always form one consistent trace tree.
//!
//! `check_case` runs one span tree (data) through the interpreter in `interp.rs` on a private
//! runtime and judges what reached the emitter and what `SpanCtxt::current` returned at every
//! check point. The oracle is *relational*: it never predicts which id the rng hands to which
//! span; it reads each enabled span's ids from its own (uniquely named) span event and demands the
//! relations the property states between them.

pub mod ctxts;
pub mod exec;
pub mod interp;
pub mod rt;
pub mod tree;

use std::collections::BTreeMap;
use std::sync::Mutex;

use vcore::{vassert, Cx, Res};

use interp::{Env, Obs};
use rt::Rec;
use tree::{Case, CtxtKind, IdForm, Incoming, Prog, RngKind, Scope};

/// 32 (or 16) hex digits, either case → integer.
fn parse_hex(s: &str, digits: usize) -> Option<u128> {
    if s.len() != digits || !s.bytes().all(|b| b.is_ascii_hexdigit()) {
        return None;
    }
    u128::from_str_radix(s, 16).ok()
}

#[derive(Debug, Clone, Copy)]
struct Ids {
    trace: u128,
    span: u64,
    parent: Option<u64>,
}

fn first(v: &[String]) -> Option<&str> {
    v.first().map(|s| s.as_str())
}

pub fn classify(case: &Case, prog: &Prog, cx: &mut Cx) {
    let st = &prog.stats;
    let deep = st.max_depth >= 3;
    let string_ids = matches!(case.incoming, Some(Incoming { form: IdForm::HexLower | IdForm::HexUpper, .. }));
    let hop = st.hops_carry + st.hops_bare > 0;
    cx.class_if(deep, "depth>=3");
    cx.class_if(st.max_depth >= 5, "depth>=5");
    cx.class_if(st.disabled_with_enabled_descendant, "disabled-with-enabled-descendant");
    cx.class_if(st.joins > 0, "async-join");
    cx.class_if(st.join_interleavable, "async-join-interleavable");
    cx.class_if(st.joins_carry > 0, "async-join-carried-frame");
    cx.class_if(st.joins_migrating > 0, "async-join-polls-migrate-threads");
    cx.class_if(hop, "thread-hop");
    cx.class_if(st.hops_carry > 0, "thread-hop-carried-frame");
    cx.class_if(st.hops_bare > 0, "thread-hop-no-frame");
    cx.class_if(st.hops_future > 0, "thread-hop-in-future");
    cx.class_if(st.frames_run > 0, "captured-frame-run");
    cx.class_if(st.frame_entered_where_ambient_differs, "captured-frame:entered-where-ambient-differs");
    cx.class_if(st.foreign_frame_in_span, "foreign-frame:captured-outside-span/entered-inside-enabled-span");
    cx.class_if(st.foreign_frame_by_call, "foreign-frame:captured-outside-span/entered-by-call");
    cx.class_if(st.foreign_frame_by_enter, "foreign-frame:captured-outside-span/entered-by-enter-guard");
    cx.class_if(st.foreign_frame_by_future, "foreign-frame:captured-outside-span/entered-by-in-future");
    cx.class_if(st.frame_captured_in_span_entered_elsewhere, "captured-frame:captured-inside-span/entered-elsewhere");
    cx.class_if(st.exit_panic_sync_call, "exit:panic-sync-call");
    cx.class_if(st.exit_panic_enter_guard, "exit:panic-enter-guard");
    cx.class_if(st.exit_panic_async, "exit:panic-async");
    cx.class_if(st.exit_panic_disabled_span, "exit:panic-disabled-span");
    cx.class_if(st.exit_panic_caught_on_far_thread, "exit:panic-caught-on-far-thread");
    cx.class_if(st.after_panic_sibling_span, "after-panic:sibling-span");
    cx.class_if(st.after_panic_event_in_enclosing_span, "after-panic:event-in-enclosing-span");
    cx.class_if(st.after_panic_new_root_trace, "after-panic:new-root-trace");
    cx.class_if(st.handoffs > 0, "own-frame-handoff");
    cx.class_if(st.handoff_enabled_with_descendants, "own-frame-handoff-enabled-with-descendants");
    cx.class_if(st.handoff_disabled_with_descendants, "own-frame-handoff-disabled-with-descendants");
    cx.class_if(st.worker_root_span_after_carried_frame, "worker-thread-root-span-after-carried-frame");
    cx.class_if(string_ids, "string-ids");
    cx.class_if(matches!(case.incoming, Some(Incoming { form: IdForm::Int, .. })), "integer-ids");
    cx.class_if(matches!(case.incoming, Some(Incoming { form: IdForm::Typed, .. })), "typed-ids");
    cx.class_if(matches!(case.incoming, Some(Incoming { span: None, .. })), "incoming-trace-only");
    cx.class_if(case.incoming.is_none(), "no-incoming");
    cx.class_if(case.rng == RngKind::Empty, "empty-rng");
    cx.class_if(matches!(case.rng, RngKind::Sequential(_)), "sequential-rng");
    cx.class_if(st.events_in_disabled, "event-inside-disabled-span");
    cx.class_if(st.sync_in_async, "sync-span-in-async-body");
    cx.class_if(st.async_in_sync, "async-span-in-sync-body");
    cx.class_if(prog.spans.len() >= 10, "nodes>=10");
    // the ambient context as a dimension, and the original domain (the real context) at depth
    let chain3 = st.max_chain >= 3 && case.rng != RngKind::Empty;
    cx.class(case.ctxt.label());
    cx.class_if(st.max_chain >= 3, "enabled-chain>=3");
    cx.class_if(st.max_chain >= 5, "enabled-chain>=5");
    cx.class_if(chain3 && case.ctxt == CtxtKind::ThreadLocal, "ctxt:thread-local/enabled-chain>=3");
    cx.class_if(chain3 && matches!(case.ctxt, CtxtKind::Erased(_)), "ctxt:erased/enabled-chain>=3");
    cx.class_if(chain3 && case.ctxt.duplicates(), "ctxt:lists-duplicates/enabled-chain>=3");
    cx.class_if(chain3 && case.ctxt == CtxtKind::Stack { dedup: false }, "ctxt:plain-stack/provided-open-push/duplicates/enabled-chain>=3");
    cx.class_if(chain3 && case.ctxt.duplicates() && st.event_at_chain3, "ctxt:lists-duplicates/event-inside-enabled-chain>=3");
    cx.class_if(chain3 && case.ctxt.duplicates() && st.revert_after_chain3, "ctxt:lists-duplicates/revert-after-enabled-chain>=3-span-ends");
    cx.class_if(case.ctxt.duplicates() && st.disabled_with_enabled_descendant, "ctxt:lists-duplicates/disabled-with-enabled-descendant");
    cx.class_if(case.ctxt.duplicates() && hop, "ctxt:lists-duplicates/thread-hop");
    cx.class_if(case.ctxt.duplicates() && st.handoffs > 0, "ctxt:lists-duplicates/own-frame-handoff");
    cx.class_if(case.ctxt.duplicates() && st.joins > 0, "ctxt:lists-duplicates/async-join");
    cx.class_if(case.ctxt.duplicates() && case.incoming.is_some(), "ctxt:lists-duplicates/incoming-ids");
    for s in &prog.spans {
        cx.class(s.form.label());
    }
    cx.nontrivial(deep || st.disabled_with_enabled_descendant || st.joins > 0 || hop || string_ids);
}

/// Runs the numbered program on a private runtime built around `ctxt`.
fn run_on<C: rt::TCtxt>(case: &Case, prog: &Prog, ctxt: C) -> (Option<vcore::Fail>, Vec<Rec>, Vec<Obs>) {
    let (rt, rec) = rt::build(case.rng, ctxt);
    let obs = Mutex::new(Vec::new());
    let fail = Mutex::new(None);
    let frames: Vec<Mutex<Option<interp::CapturedFrame<C>>>> = (0..prog.frames).map(|_| Mutex::new(None)).collect();
    {
        let env = Env { rt: &rt, obs: &obs, fail: &fail, frames: &frames };
        interp::run_root(&env, case.incoming.as_ref(), &prog.items, prog.final_check);
    }
    drop(frames);
    let recs = rec.0.lock().unwrap().clone();
    (fail.into_inner().unwrap(), recs, obs.into_inner().unwrap())
}

pub fn check_case(case: &Case, cx: &mut Cx) -> Res {
    let prog = tree::number(case);
    classify(case, &prog, cx);

    let (fail, recs, obs) = match case.ctxt {
        CtxtKind::ThreadLocal => run_on(case, &prog, emit::platform::thread_local_ctxt::ThreadLocalCtxt::new()),
        CtxtKind::Stack { dedup } => run_on(case, &prog, ctxts::StackCtxt::new(dedup)),
        CtxtKind::Erased(inner) => run_on(case, &prog, ctxts::erased(inner)),
    };
    if let Some(f) = fail {
        cx.fail(f.sig, format!("on a hop thread: {}", f.msg))?;
    }
    // what the ambient props really looked like (measured, not assumed from the context kind)
    let listed = obs.iter().map(|o| o.span_id_listed).max().unwrap_or(0);
    cx.class_if(listed >= 2, "ambient-props-list-span-id-twice-or-more");
    cx.class_if(listed >= 3, "ambient-props-list-span-id-3x-or-more");
    judge(case, &prog, &recs, &obs, cx)
}

pub fn judge(case: &Case, prog: &Prog, recs: &[Rec], obs: &[Obs], cx: &mut Cx) -> Res {
    let empty_rng = case.rng == RngKind::Empty;
    let inc = case.incoming.as_ref();

    // -- sort what reached the emitter
    let mut span_recs: BTreeMap<usize, Vec<&Rec>> = BTreeMap::new();
    let mut evt_recs: BTreeMap<usize, Vec<&Rec>> = BTreeMap::new();
    for r in recs {
        if r.is_span {
            match tree::node_of_mdl(&r.mdl) {
                Some(n) if n < prog.spans.len() => span_recs.entry(n).or_default().push(r),
                _ => cx.fail("unexpected-span-event", format!("span event with module {:?}", r.mdl))?,
            }
        } else {
            match r.eid {
                Some(e) if (e as usize) < prog.events.len() => evt_recs.entry(e as usize).or_default().push(r),
                _ => cx.fail("unexpected-event", format!("event {r:?}"))?,
            }
        }
    }

    // -- spans (pre-order: an ancestor is always judged before its descendants)
    let mut ids: Vec<Option<Ids>> = vec![None; prog.spans.len()];
    let mut seen_span_ids: BTreeMap<u64, usize> = BTreeMap::new();
    for (n, info) in prog.spans.iter().enumerate() {
        let got = span_recs.get(&n).map(|v| v.as_slice()).unwrap_or(&[]);
        if !info.enabled {
            vassert!(cx, got.is_empty(), "disabled-span-emitted", "node {n} is rejected by the filter but {} span event(s) were emitted", got.len());
            continue;
        }
        if info.unwinds && got.is_empty() {
            // left by a planned panic: whether it completes is C05's business; if it is emitted, with the right ids
            cx.dont_care();
            continue;
        }
        vassert!(cx, !got.is_empty(), "span-event-missing", "enabled node {n} ({:?}) emitted no span event", info.form);
        vassert!(cx, got.len() == 1, "span-event-duplicated", "enabled node {n} emitted {} span events", got.len());
        let Some(r) = got.first() else { continue };
        if empty_rng {
            vassert!(
                cx,
                r.trace_id.is_empty() && r.span_id.is_empty() && r.span_parent.is_empty(),
                "ids-with-empty-rng",
                "node {n}: the rng yields nothing and nothing is incoming, yet the span event carries ids {r:?}"
            );
            continue;
        }
        let trace = first(&r.trace_id).and_then(|s| parse_hex(s, 32));
        let span = first(&r.span_id).and_then(|s| parse_hex(s, 16));
        let parent = match first(&r.span_parent) {
            None => Ok(None),
            Some(s) => parse_hex(s, 16).map(|v| Some(v as u64)).ok_or(s),
        };
        let (Some(trace), Some(span), Ok(parent)) = (trace, span, parent) else {
            cx.fail("span-ids-missing-or-malformed", format!("node {n}: span event ids {:?} {:?} {:?}", r.trace_id, r.span_id, r.span_parent))?;
            continue;
        };
        let span = span as u64;
        vassert!(cx, trace != 0 && span != 0, "span-id-zero", "node {n}: trace {trace:x} span {span:x}");
        if let Some(other) = seen_span_ids.insert(span, n) {
            cx.fail("span-id-repeated", format!("nodes {other} and {n} share span id {span:016x} although the rng never repeats"))?;
        }
        ids[n] = Some(Ids { trace, span, parent });

        match info.outer {
            Scope { span: Some(a), .. } => {
                // `a` is enabled, so it has been judged; it can only lack ids after a stepped-over known finding
                let Some(anc) = ids[a] else { continue };
                vassert!(cx, trace == anc.trace, "span-trace-differs-from-ancestor", "node {n} trace {trace:032x}, nearest enabled ancestor {a} has {:032x}", anc.trace);
                vassert!(
                    cx,
                    parent == Some(anc.span),
                    "span-parent-not-nearest-enabled-ancestor",
                    "node {n} span_parent {parent:x?}, nearest enabled ancestor {a} has span id {:016x}",
                    anc.span
                );
            }
            Scope { span: None, base: true } => {
                let inc = inc.expect("base scope implies incoming ids");
                vassert!(cx, trace == inc.trace(), "span-trace-differs-from-incoming", "node {n} trace {trace:032x}, incoming ({:?}) {:032x}", inc.form, inc.trace());
                vassert!(cx, parent == inc.span(), "span-parent-differs-from-incoming", "node {n} span_parent {parent:x?}, incoming ({:?}) span id {:x?}", inc.form, inc.span());
            }
            Scope { span: None, base: false } => {
                vassert!(cx, parent.is_none(), "root-span-has-parent", "node {n} has nothing enabled above it and nothing incoming, yet span_parent = {parent:x?}");
            }
        }
    }

    // -- events
    for (e, scope) in prog.events.iter().enumerate() {
        let got = evt_recs.get(&e).map(|v| v.as_slice()).unwrap_or(&[]);
        vassert!(cx, got.len() == 1, "event-count", "event {e} reached the emitter {} times", got.len());
        let Some(r) = got.first() else { continue };
        let t = first(&r.trace_id);
        let s = first(&r.span_id);
        match *scope {
            _ if empty_rng => {
                vassert!(cx, t.is_none() && s.is_none() && r.span_parent.is_empty(), "ids-with-empty-rng", "event {e} carries ids {r:?}");
            }
            Scope { span: Some(a), .. } => {
                let Some(anc) = ids[a] else { continue };
                vassert!(
                    cx,
                    t.and_then(|t| parse_hex(t, 32)) == Some(anc.trace),
                    "event-trace-id",
                    "event {e} trace_id {t:?}, innermost enabled span {a} has {:032x}",
                    anc.trace
                );
                vassert!(
                    cx,
                    s.and_then(|s| parse_hex(s, 16)) == Some(anc.span as u128),
                    "event-span-id",
                    "event {e} span_id {s:?}, innermost enabled span {a} has {:016x}",
                    anc.span
                );
            }
            Scope { span: None, base: true } => {
                // the event shows the incoming values as they were put into the context
                let inc = inc.expect("base scope implies incoming ids");
                let (pt, ps) = match inc.form {
                    IdForm::Int => (t.and_then(|t| t.parse::<u128>().ok()), s.map(|s| s.parse::<u128>().ok())),
                    _ => (t.and_then(|t| parse_hex(t, 32)), s.map(|s| parse_hex(s, 16))),
                };
                vassert!(cx, pt == Some(inc.trace()), "event-trace-id-incoming", "event {e} trace_id {t:?}, incoming ({:?}) {:032x}", inc.form, inc.trace());
                vassert!(
                    cx,
                    ps == inc.span().map(|v| Some(v as u128)),
                    "event-span-id-incoming",
                    "event {e} span_id {s:?}, incoming ({:?}) {:x?}",
                    inc.form,
                    inc.span()
                );
            }
            Scope { span: None, base: false } => {
                vassert!(cx, t.is_none() && s.is_none(), "event-has-ids-outside-any-span", "event {e} is outside every enabled span with nothing incoming but carries {t:?} {s:?}");
            }
        }
    }

    // -- SpanCtxt::current at every check point
    let mut by_id: BTreeMap<usize, Vec<&Obs>> = BTreeMap::new();
    for o in obs {
        if o.id == interp::POLL_THREAD_END {
            // a fresh thread that ran one poll of a frame-wrapped future: the frame was left again
            vassert!(
                cx,
                (o.trace, o.parent, o.span) == (None, None, None),
                "ambient-ids-left-on-poll-thread",
                "after a poll that ran on a fresh thread, SpanCtxt::current there = trace {:x?} parent {:x?} span {:x?}",
                o.trace,
                o.parent,
                o.span
            );
            continue;
        }
        by_id.entry(o.id).or_default().push(o);
    }
    for (c, scope) in prog.checks.iter().enumerate() {
        let got = by_id.get(&c).map(|v| v.as_slice()).unwrap_or(&[]);
        vassert!(cx, got.len() == 1, "check-count", "check point {c} was reached {} times (harness)", got.len());
        let Some(o) = got.first() else { continue };
        let want = match *scope {
            _ if empty_rng => (None, None, None),
            Scope { span: Some(a), .. } => {
                let Some(anc) = ids[a] else { continue };
                (Some(anc.trace), anc.parent, Some(anc.span))
            }
            Scope { span: None, base: true } => {
                let inc = inc.expect("base scope implies incoming ids");
                (Some(inc.trace()), None, inc.span())
            }
            Scope { span: None, base: false } => (None, None, None),
        };
        let have = (o.trace, o.parent, o.span);
        if have != want {
            let sig = if c == prog.final_check { "current-ctxt-not-empty-at-end" } else { "current-ctxt-mismatch" };
            cx.fail(
                sig,
                format!(
                    "check point {c} (scope {scope:?}): SpanCtxt::current = trace {:x?} parent {:x?} span {:x?}, expected trace {:x?} parent {:x?} span {:x?}",
                    have.0, have.1, have.2, want.0, want.1, want.2
                ),
            )?;
        }
    }
    Ok(())
}
