//! The ambient context as a generated dimension.
//!
//! The property quantifies over span trees run on *an* ambient context; `emit::Ctxt` is a public trait
//! a user implements (`setup().with_ctxt(..)`), with two provided methods (`open_push` =
//! `open_root(props.and_props(current))`, `open_disabled` = `open_push(Empty)`) and the documented `Props`
//! contract "when a property is duplicated, the first for a given key is the one to use". Besides the
//! real `ThreadLocalCtxt` (a map: unique keys, keyed lookup) this module provides the plain contexts a
//! user would write from the `Ctxt` docs ("context is modeled like a stack") and the public wrappers:
//!
//! - [`StackCtxt`]: implements only the required methods; a frame is the flat list of pairs `open_root`
//!   was given. With the provided `open_push` that is the pushed properties followed by everything that
//!   was already active: innermost first, duplicates included (first wins). `dedup` makes `open_root`
//!   keep only the first pair per key (unique keys, still no keyed lookup).
//! - [`ChainCtxt`]: overrides `open_push` to link the pushed properties in front of the frame that was
//!   current (a persistent stack of frames); `Current` walks the links innermost first — duplicates again,
//!   this time without the provided `open_push`. `open_disabled` is the provided one.
//! - [`erased`]: any of them (also behind `Option`, `Arc`, `Box`) as `Arc<dyn ErasedCtxt + Send + Sync>`,
//!   the object-safe form: `Current` is then a type-erased `Props` without keyed lookup.
//!
//! All of them keep the frame semantics the harness's model relies on and `ThreadLocalCtxt` documents:
//! a frame is a full snapshot of what was ambient where it was made, entering swaps it with the thread's
//! current set, exiting swaps back; storage is per thread and per context instance.

use std::cell::RefCell;
use std::collections::HashMap;
use std::ops::ControlFlow;
use std::sync::atomic::{AtomicU64, Ordering};
use std::sync::Arc;

use emit::platform::thread_local_ctxt::ThreadLocalCtxt;
use emit::value::OwnedValue;
use emit::{Ctxt, Props, Str, Value};
use emit_core::ctxt::ErasedCtxt;

use crate::tree::Inner;

fn next_id() -> u64 {
    static NEXT: AtomicU64 = AtomicU64::new(1);
    NEXT.fetch_add(1, Ordering::Relaxed)
}

type Pairs = Vec<(Str<'static>, OwnedValue)>;

fn collect<P: Props>(props: P, dedup: bool) -> Pairs {
    let mut out: Pairs = Vec::new();
    let _ = props.for_each(|k, v| {
        if !(dedup && out.iter().any(|(seen, _)| *seen == k)) {
            out.push((k.to_owned(), v.to_owned()));
        }
        ControlFlow::Continue(())
    });
    out
}

// ---------------------------------------------------------------------------------------------
// flat stack, provided `open_push` / `open_disabled`

#[derive(Clone, Debug)]
pub struct StackCtxt {
    id: u64,
    dedup: bool,
}

impl StackCtxt {
    pub fn new(dedup: bool) -> Self {
        StackCtxt { id: next_id(), dedup }
    }
}

#[derive(Clone, Default)]
pub struct StackProps(Pairs);

impl Props for StackProps {
    fn for_each<'kv, F: FnMut(Str<'kv>, Value<'kv>) -> ControlFlow<()>>(&'kv self, mut for_each: F) -> ControlFlow<()> {
        // innermost first; consumers take the first value they see for a key
        for (k, v) in &self.0 {
            for_each(k.by_ref(), v.by_ref())?;
        }
        ControlFlow::Continue(())
    }
}

thread_local! {
    static STACKS: RefCell<HashMap<u64, StackProps>> = RefCell::new(HashMap::new());
    static CHAINS: RefCell<HashMap<u64, ChainProps>> = RefCell::new(HashMap::new());
}

impl StackCtxt {
    fn swap(&self, frame: &mut StackProps) {
        STACKS.with(|s| {
            let mut s = s.borrow_mut();
            let current = s.entry(self.id).or_default();
            std::mem::swap(current, frame);
            if current.0.is_empty() {
                s.remove(&self.id);
            }
        })
    }
}

impl Ctxt for StackCtxt {
    type Current = StackProps;
    type Frame = StackProps;

    fn open_root<P: Props>(&self, props: P) -> Self::Frame {
        StackProps(collect(props, self.dedup))
    }

    // `open_push` and `open_disabled` are the provided ones

    fn enter(&self, frame: &mut Self::Frame) {
        self.swap(frame)
    }

    fn with_current<R, F: FnOnce(&Self::Current) -> R>(&self, with: F) -> R {
        // not borrowed while `with` runs: it may come back to the context
        let current = STACKS.with(|s| s.borrow().get(&self.id).cloned().unwrap_or_default());
        with(&current)
    }

    fn exit(&self, frame: &mut Self::Frame) {
        self.swap(frame)
    }

    fn close(&self, _: Self::Frame) {}
}

// ---------------------------------------------------------------------------------------------
// persistent stack of frames, own `open_push`

#[derive(Clone, Debug)]
pub struct ChainCtxt {
    id: u64,
}

impl ChainCtxt {
    pub fn new() -> Self {
        ChainCtxt { id: next_id() }
    }
}

struct Link {
    props: Pairs,
    outer: Option<Arc<Link>>,
}

#[derive(Clone, Default)]
pub struct ChainProps(Option<Arc<Link>>);

impl Props for ChainProps {
    fn for_each<'kv, F: FnMut(Str<'kv>, Value<'kv>) -> ControlFlow<()>>(&'kv self, mut for_each: F) -> ControlFlow<()> {
        let mut link = self.0.as_deref();
        while let Some(l) = link {
            for (k, v) in &l.props {
                for_each(k.by_ref(), v.by_ref())?;
            }
            link = l.outer.as_deref();
        }
        ControlFlow::Continue(())
    }
}

impl ChainCtxt {
    fn swap(&self, frame: &mut ChainProps) {
        CHAINS.with(|s| {
            let mut s = s.borrow_mut();
            let current = s.entry(self.id).or_default();
            std::mem::swap(current, frame);
            if current.0.is_none() {
                s.remove(&self.id);
            }
        })
    }
}

impl Ctxt for ChainCtxt {
    type Current = ChainProps;
    type Frame = ChainProps;

    fn open_root<P: Props>(&self, props: P) -> Self::Frame {
        ChainProps(Some(Arc::new(Link { props: collect(props, false), outer: None })))
    }

    fn open_push<P: Props>(&self, props: P) -> Self::Frame {
        let outer = CHAINS.with(|s| s.borrow().get(&self.id).and_then(|c| c.0.clone()));
        ChainProps(Some(Arc::new(Link { props: collect(props, false), outer })))
    }

    // `open_disabled` is the provided one

    fn enter(&self, frame: &mut Self::Frame) {
        self.swap(frame)
    }

    fn with_current<R, F: FnOnce(&Self::Current) -> R>(&self, with: F) -> R {
        let current = CHAINS.with(|s| s.borrow().get(&self.id).cloned().unwrap_or_default());
        with(&current)
    }

    fn exit(&self, frame: &mut Self::Frame) {
        self.swap(frame)
    }

    fn close(&self, _: Self::Frame) {}
}

// ---------------------------------------------------------------------------------------------
// the object-safe form over any of them, and over the public wrappers

pub type ErasedArc = Arc<dyn ErasedCtxt + Send + Sync>;

pub fn erased(inner: Inner) -> ErasedArc {
    match inner {
        Inner::ThreadLocal => Arc::new(ThreadLocalCtxt::new()),
        Inner::SomeThreadLocal => Arc::new(Some(ThreadLocalCtxt::new())),
        Inner::Stack => Arc::new(StackCtxt::new(false)),
        Inner::StackDedup => Arc::new(StackCtxt::new(true)),
        Inner::Chain => Arc::new(ChainCtxt::new()),
        Inner::SomeStack => Arc::new(Some(StackCtxt::new(false))),
        Inner::ArcStack => Arc::new(Arc::new(StackCtxt::new(false))),
        Inner::BoxChain => Arc::new(Box::new(ChainCtxt::new())),
    }
}
