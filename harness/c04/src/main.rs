use c04::tree::{Case, CtxtKind, Form, IdForm, Incoming, Inner, Item, Node, RngKind, RunHow};
use vcore::proptest::prelude::*;
use vcore::Level;

const RULE: &str = "a case is a span tree as data (<=24 span nodes, nesting depth <=6): every node has a form (attribute on sync fn / async fn, new_span! with Frame::call / Frame::enter / Frame::in_future, guard: parameter sync / async, when: parameter, ok_lvl/err_lvl Result-returning sync / async fn, and four hand-off forms where the frame returned by new_span! itself is moved to a fresh thread and entered there by call / in_fn / enter (guard completed there or back on the parent inside the frame) or is polled through in_future alternately on fresh threads and the awaiting thread), an enabled flag (disabled = rejected by the runtime filter through its module, or by `when`), and a body of child spans, emit! events, SpanCtxt::current checks, yields, thread hops (with or without a carried Frame::current, entered by call or in_future as the very first act of the fresh thread, which afterwards goes on with unrelated work of its own: checks, events, root spans) non-span frames (Frame::current / Frame::push with a plain property) captured at one point — typically at top level before any span — and entered later somewhere else (inside spans, on other threads) by call / enter guard / in_future / on a fresh thread, planned panics (quiet resume_unwind) that leave any of these scopes by unwinding up to a catch_unwind (explicit Catch item, in async code around every poll; or the top of the hop / hand-off thread) after which the same thread is used on, and joins of async tasks polled by a generated schedule; optionally incoming trace/span ids are pushed before the root as typed values, lower/upper-case hex strings or integers; the rng is a non-repeating counter (or yields nothing); the ambient context the private runtime is built with is generated too: the real ThreadLocalCtxt, a minimal user context that implements only the required Ctxt methods (flat list frames, the provided open_push = open_root(props.and_props(current)) and open_disabled, so its current props list innermost first WITH duplicate keys, which Props allows: first wins; or de-duplicating in open_root), and Arc<dyn ErasedCtxt> over these, over a frame-chain context with its own open_push (duplicates again) and over Option / Arc / Box wrappers of them. It is interpreted by fixed macro call sites (generic over the context) on a private runtime and judged relationally from the recorded events. Non-trivial = span nesting depth >=3, or a disabled node with an enabled descendant, or an async join, or a thread hop, or incoming ids given as hex strings.";

const ASSUMPTIONS: [&str; 7] = [
    "the oracle never predicts which id the rng hands out: each enabled span's ids are read from its own span event (identified by a unique module name) and only the relations stated by the property are demanded",
    "the rng never repeats and never yields 0 (bijective mix of a counter); with the rng that yields nothing no incoming ids are generated and the oracle is `no ids anywhere, nothing panics` (rustdoc of SpanId::random / SpanCtxt::new)",
    "incoming ids are a trace id with or without a span id; a span id without a trace id is not generated (the statement speaks of `the incoming ids`)",
    "events outside every enabled span show the incoming values in the representation they were pushed in (hex text either case, or decimal for integers); they are compared after parsing by that representation",
    "span_parent on non-span events, the trace ids of unrelated roots being different, and duplicate id keys behind the first occurrence are not judged (the statement is silent)",
    "thread hops are joined before the parent continues, so a case is deterministic; true parallelism is irrelevant because all state is per thread",
    "the harness's own contexts keep what ThreadLocalCtxt documents and the model relies on: a frame is a full snapshot of what was ambient where it was made, enter/exit swap it with the per-thread, per-instance current set; they list properties innermost first and may repeat a key (rustdoc of Props: the first value for a key is the one to use); how often the ambient props list span_id is measured at every check point for classification only",
];

fn form() -> impl Strategy<Value = Form> {
    prop_oneof![
        3 => Just(Form::SyncFn),
        1 => Just(Form::ManualCall),
        1 => Just(Form::ManualEnter),
        1 => Just(Form::GuardSync),
        1 => Just(Form::WhenSync),
        1 => Just(Form::ResultSync),
        3 => Just(Form::AsyncFn),
        1 => Just(Form::ManualFuture),
        1 => Just(Form::GuardAsync),
        1 => Just(Form::ResultAsync),
        1 => Just(Form::HandoffCall),
        1 => Just(Form::HandoffInFn),
        1 => Just(Form::HandoffEnterBack),
        2 => Just(Form::HandoffFuture),
    ]
}

fn leaf() -> impl Strategy<Value = Item> {
    prop_oneof![3 => Just(Item::Event), 2 => Just(Item::Check), 2 => Just(Item::Yield), 1 => Just(Item::Panic)]
}

/// Bodies by remaining depth: explicit recursion (not `prop_recursive`) so that the branching factor
/// stays near 1 and deep chains are as likely as wide, shallow trees.
/// What a worker thread goes on with after it left a carried frame: a small unrelated program, often
/// starting a root span of its own.
fn after_items() -> impl Strategy<Value = Vec<Item>> {
    let small = prop_oneof![
        2 => leaf(),
        3 => (form(), prop::bool::weighted(0.85), prop::collection::vec(leaf(), 0..3)).prop_map(|(form, enabled, items)| Item::Span(Node { form, enabled, items, after: Vec::new() })),
    ];
    prop_oneof![2 => Just(Vec::new()), 3 => prop::collection::vec(small, 1..3)]
}

fn body(depth_left: u32) -> BoxedStrategy<Vec<Item>> {
    if depth_left == 0 {
        return prop::collection::vec(leaf(), 0..3).boxed();
    }
    let inner = body(depth_left - 1);
    let item = prop_oneof![
        5 => leaf(),
        8 => (form(), prop::bool::weighted(0.75), inner.clone(), after_items()).prop_map(|(form, enabled, items, after)| Item::Span(Node { after: if form.is_sync_handoff() { after } else { Vec::new() }, form, enabled, items })),
        2 => inner.clone().prop_map(|items| Item::Catch { items }),
        2 => any::<bool>().prop_map(|props| Item::CaptureFrame { props }),
        3 => (prop_oneof![3 => Just(RunHow::Call), 3 => Just(RunHow::EnterGuard), 3 => Just(RunHow::InFuture), 1 => Just(RunHow::OtherThread)], inner.clone()).prop_map(|(how, items)| Item::RunFrame { how, items }),
        1 => (prop::bool::weighted(0.7), any::<bool>(), inner.clone(), after_items()).prop_map(|(carry, fut, items, after)| Item::Hop { carry, fut, items, after }),
        1 => (any::<bool>(), prop::bool::weighted(0.4), prop::collection::vec(inner, 1..4), prop::collection::vec(0u8..16, 0..10))
            .prop_map(|(carry, migrate, tasks, schedule)| Item::Join { carry, migrate, tasks, schedule }),
    ];
    prop::collection::vec(item, 0..4).boxed()
}

/// Constructive bound on the number of span nodes: nodes beyond the budget are replaced by an event.
/// … and on planned panics: one that nothing would catch (`caught` false: no `Catch` around it within the
/// same join task / `after` list, and not inside a hop or hand-off body, whose thread catches it) becomes an event.
fn limit(items: &mut Vec<Item>, budget: &mut usize, depth: usize, caught: bool) {
    for it in items.iter_mut() {
        match it {
            Item::Span(n) => {
                if *budget == 0 || depth >= 6 {
                    *it = Item::Event;
                } else {
                    *budget -= 1;
                    limit(&mut n.items, budget, depth + 1, caught || n.form.is_handoff());
                    limit(&mut n.after, budget, 0, false);
                }
            }
            Item::Panic if !caught => *it = Item::Event,
            Item::Catch { items } => limit(items, budget, depth, true),
            Item::RunFrame { how, items } => limit(items, budget, depth, caught || *how == RunHow::OtherThread),
            Item::Hop { items, after, .. } => {
                limit(items, budget, depth, true);
                limit(after, budget, 0, false);
            }
            Item::Join { tasks, .. } => {
                for t in tasks {
                    limit(t, budget, depth, false)
                }
            }
            _ => {}
        }
    }
}

/// A thread that has caught a panic and is used on. Either `Catch{ dying span }` in front of the rest of the
/// program (later top-level spans are unrelated roots), or an enclosing enabled span that catches the
/// panic of a child and then goes on emitting an event and starting a sibling span.
fn panic_prologue() -> impl Strategy<Value = Option<Item>> {
    fn dying_span() -> BoxedStrategy<Item> {
        (form(), prop::bool::weighted(0.85), prop::collection::vec(leaf(), 0..2))
            .prop_map(|(form, enabled, mut items)| {
                items.push(Item::Panic);
                Item::Span(Node { form, enabled, items, after: Vec::new() })
            })
            .boxed()
    }
    let plain_span = || (form(), prop::bool::weighted(0.85), prop::collection::vec(leaf(), 0..2)).prop_map(|(form, enabled, items)| Item::Span(Node { form, enabled, items, after: Vec::new() }));
    let scope = prop_oneof![
        // outermost span dies
        3 => dying_span().prop_map(|d| Item::Catch { items: vec![d] }),
        // a nested one dies, the panic leaves two spans
        1 => (form(), dying_span()).prop_map(|(form, d)| Item::Catch { items: vec![Item::Span(Node { form, enabled: true, items: vec![Item::Check, d], after: Vec::new() })] }),
        // the enclosing span catches its child's panic and goes on
        4 => (form(), dying_span(), plain_span()).prop_map(|(form, d, sibling)| {
            Item::Span(Node { form, enabled: true, items: vec![Item::Catch { items: vec![d] }, Item::Event, sibling, Item::Check], after: Vec::new() })
        }),
    ];
    prop_oneof![2 => Just(None), 1 => scope.prop_map(Some)]
}

fn trace_value() -> impl Strategy<Value = u128> {
    prop_oneof![
        5 => any::<u128>(),
        1 => any::<u64>().prop_map(|v| v as u128),
        1 => prop_oneof![Just(1u128), Just(u128::MAX), Just(0x12345678901234567890123456789012u128), Just(1u128 << 127), Just(10u128.pow(31))],
    ]
}

fn span_value() -> impl Strategy<Value = u64> {
    prop_oneof![
        5 => any::<u64>(),
        1 => any::<u32>().prop_map(|v| v as u64),
        1 => prop_oneof![Just(1u64), Just(u64::MAX), Just(0x1234567890123456u64), Just(1u64 << 63), Just(10u64.pow(15))],
    ]
}

/// The ambient context the case's runtime is built with: the real one, the plain user contexts, and all of
/// them (also behind `Option` / `Arc` / `Box`) in the object-safe form.
fn ctxt_kind() -> impl Strategy<Value = CtxtKind> {
    let inner = prop_oneof![
        2 => Just(Inner::ThreadLocal),
        1 => Just(Inner::SomeThreadLocal),
        2 => Just(Inner::Stack),
        1 => Just(Inner::StackDedup),
        2 => Just(Inner::Chain),
        1 => Just(Inner::SomeStack),
        1 => Just(Inner::ArcStack),
        1 => Just(Inner::BoxChain),
    ];
    prop_oneof![
        8 => Just(CtxtKind::ThreadLocal),
        5 => Just(CtxtKind::Stack { dedup: false }),
        1 => Just(CtxtKind::Stack { dedup: true }),
        6 => inner.prop_map(CtxtKind::Erased),
    ]
}

fn case() -> impl Strategy<Value = Case> {
    let incoming = prop_oneof![
        1 => Just(None),
        1 => (
            trace_value(),
            prop::option::weighted(0.8, span_value()),
            prop_oneof![Just(IdForm::Typed), Just(IdForm::HexLower), Just(IdForm::HexUpper), Just(IdForm::Int)]
        )
            .prop_map(|(trace, span, form)| Some(Incoming { trace: ((trace >> 64) as u64, trace as u64), span, form })),
    ];
    let rng = prop_oneof![
        9 => any::<u64>().prop_map(RngKind::Counter),
        // (started far away from the small incoming ids the generator likes, so that only the SOURCE decides distinctness)
        3 => (0u64..100_000).prop_map(|k| RngKind::Sequential((1u64 << 40) + 2 * k)),
        1 => Just(RngKind::Empty),
    ];
    (rng, incoming, prop::collection::vec(any::<bool>(), 0..4), panic_prologue(), body(7), ctxt_kind()).prop_map(|(rng, incoming, captures, prologue, mut items, ctxt)| {
        if let Some(p) = prologue {
            items.insert(0, p);
        }
        // what a dispatcher captures when jobs are submitted: frames made before any span exists
        for props in captures {
            items.insert(0, Item::CaptureFrame { props });
        }
        let mut budget = 24;
        limit(&mut items, &mut budget, 0, false);
        let incoming = if rng == RngKind::Empty { None } else { incoming };
        Case { rng, incoming, items, ctxt }
    })
}

fn main() {
    vcore::run("C04", Level::Exploration, RULE, &ASSUMPTIONS, |s| {
        // DESIGN: each >= 5 % of the cases; the minima are ~1 % of the quick tier
        s.require("sequential-rng", 1500);
        for class in ["depth>=3", "disabled-with-enabled-descendant", "async-join", "thread-hop", "string-ids"] {
            s.require(class, 200);
        }
        s.require("async-join-interleavable", 100);
        s.require("async-join-polls-migrate-threads", 50);
        s.require("thread-hop-carried-frame", 100);
        s.require("integer-ids", 100);
        s.require("foreign-frame:captured-outside-span/entered-inside-enabled-span", 200);
        s.require("foreign-frame:captured-outside-span/entered-by-call", 100);
        s.require("foreign-frame:captured-outside-span/entered-by-enter-guard", 100);
        s.require("foreign-frame:captured-outside-span/entered-by-in-future", 100);
        s.require("captured-frame:captured-inside-span/entered-elsewhere", 50);
        s.require("exit:panic-sync-call", 200);
        s.require("exit:panic-async", 200);
        s.require("exit:panic-enter-guard", 50);
        s.require("after-panic:sibling-span", 200);
        s.require("after-panic:event-in-enclosing-span", 200);
        s.require("after-panic:new-root-trace", 200);
        s.require("worker-thread-root-span-after-carried-frame", 100);
        s.require("own-frame-handoff-disabled-with-descendants", 100);
        s.require("own-frame-handoff-enabled-with-descendants", 100);
        s.require("empty-rng", 50);
        // the ambient context as a dimension (quick, seeds 0-4: each at least 8x its minimum)
        s.require("ctxt:thread-local", 1000);
        s.require("ctxt:thread-local/enabled-chain>=3", 150);
        s.require("ctxt:plain-stack/provided-open-push/duplicates", 500);
        s.require("ctxt:plain-stack/provided-open-push/duplicates/enabled-chain>=3", 100);
        s.require("ctxt:plain-stack/provided-open-push/dedup-in-open-root", 100);
        s.require("ctxt:erased/enabled-chain>=3", 100);
        for inner in ["thread-local", "some-thread-local", "plain-stack-duplicates", "plain-stack-dedup", "frame-chain-duplicates", "some-plain-stack-duplicates", "arc-plain-stack-duplicates", "box-frame-chain-duplicates"] {
            s.require(&format!("ctxt:erased/{inner}"), 40);
        }
        s.require("ctxt:lists-duplicates/enabled-chain>=3", 150);
        s.require("ctxt:lists-duplicates/event-inside-enabled-chain>=3", 50);
        s.require("ctxt:lists-duplicates/revert-after-enabled-chain>=3-span-ends", 100);
        s.require("ctxt:lists-duplicates/disabled-with-enabled-descendant", 200);
        s.require("ctxt:lists-duplicates/thread-hop", 200);
        s.require("ctxt:lists-duplicates/own-frame-handoff", 200);
        s.require("ctxt:lists-duplicates/async-join", 200);
        s.require("ctxt:lists-duplicates/incoming-ids", 200);
        // measured at the check points, not assumed from the kind of context
        s.require("ambient-props-list-span-id-3x-or-more", 200);
        s.gen("span-trees", s.n(20_000, 600_000), case, c04::check_case);
    })
}
