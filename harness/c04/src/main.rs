use c04::tree::{Case, Form, IdForm, Incoming, Item, Node, RngKind};
use vcore::proptest::prelude::*;
use vcore::Level;

const RULE: &str = "a case is a span tree as data (<=24 span nodes, nesting depth <=6): every node has a form (attribute on sync fn / async fn, new_span! with Frame::call / Frame::enter / Frame::in_future, guard: parameter sync / async, when: parameter, ok_lvl/err_lvl Result-returning sync / async fn, and four hand-off forms where the frame returned by new_span! itself is moved to a fresh thread and entered there by call / in_fn / enter (guard completed there or back on the parent inside the frame) or is polled through in_future alternately on fresh threads and the awaiting thread), an enabled flag (disabled = rejected by the runtime filter through its module, or by `when`), and a body of child spans, emit! events, SpanCtxt::current checks, yields, thread hops (with or without a carried Frame::current, entered by call or in_future as the very first act of the fresh thread, which afterwards goes on with unrelated work of its own: checks, events, root spans) and joins of async tasks polled by a generated schedule; optionally incoming trace/span ids are pushed before the root as typed values, lower/upper-case hex strings or integers; the rng is a non-repeating counter (or yields nothing). It is interpreted by fixed macro call sites on a private runtime and judged relationally from the recorded events. Non-trivial = span nesting depth >=3, or a disabled node with an enabled descendant, or an async join, or a thread hop, or incoming ids given as hex strings.";

const ASSUMPTIONS: [&str; 6] = [
    "the oracle never predicts which id the rng hands out: each enabled span's ids are read from its own span event (identified by a unique module name) and only the relations stated by the property are demanded",
    "the rng never repeats and never yields 0 (bijective mix of a counter); with the rng that yields nothing no incoming ids are generated and the oracle is `no ids anywhere, nothing panics` (rustdoc of SpanId::random / SpanCtxt::new)",
    "incoming ids are a trace id with or without a span id; a span id without a trace id is not generated (the statement speaks of `the incoming ids`)",
    "events outside every enabled span show the incoming values in the representation they were pushed in (hex text either case, or decimal for integers); they are compared after parsing by that representation",
    "span_parent on non-span events, the trace ids of unrelated roots being different, and duplicate id keys behind the first occurrence are not judged (the statement is silent)",
    "thread hops are joined before the parent continues, so a case is deterministic; true parallelism is irrelevant because all state is per thread",
];

fn form() -> impl Strategy<Value = Form> {
    prop_oneof![
        3 => Just(Form::SyncFn),
        1 => Just(Form::ManualCall),
        1 => Just(Form::ManualEnter),
        1 => Just(Form::GuardSync),
        1 => Just(Form::WhenSync),
        1 => Just(Form::ResultSync),
        3 => Just(Form::AsyncFn),
        1 => Just(Form::ManualFuture),
        1 => Just(Form::GuardAsync),
        1 => Just(Form::ResultAsync),
        1 => Just(Form::HandoffCall),
        1 => Just(Form::HandoffInFn),
        1 => Just(Form::HandoffEnterBack),
        2 => Just(Form::HandoffFuture),
    ]
}

fn leaf() -> impl Strategy<Value = Item> {
    prop_oneof![3 => Just(Item::Event), 2 => Just(Item::Check), 2 => Just(Item::Yield)]
}

/// Bodies by remaining depth: explicit recursion (not `prop_recursive`) so that the branching factor
/// stays near 1 and deep chains are as likely as wide, shallow trees.
/// What a worker thread goes on with after it left a carried frame: a small unrelated program, often
/// starting a root span of its own.
fn after_items() -> impl Strategy<Value = Vec<Item>> {
    let small = prop_oneof![
        2 => leaf(),
        3 => (form(), prop::bool::weighted(0.85), prop::collection::vec(leaf(), 0..3)).prop_map(|(form, enabled, items)| Item::Span(Node { form, enabled, items, after: Vec::new() })),
    ];
    prop_oneof![2 => Just(Vec::new()), 3 => prop::collection::vec(small, 1..3)]
}

fn body(depth_left: u32) -> BoxedStrategy<Vec<Item>> {
    if depth_left == 0 {
        return prop::collection::vec(leaf(), 0..3).boxed();
    }
    let inner = body(depth_left - 1);
    let item = prop_oneof![
        5 => leaf(),
        8 => (form(), prop::bool::weighted(0.75), inner.clone(), after_items()).prop_map(|(form, enabled, items, after)| Item::Span(Node { after: if form.is_sync_handoff() { after } else { Vec::new() }, form, enabled, items })),
        1 => (prop::bool::weighted(0.7), any::<bool>(), inner.clone(), after_items()).prop_map(|(carry, fut, items, after)| Item::Hop { carry, fut, items, after }),
        1 => (any::<bool>(), prop::bool::weighted(0.4), prop::collection::vec(inner, 1..4), prop::collection::vec(0u8..16, 0..10))
            .prop_map(|(carry, migrate, tasks, schedule)| Item::Join { carry, migrate, tasks, schedule }),
    ];
    prop::collection::vec(item, 0..4).boxed()
}

/// Constructive bound on the number of span nodes: nodes beyond the budget are replaced by an event.
fn limit(items: &mut Vec<Item>, budget: &mut usize, depth: usize) {
    for it in items.iter_mut() {
        match it {
            Item::Span(n) => {
                if *budget == 0 || depth >= 6 {
                    *it = Item::Event;
                } else {
                    *budget -= 1;
                    limit(&mut n.items, budget, depth + 1);
                    limit(&mut n.after, budget, 0);
                }
            }
            Item::Hop { items, after, .. } => {
                limit(items, budget, depth);
                limit(after, budget, 0);
            }
            Item::Join { tasks, .. } => {
                for t in tasks {
                    limit(t, budget, depth)
                }
            }
            _ => {}
        }
    }
}

fn trace_value() -> impl Strategy<Value = u128> {
    prop_oneof![
        5 => any::<u128>(),
        1 => any::<u64>().prop_map(|v| v as u128),
        1 => prop_oneof![Just(1u128), Just(u128::MAX), Just(0x12345678901234567890123456789012u128), Just(1u128 << 127), Just(10u128.pow(31))],
    ]
}

fn span_value() -> impl Strategy<Value = u64> {
    prop_oneof![
        5 => any::<u64>(),
        1 => any::<u32>().prop_map(|v| v as u64),
        1 => prop_oneof![Just(1u64), Just(u64::MAX), Just(0x1234567890123456u64), Just(1u64 << 63), Just(10u64.pow(15))],
    ]
}

fn case() -> impl Strategy<Value = Case> {
    let incoming = prop_oneof![
        1 => Just(None),
        1 => (
            trace_value(),
            prop::option::weighted(0.8, span_value()),
            prop_oneof![Just(IdForm::Typed), Just(IdForm::HexLower), Just(IdForm::HexUpper), Just(IdForm::Int)]
        )
            .prop_map(|(trace, span, form)| Some(Incoming { trace: ((trace >> 64) as u64, trace as u64), span, form })),
    ];
    let rng = prop_oneof![12 => any::<u64>().prop_map(RngKind::Counter), 1 => Just(RngKind::Empty)];
    (rng, incoming, body(7)).prop_map(|(rng, incoming, mut items)| {
        let mut budget = 24;
        limit(&mut items, &mut budget, 0);
        let incoming = if rng == RngKind::Empty { None } else { incoming };
        Case { rng, incoming, items }
    })
}

fn main() {
    vcore::run("C04", Level::Exploration, RULE, &ASSUMPTIONS, |s| {
        // DESIGN: each >= 5 % of the cases; the minima are ~1 % of the quick tier
        for class in ["depth>=3", "disabled-with-enabled-descendant", "async-join", "thread-hop", "string-ids"] {
            s.require(class, 200);
        }
        s.require("async-join-interleavable", 100);
        s.require("async-join-polls-migrate-threads", 50);
        s.require("thread-hop-carried-frame", 100);
        s.require("integer-ids", 100);
        s.require("worker-thread-root-span-after-carried-frame", 100);
        s.require("own-frame-handoff-disabled-with-descendants", 100);
        s.require("own-frame-handoff-enabled-with-descendants", 100);
        s.require("empty-rng", 50);
        s.gen("span-trees", s.n(20_000, 600_000), case, c04::check_case);
    })
}
