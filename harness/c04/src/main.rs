// stub: check for C04 not built yet
fn main() {
    eprintln!("C04: check not built yet");
    std::process::exit(2);
}
