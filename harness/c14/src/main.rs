use c14::*;
use serde::{Deserialize, Serialize};
use std::collections::HashMap;
use std::sync::OnceLock;
use vcore::proptest::prelude::*;
use vcore::{Cx, Level, Res};

const RULE: &str = "cases are (a) the COMPLETE product of event classes — kind {absent, typed span, typed metric, text span, text metric, unknown text, upper-case SPAN, mixed-case Metric, padded ' metric ', integer, bool} x extent {none, point, range, empty range} x metric value {int, float, int seq, float seq, mixed numeric seq, empty seq, nested seq, seq with a text element, text, numeric-looking text, bool, missing, u64 above i64::MAX; sequences captured through sval and through serde} x aggregation {absent, sum, count, last, min, max} x all 8 subsets of configured signals x wire {HTTP/protobuf, HTTP/JSON, both with gzip, gRPC, gRPC with gzip}, each class one case served by a real emit_otlp emitter per (subset, wire) talking to the scripted collector, (a2) the COMPLETE product kind {typed span, typed metric, 'span', 'metric', ' SPAN ', 'Metric', 'spam'} x representation of the kind value {live emit::Kind / &str, owned String, Value::from_display, Display-only newtype, format_args} x buffering of the props on the way to the emitter {none, Value::to_owned, Value::to_shared, owned copy replayed on another thread} x extent {point, range} x value {int, float seq, text, missing} x aggregation {absent, sum} x 8 subsets x 3 wires, (c) concurrent discards: a configuration without logs, 2-8 threads released by a barrier, each emitting up to 60 k events no configured signal can take (tight loop over one prebuilt event) plus a few exportable ones; after the threads joined event_discarded must equal the reference's count exactly, (d) saturated signal: logs healthy, the metrics (or traces) endpoint holding every request, 10 000 + k qualifying samples (spans) emitted, then a few genuine log events: the logs endpoint receives exactly those, and (b) random streams of 1-6 events with random payloads (other integer/float widths, NaN/inf, null, random kind texts and case/padding variants, extra properties, kind property first or last) over random per-signal wire mixes. Non-trivial = the event carries (or may carry) a span/metric kind but that kind's signal is not configured or the event fails the kind's qualification (metric without a numeric/numeric-sequence value, span without a range extent).";

// ---------------------------------------------------------------------------------------------
// (a) complete class product

const KINDS: usize = 11;
const EXTENTS: usize = 4;
const VALUES: usize = 20;
const AGGS: usize = 6;
const PER_CONFIG: usize = KINDS * EXTENTS * VALUES * AGGS;

#[derive(Serialize, Deserialize, Debug, Clone, Copy, PartialEq, Eq, Hash)]
struct ClassCase {
    /// bit 0 logs, bit 1 traces, bit 2 metrics
    subset: u8,
    wire: Wire,
    kind: u8,
    extent: u8,
    value: u8,
    agg: u8,
}

impl ClassCase {
    fn index(&self) -> usize {
        ((self.kind as usize * EXTENTS + self.extent as usize) * VALUES + self.value as usize) * AGGS + self.agg as usize
    }

    fn from_index(subset: u8, wire: Wire, i: usize) -> ClassCase {
        let agg = i % AGGS;
        let i = i / AGGS;
        let value = i % VALUES;
        let i = i / VALUES;
        let extent = i % EXTENTS;
        let kind = i / EXTENTS;
        ClassCase { subset, wire, kind: kind as u8, extent: extent as u8, value: value as u8, agg: agg as u8 }
    }

    fn spec(&self) -> EventSpec {
        let kind = match self.kind {
            0 => KindSpec::Absent,
            1 => KindSpec::Typed { span: true },
            2 => KindSpec::Typed { span: false },
            3 => KindSpec::Text("span".into()),
            4 => KindSpec::Text("metric".into()),
            5 => KindSpec::Text("custom".into()),
            6 => KindSpec::Text("SPAN".into()),
            7 => KindSpec::Text("Metric".into()),
            8 => KindSpec::Text(" metric ".into()),
            9 => KindSpec::Int(1),
            _ => KindSpec::Bool(true),
        };
        let extent = match self.extent {
            0 => ExtentSpec::None,
            1 => ExtentSpec::Point { secs: 10 },
            2 => ExtentSpec::Range { secs: 10, len_ms: 1500 },
            _ => ExtentSpec::Range { secs: 10, len_ms: 0 },
        };
        let ints = vec![Num::I(1), Num::I(-2), Num::I(3)];
        let floats = vec![Num::F(1500), Num::F(-250)];
        let mixed = vec![Num::I(1), Num::F(2500)];
        let (value, capture) = match self.value {
            0 => (ValueSpec::I64(42), Capture::Sval),
            1 => (ValueSpec::F64(1500), Capture::Sval),
            2 => (ValueSpec::Seq(ints), Capture::Sval),
            3 => (ValueSpec::Seq(ints), Capture::Serde),
            4 => (ValueSpec::Seq(floats), Capture::Sval),
            5 => (ValueSpec::Seq(floats), Capture::Serde),
            6 => (ValueSpec::Seq(mixed), Capture::Serde),
            7 => (ValueSpec::Seq(vec![]), Capture::Sval),
            8 => (ValueSpec::Seq(vec![]), Capture::Serde),
            9 => (ValueSpec::Nested(vec![vec![1, 2], vec![3]]), Capture::Sval),
            10 => (ValueSpec::Nested(vec![vec![1, 2], vec![3]]), Capture::Serde),
            11 => (ValueSpec::SeqWithText(2), Capture::Serde),
            12 => (ValueSpec::Text("hello".into()), Capture::Sval),
            13 => (ValueSpec::Text("42".into()), Capture::Sval),
            14 => (ValueSpec::Bool(true), Capture::Sval),
            15 => (ValueSpec::Missing, Capture::Sval),
            16 => (ValueSpec::U64(u64::MAX), Capture::Sval),
            17 => (ValueSpec::U64(i64::MAX as u64 + 1), Capture::Sval),
            // numeric sequences whose running total overflows (i64) / leaves the finite doubles: still numeric sequences
            18 => (ValueSpec::Seq(vec![Num::I(i64::MAX), Num::I(1)]), Capture::Sval),
            _ => (ValueSpec::Seq(vec![Num::FMax { neg: false }, Num::FMax { neg: false }]), Capture::Serde),
        };
        let agg = match self.agg {
            0 => AggSpec::Absent,
            1 => AggSpec::Text("sum".into()),
            2 => AggSpec::Text("count".into()),
            3 => AggSpec::Text("last".into()),
            4 => AggSpec::Text("min".into()),
            _ => AggSpec::Text("max".into()),
        };
        EventSpec { kind, extent, value, agg, capture, extras: vec![], kind_last: false, kind_repr: KindRepr::Live, buffering: Buffering::None }
    }
}

fn wires(_quick: bool) -> Vec<Wire> {
    // the product is cheap (one emitter per configuration): both tiers enumerate every wire
    vec![Wire::HttpProto, Wire::HttpJson, Wire::HttpProtoGzip, Wire::HttpJsonGzip, Wire::GrpcProto, Wire::GrpcProtoGzip]
}

type Table = HashMap<(u8, Wire), Result<ConfigRun, String>>;
static TABLE: OnceLock<Table> = OnceLock::new();

/// One real emitter per (subset, wire) serves every class of that configuration.
fn precompute(quick: bool) -> Table {
    let configs: Vec<(u8, Wire)> = wires(quick).into_iter().flat_map(|w| (0..8u8).map(move |s| (s, w))).collect();
    let mut out = HashMap::new();
    std::thread::scope(|scope| {
        let handles: Vec<_> = configs
            .iter()
            .map(|&(subset, wire)| {
                scope.spawn(move || {
                    let cfg = Config::uniform(subset, wire);
                    let events: Vec<EventSpec> = (0..PER_CONFIG).map(|i| ClassCase::from_index(subset, wire, i).spec()).collect();
                    ((subset, wire), run_config(&cfg, 0, &events))
                })
            })
            .collect();
        for h in handles {
            let (k, v) = h.join().expect("config run panicked");
            out.insert(k, v);
        }
    });
    out
}

/// A harness problem (no loopback port, ...) makes the run inconclusive, never a violation.
fn harness(s: &vcore::Session, r: Result<ConfigRun, String>) -> Option<ConfigRun> {
    match r {
        Ok(run) => Some(run),
        Err(e) => {
            s.inconclusive(format!("harness: {e}"));
            None
        }
    }
}

fn check_class(s: &vcore::Session, case: &ClassCase, quick: bool, cx: &mut Cx) -> Res {
    let cfg = Config::uniform(case.subset, case.wire);
    let spec = case.spec();
    classify(&cfg, &spec, cx);
    cx.class(&format!("wire:{:?}", case.wire));
    if cx.replaying {
        // replay / regression: a fresh emitter for this one event
        let Some(run) = harness(s, run_config(&cfg, 7, &[spec.clone()])) else { return Ok(()) };
        judge_run(&run, cx)?;
        judge(&cfg, &spec, &run.obs[0], cx)
    } else {
        let table = TABLE.get_or_init(|| precompute(quick));
        match &table[&(case.subset, case.wire)] {
            Ok(run) => {
                judge_run(run, cx)?;
                judge(&cfg, &spec, &run.obs[case.index()], cx)
            }
            Err(e) => {
                if case.index() == 0 {
                    s.inconclusive(format!("harness: {e}"));
                }
                Ok(())
            }
        }
    }
}

// ---------------------------------------------------------------------------------------------
// (a2) complete product over the REPRESENTATION of the kind value and the buffering of the props

const R_KINDS: usize = 7;
const R_REPRS: usize = 5;
const R_BUFS: usize = 4;
const R_EXTENTS: usize = 2;
const R_VALUES: usize = 4;
const R_AGGS: usize = 2;
const R_PER_CONFIG: usize = R_KINDS * R_REPRS * R_BUFS * R_EXTENTS * R_VALUES * R_AGGS;
const R_WIRES: [Wire; 3] = [Wire::HttpProto, Wire::HttpJson, Wire::GrpcProto];

#[derive(Serialize, Deserialize, Debug, Clone, Copy, PartialEq, Eq, Hash)]
struct ReprCase {
    subset: u8,
    wire: Wire,
    kind: u8,
    repr: u8,
    buffering: u8,
    extent: u8,
    value: u8,
    agg: u8,
}

impl ReprCase {
    fn index(&self) -> usize {
        let mut i = self.kind as usize;
        i = i * R_REPRS + self.repr as usize;
        i = i * R_BUFS + self.buffering as usize;
        i = i * R_EXTENTS + self.extent as usize;
        i = i * R_VALUES + self.value as usize;
        i * R_AGGS + self.agg as usize
    }

    fn from_index(subset: u8, wire: Wire, mut i: usize) -> ReprCase {
        let agg = i % R_AGGS;
        i /= R_AGGS;
        let value = i % R_VALUES;
        i /= R_VALUES;
        let extent = i % R_EXTENTS;
        i /= R_EXTENTS;
        let buffering = i % R_BUFS;
        i /= R_BUFS;
        let repr = i % R_REPRS;
        let kind = i / R_REPRS;
        ReprCase { subset, wire, kind: kind as u8, repr: repr as u8, buffering: buffering as u8, extent: extent as u8, value: value as u8, agg: agg as u8 }
    }

    fn spec(&self) -> EventSpec {
        let kind = match self.kind {
            0 => KindSpec::Typed { span: true },
            1 => KindSpec::Typed { span: false },
            2 => KindSpec::Text("span".into()),
            3 => KindSpec::Text("metric".into()),
            4 => KindSpec::Text(" SPAN ".into()),
            5 => KindSpec::Text("Metric".into()),
            _ => KindSpec::Text("spam".into()),
        };
        let kind_repr = [KindRepr::Live, KindRepr::OwnedString, KindRepr::FromDisplay, KindRepr::DisplayNewtype, KindRepr::FormatArgs][self.repr as usize];
        let buffering = [Buffering::None, Buffering::ToOwned, Buffering::ToShared, Buffering::OtherThread][self.buffering as usize];
        let extent = if self.extent == 0 { ExtentSpec::Point { secs: 10 } } else { ExtentSpec::Range { secs: 10, len_ms: 1500 } };
        let (value, capture) = match self.value {
            0 => (ValueSpec::I64(42), Capture::Sval),
            1 => (ValueSpec::Seq(vec![Num::F(1500), Num::F(-250)]), Capture::Sval),
            2 => (ValueSpec::Text("hello".into()), Capture::Sval),
            _ => (ValueSpec::Missing, Capture::Sval),
        };
        let agg = if self.agg == 0 { AggSpec::Absent } else { AggSpec::Text("sum".into()) };
        EventSpec { kind, extent, value, agg, capture, extras: vec![], kind_last: false, kind_repr, buffering }
    }
}

type ReprTable = HashMap<(u8, Wire), Result<ConfigRun, String>>;
static REPR_TABLE: OnceLock<ReprTable> = OnceLock::new();

fn precompute_repr() -> ReprTable {
    let configs: Vec<(u8, Wire)> = R_WIRES.into_iter().flat_map(|w| (0..8u8).map(move |s| (s, w))).collect();
    let mut out = HashMap::new();
    std::thread::scope(|scope| {
        let handles: Vec<_> = configs
            .iter()
            .map(|&(subset, wire)| {
                scope.spawn(move || {
                    let cfg = Config::uniform(subset, wire);
                    let events: Vec<EventSpec> = (0..R_PER_CONFIG).map(|i| ReprCase::from_index(subset, wire, i).spec()).collect();
                    ((subset, wire), run_config(&cfg, 0, &events))
                })
            })
            .collect();
        for h in handles {
            let (k, v) = h.join().expect("config run panicked");
            out.insert(k, v);
        }
    });
    out
}

fn check_repr(s: &vcore::Session, case: &ReprCase, cx: &mut Cx) -> Res {
    let cfg = Config::uniform(case.subset, case.wire);
    let spec = case.spec();
    classify(&cfg, &spec, cx);
    cx.class(&format!("wire:{:?}", case.wire));
    if cx.replaying {
        let Some(run) = harness(s, run_config(&cfg, 7, &[spec.clone()])) else { return Ok(()) };
        judge_run(&run, cx)?;
        judge(&cfg, &spec, &run.obs[0], cx)
    } else {
        let table = REPR_TABLE.get_or_init(precompute_repr);
        match &table[&(case.subset, case.wire)] {
            Ok(run) => {
                judge_run(run, cx)?;
                judge(&cfg, &spec, &run.obs[case.index()], cx)
            }
            Err(e) => {
                if case.index() == 0 {
                    s.inconclusive(format!("harness: {e}"));
                }
                Ok(())
            }
        }
    }
}

// ---------------------------------------------------------------------------------------------
// (b) random streams

#[derive(Serialize, Deserialize, Debug, Clone, PartialEq)]
struct StreamCase {
    cfg: Config,
    events: Vec<EventSpec>,
}

fn wire() -> impl Strategy<Value = Wire> {
    prop_oneof![
        3 => Just(Wire::HttpProto),
        3 => Just(Wire::HttpJson),
        1 => Just(Wire::HttpProtoGzip),
        1 => Just(Wire::HttpJsonGzip),
        1 => Just(Wire::GrpcProto),
        1 => Just(Wire::GrpcProtoGzip),
    ]
}

fn config() -> impl Strategy<Value = Config> {
    let sig = || prop_oneof![2 => wire().prop_map(Some), 1 => Just(None)];
    (sig(), sig(), sig()).prop_map(|(logs, traces, metrics)| Config { logs, traces, metrics })
}

fn kind_text() -> impl Strategy<Value = String> {
    prop::sample::select(vec![
        "span", "metric", "SPAN", "Span", "sPaN", "METRIC", "Metric", "mETRIC", " span", "metric ", "\tspan\n", "spans", "spanx", "sp", "met",
        "metrics", "custom", "", "event", "span span", "span,metric", "log",
    ])
    .prop_map(|s| s.to_string())
}

fn num() -> impl Strategy<Value = Num> {
    prop_oneof![
        4 => any::<i64>().prop_map(Num::I),
        4 => (-100_000i64..100_000).prop_map(Num::I),
        4 => any::<i32>().prop_map(Num::F),
        1 => prop_oneof![Just(i64::MAX), Just(i64::MIN), Just(i64::MAX - 1)].prop_map(Num::I),
        1 => any::<bool>().prop_map(|neg| Num::FMax { neg }),
    ]
}

fn event() -> impl Strategy<Value = EventSpec> {
    let kind = prop_oneof![
        2 => Just(KindSpec::Absent),
        3 => any::<bool>().prop_map(|span| KindSpec::Typed { span }),
        6 => kind_text().prop_map(KindSpec::Text),
        1 => any::<i64>().prop_map(KindSpec::Int),
        1 => any::<bool>().prop_map(KindSpec::Bool),
    ];
    let extent = prop_oneof![
        2 => Just(ExtentSpec::None),
        2 => (0u32..1_000_000).prop_map(|secs| ExtentSpec::Point { secs }),
        3 => (0u32..1_000_000, 1u32..10_000_000).prop_map(|(secs, len_ms)| ExtentSpec::Range { secs, len_ms }),
        1 => (0u32..1_000_000).prop_map(|secs| ExtentSpec::Range { secs, len_ms: 0 }),
    ];
    let value = prop_oneof![
        2 => Just(ValueSpec::Missing),
        3 => any::<i64>().prop_map(ValueSpec::I64),
        1 => any::<i32>().prop_map(ValueSpec::I32),
        1 => any::<u8>().prop_map(ValueSpec::U8),
        2 => prop_oneof![any::<u64>(), Just(i64::MAX as u64), Just(i64::MAX as u64 + 1), Just(u64::MAX), 0u64..1000].prop_map(ValueSpec::U64),
        3 => any::<i32>().prop_map(ValueSpec::F64),
        1 => any::<i16>().prop_map(ValueSpec::F32),
        1 => Just(ValueSpec::NaN),
        1 => any::<bool>().prop_map(|neg| ValueSpec::Inf { neg }),
        4 => prop::collection::vec(num(), 0..6).prop_map(ValueSpec::Seq),
        2 => prop::collection::vec((-50i64..50).prop_map(Num::I), 1..40).prop_map(ValueSpec::Seq),
        // extreme elements: the running total overflows i64 / leaves the finite doubles
        1 => prop::collection::vec(prop_oneof![Just(Num::I(i64::MAX)), Just(Num::I(i64::MIN)), (1i64..5).prop_map(Num::I)], 2..5).prop_map(ValueSpec::Seq),
        1 => prop::collection::vec(prop_oneof![any::<bool>().prop_map(|neg| Num::FMax { neg }), any::<i32>().prop_map(Num::F)], 2..5).prop_map(ValueSpec::Seq),
        1 => prop::collection::vec(prop::collection::vec(any::<i64>(), 0..3), 1..4).prop_map(ValueSpec::Nested),
        1 => (0u8..4).prop_map(ValueSpec::SeqWithText),
        2 => prop::sample::select(vec!["hello", "42", "1.5", "", "NaN", "[1,2]"]).prop_map(|s| ValueSpec::Text(s.to_string())),
        1 => any::<bool>().prop_map(ValueSpec::Bool),
        1 => Just(ValueSpec::Null),
    ];
    let agg = prop_oneof![
        3 => Just(AggSpec::Absent),
        6 => prop::sample::select(vec!["sum", "count", "last", "min", "max", "SUM", "avg", ""]).prop_map(|s| AggSpec::Text(s.to_string())),
        1 => any::<i64>().prop_map(AggSpec::Int),
    ];
    let capture = prop_oneof![Just(Capture::Sval), Just(Capture::Serde)];
    let kind_repr = prop_oneof![
        4 => Just(KindRepr::Live),
        1 => Just(KindRepr::OwnedString),
        1 => Just(KindRepr::FromDisplay),
        1 => Just(KindRepr::DisplayNewtype),
        1 => Just(KindRepr::FormatArgs),
    ];
    let buffering = prop_oneof![
        5 => Just(Buffering::None),
        2 => Just(Buffering::ToOwned),
        2 => Just(Buffering::ToShared),
        1 => Just(Buffering::OtherThread),
    ];
    (kind, extent, value, agg, capture, prop::collection::vec(any::<i64>(), 0..3), any::<bool>(), kind_repr, buffering).prop_map(
        |(kind, extent, value, agg, capture, extras, kind_last, kind_repr, buffering)| EventSpec { kind, extent, value, agg, capture, extras, kind_last, kind_repr, buffering },
    )
}

fn stream_case() -> impl Strategy<Value = StreamCase> {
    (config(), prop::collection::vec(event(), 1..=6)).prop_map(|(cfg, events)| StreamCase { cfg, events })
}

fn check_stream(s: &vcore::Session, case: &StreamCase, cx: &mut Cx) -> Res {
    let Some(run) = harness(s, run_config(&case.cfg, 100, &case.events)) else { return Ok(()) };
    for w in [case.cfg.logs, case.cfg.traces, case.cfg.metrics].into_iter().flatten() {
        cx.class(&format!("wire:{w:?}"));
    }
    judge_run(&run, cx)?;
    for (e, obs) in case.events.iter().zip(&run.obs) {
        classify(&case.cfg, e, cx);
        judge(&case.cfg, e, obs, cx)?;
    }
    Ok(())
}

fn concurrent_case() -> impl Strategy<Value = ConcurrentCase> {
    let shape = prop::sample::select(vec![DropShape::NoKind, DropShape::SpanWithoutRange, DropShape::MetricWithoutNumber, DropShape::UnknownKind]);
    let drops = prop_oneof![2 => 0u32..2_000, 3 => 5_000u32..20_000, 2 => 40_000u32..60_000];
    let plan = (shape, drops, prop::collection::vec(any::<bool>(), 0..4)).prop_map(|(shape, drops, exports)| ThreadPlan { shape, drops, exports });
    let threads = prop_oneof![2 => prop::collection::vec(plan.clone(), 2..=8), 1 => prop::collection::vec(plan, 8..=8)];
    (prop::sample::select(vec![0u8, 2, 4, 6]), wire(), threads).prop_map(|(subset, wire, threads)| ConcurrentCase { subset, wire, threads })
}

fn main() {
    vcore::run(
        "C14",
        Level::Exploration,
        RULE,
        &[
            "the scripted collector (harness/collector) acknowledges every request; it decodes protobuf bodies with the prost types generated in the repository and JSON bodies with a lenient proto3-JSON reader; an event is identified by its `case_id` attribute (metrics: on the data points) or, where no attribute survives, by its message `c<case_id>` (log body / span name / metric name)",
            "the `event_discarded` counter is sampled immediately before and after each `emit` call on the emitting thread (the counter is incremented synchronously inside `emit`)",
            "outcomes the property text leaves open are accepted either way and counted as don't-care: kind texts that equal span/metric only ignoring case or surrounding whitespace (either that kind's signal or the fallback), metric values that are an empty sequence, a u64 above i64::MAX, NaN or an infinity (metrics or the fallback); an empty range (start == end) IS a range extent per the Extent documentation",
            "exactly-once is judged over every request the collector received after a successful blocking_flush",
        ],
        |s| {
            s.require("nontrivial", 3000);
            s.require("route:metrics", 300);
            s.require("route:traces", 300);
            s.require("route:logs", 300);
            s.require("route:dropped", 300);
            s.require("dont-care", 100);
            s.require("kind:wrong-case-or-padded", 100);
            s.require("extent:empty-range", 100);
            s.require("value:huge-u64", 100);
            s.require("value:empty-seq", 100);
            s.require("value:nested-seq", 100);
            s.require("value:seq-whose-running-total-leaves-i64-or-the-finite-doubles", 1000);
            s.require("wire:HttpProto", 100);
            s.require("wire:HttpJson", 100);
            s.require("wire:GrpcProto", 100);
            s.require("wire:HttpJsonGzip", 100);
            s.require("signals:---", 100);
            s.require("signals:LTM", 100);

            let quick = s.quick();
            let cases = wires(quick)
                .into_iter()
                .flat_map(|w| (0..8u8).flat_map(move |sub| (0..PER_CONFIG).map(move |i| ClassCase::from_index(sub, w, i))));
            s.enumerate("class-product", cases, move |c, cx| check_class(s, c, quick, cx));

            // how the kind VALUE is represented and whether the props were buffered on the way
            for (class, min) in [
                ("kind-repr:live-kind", 1000),
                ("kind-repr:str", 1000),
                ("kind-repr:string", 1000),
                ("kind-repr:display-captured", 1000),
                ("kind-repr:display-newtype", 1000),
                ("kind-repr:format-args", 1000),
                ("kind-repr:owned-kind", 300),
                ("kind-repr:shared-kind", 300),
                ("kind-repr:owned-kind-on-other-thread", 300),
                ("kind-repr:buffered-str", 300),
                ("kind-repr:buffered-string", 300),
                ("kind-repr:buffered-display", 300),
                ("buffered:to-owned", 3000),
                ("buffered:to-shared", 3000),
                ("buffered:replayed-on-other-thread", 3000),
            ] {
                s.require(class, min);
            }
            let repr_cases = R_WIRES.into_iter().flat_map(|w| (0..8u8).flat_map(move |sub| (0..R_PER_CONFIG).map(move |i| ReprCase::from_index(sub, w, i))));
            s.enumerate("kind-representation-product", repr_cases, move |c, cx| check_repr(s, c, cx));

            s.gen("random-streams", s.n(6000, 200_000), stream_case, |c, cx| check_stream(s, c, cx));

            // a signal whose queue is full: its events are not exported through logs instead
            s.require("saturated:metrics-queue-full-with-logs-configured", 4);
            s.require("saturated:traces-queue-full-with-logs-configured", 4);
            for (name, spans) in [("saturated-metrics-queue", false), ("saturated-traces-queue", true)] {
                s.gen(
                    name,
                    s.n(6, 200),
                    move || (wire(), 1u8..50, 1u8..10, any::<bool>()).prop_map(move |(wire, beyond, logs, third)| SaturatedCase { wire, spans, beyond, logs, third }),
                    |c, cx| match check_saturated(c, cx) {
                        Ok(Ok(())) => Ok(()),
                        Ok(Err(p)) => {
                            s.inconclusive(p);
                            Ok(())
                        }
                        Err(f) => Err(f),
                    },
                );
            }

            // the discard counter under concurrency: exact after the emitting threads have joined
            s.require("concurrent-discards:>=2-threads-dropping", 30);
            s.require("concurrent-discards:>=100k-drops", 10);
            s.require("concurrent-discards:with-exported-events", 20);
            s.gen("concurrent-discards", s.n(48, 2_000), concurrent_case, |c, cx| match check_concurrent(c, cx) {
                Ok(Ok(())) => Ok(()),
                Ok(Err(p)) => {
                    s.inconclusive(format!("harness: {p}"));
                    Ok(())
                }
                Err(f) => Err(f),
            });
        },
    )
}
