// stub: check for C14 not built yet
fn main() {
    eprintln!("C14: check not built yet");
    std::process::exit(2);
}
