//! C14 — each event goes to exactly one OTLP signal, chosen by kind, logs as fallback.
//!
//! `model` is the routing classifier derived from the PROPERTY TEXT (not from `client.rs`); `run_config`
//! drives a real `emit_otlp::Otlp` against the scripted collector (engine E4) and reports, per event,
//! where its `case_id` showed up and by how much the `event_discarded` metric moved.

use collector::{Collector, Signal};
use emit::Emitter as _;
use serde::{Deserialize, Serialize};
use std::collections::BTreeMap;
use std::time::Duration;
use vcore::{Cx, Res};

// ---------------------------------------------------------------------------------------------
// configuration

#[derive(Serialize, Deserialize, Debug, Clone, Copy, PartialEq, Eq, Hash, PartialOrd, Ord)]
pub enum Wire {
    HttpProto,
    HttpJson,
    HttpProtoGzip,
    HttpJsonGzip,
    GrpcProto,
    GrpcProtoGzip,
}

/// Which signals are configured and how each is transported.
#[derive(Serialize, Deserialize, Debug, Clone, Copy, PartialEq, Eq, Hash, PartialOrd, Ord)]
pub struct Config {
    pub logs: Option<Wire>,
    pub traces: Option<Wire>,
    pub metrics: Option<Wire>,
}

impl Config {
    pub fn uniform(subset: u8, wire: Wire) -> Config {
        Config {
            logs: (subset & 1 != 0).then_some(wire),
            traces: (subset & 2 != 0).then_some(wire),
            metrics: (subset & 4 != 0).then_some(wire),
        }
    }

    pub fn subset_label(&self) -> String {
        format!(
            "signals:{}{}{}",
            if self.logs.is_some() { "L" } else { "-" },
            if self.traces.is_some() { "T" } else { "-" },
            if self.metrics.is_some() { "M" } else { "-" }
        )
    }
}

fn transport(c: &Collector, wire: Wire, signal: Signal) -> emit_otlp::OtlpTransportBuilder {
    match wire {
        Wire::HttpProto | Wire::HttpJson => emit_otlp::http(c.http_url(signal)).allow_compression(false),
        Wire::HttpProtoGzip | Wire::HttpJsonGzip => emit_otlp::http(c.http_url(signal)).allow_compression(true),
        Wire::GrpcProto => emit_otlp::grpc(c.grpc_url()).allow_compression(false),
        Wire::GrpcProtoGzip => emit_otlp::grpc(c.grpc_url()).allow_compression(true),
    }
}

fn is_json(w: Wire) -> bool {
    matches!(w, Wire::HttpJson | Wire::HttpJsonGzip)
}

pub fn build_otlp(c: &Collector, cfg: &Config) -> emit_otlp::Otlp {
    let mut b = emit_otlp::new().resource(emit::props! { #[emit::key("service.name")] service_name: "c14" });
    if let Some(w) = cfg.logs {
        let t = transport(c, w, Signal::Logs);
        b = b.logs(if is_json(w) { emit_otlp::logs_json(t) } else { emit_otlp::logs_proto(t) });
    }
    if let Some(w) = cfg.traces {
        let t = transport(c, w, Signal::Traces);
        b = b.traces(if is_json(w) { emit_otlp::traces_json(t) } else { emit_otlp::traces_proto(t) });
    }
    if let Some(w) = cfg.metrics {
        let t = transport(c, w, Signal::Metrics);
        b = b.metrics(if is_json(w) { emit_otlp::metrics_json(t) } else { emit_otlp::metrics_proto(t) });
    }
    b.spawn()
}

// ---------------------------------------------------------------------------------------------
// events as data

#[derive(Serialize, Deserialize, Debug, Clone, PartialEq)]
pub enum KindSpec {
    Absent,
    /// `emit::Kind::Span` / `emit::Kind::Metric` as a typed value
    Typed { span: bool },
    Text(String),
    Int(i64),
    Bool(bool),
}

#[derive(Serialize, Deserialize, Debug, Clone, Copy, PartialEq)]
pub enum ExtentSpec {
    None,
    Point { secs: u32 },
    /// `start .. start+len`; `len == 0` is the empty range
    Range { secs: u32, len_ms: u32 },
}

#[derive(Serialize, Deserialize, Debug, Clone, Copy, PartialEq)]
pub enum Num {
    I(i64),
    /// finite double given as mantissa/1000
    F(i32),
    /// the largest finite double (negated if `neg`): two of them in a summed sequence leave the finite range
    FMax { neg: bool },
}

/// does the running total of the sequence overflow `i64` (all integers) or leave the finite doubles?
pub fn seq_total_overflows(seq: &[Num]) -> bool {
    if !seq.is_empty() && seq.iter().all(|n| matches!(n, Num::I(_))) {
        let mut t = 0i64;
        for n in seq {
            let Num::I(i) = n else { unreachable!() };
            match t.checked_add(*i) {
                Some(v) => t = v,
                None => return true,
            }
        }
        false
    } else {
        let mut t = 0f64;
        for n in seq {
            t += n.as_f64();
            if !t.is_finite() {
                return true;
            }
        }
        false
    }
}

impl Num {
    pub fn is_float(&self) -> bool {
        matches!(self, Num::F(_) | Num::FMax { .. })
    }
    pub fn as_f64(&self) -> f64 {
        match self {
            Num::I(i) => *i as f64,
            Num::F(f) => *f as f64 / 1000.0,
            Num::FMax { neg: false } => f64::MAX,
            Num::FMax { neg: true } => -f64::MAX,
        }
    }
}

#[derive(Serialize, Deserialize, Debug, Clone, PartialEq)]
pub enum ValueSpec {
    Missing,
    I64(i64),
    I32(i32),
    U8(u8),
    U64(u64),
    F64(i32),
    F32(i16),
    NaN,
    Inf { neg: bool },
    Seq(Vec<Num>),
    Nested(Vec<Vec<i64>>),
    /// a sequence with a text element after `n` numbers
    SeqWithText(u8),
    Text(String),
    Bool(bool),
    Null,
}

#[derive(Serialize, Deserialize, Debug, Clone, PartialEq)]
pub enum AggSpec {
    Absent,
    Text(String),
    Int(i64),
}

/// how sequence values are captured into an `emit::Value`
#[derive(Serialize, Deserialize, Debug, Clone, Copy, PartialEq)]
pub enum Capture {
    Sval,
    Serde,
}

/// How the `evt_kind` value is represented when the event is built (what it DENOTES is `KindSpec`).
#[derive(Serialize, Deserialize, Debug, Clone, Copy, PartialEq, Eq, Default)]
pub enum KindRepr {
    /// a live `emit::Kind` (`Kind::to_value`) for typed kinds, a borrowed `&str` for texts
    #[default]
    Live,
    /// an owned `String` holding the kind's text (`Value::from(&String)`)
    OwnedString,
    /// `Value::from_display(&kind)` / `from_display(&String)`: only its Display is known
    FromDisplay,
    /// a user type that implements nothing but `Display`
    DisplayNewtype,
    /// `Value::from_display(&format_args!("{}", kind))`
    FormatArgs,
}

/// What happens to the event's properties between the application and `emit_otlp`.
#[derive(Serialize, Deserialize, Debug, Clone, Copy, PartialEq, Eq, Default)]
pub enum Buffering {
    /// emitted as built
    #[default]
    None,
    /// every value went through `Value::to_owned()`; the event is rebuilt from the owned props
    ToOwned,
    /// every value went through `Value::to_shared()`
    ToShared,
    /// an owned copy of the whole event is moved to another thread and emitted from there
    OtherThread,
}

struct Shown(String);

impl std::fmt::Display for Shown {
    fn fmt(&self, f: &mut std::fmt::Formatter) -> std::fmt::Result {
        f.write_str(&self.0)
    }
}

#[derive(Serialize, Deserialize, Debug, Clone, PartialEq)]
pub struct EventSpec {
    pub kind: KindSpec,
    pub extent: ExtentSpec,
    pub value: ValueSpec,
    pub agg: AggSpec,
    pub capture: Capture,
    /// extra ordinary properties (`x0`, `x1`, ...)
    pub extras: Vec<i64>,
    /// put the kind property last instead of first
    pub kind_last: bool,
    #[serde(default)]
    pub kind_repr: KindRepr,
    #[serde(default)]
    pub buffering: Buffering,
}

enum Held {
    None,
    I(Vec<i64>),
    F(Vec<f64>),
    NN(Vec<Vec<i64>>),
    Mixed(Vec<MixedElem>),
}

#[derive(Serialize)]
#[serde(untagged)]
enum MixedElem {
    N(i64),
    F(f64),
    T(&'static str),
}

fn ts(secs: u32, extra_ms: u32) -> emit::Timestamp {
    emit::Timestamp::from_unix(Duration::from_millis(1_700_000_000_000 + secs as u64 * 1000 + extra_ms as u64)).unwrap()
}

/// Emit `spec` with `case_id` through `otlp`. The event's message is the literal `c<case_id>`, so log
/// bodies, span names and metric names identify the case even where no attribute survives (a metric
/// without data points).
pub fn emit_one(otlp: &emit_otlp::Otlp, case_id: u64, spec: &EventSpec) {
    let name = format!("c{case_id}");
    let extent: Option<emit::Extent> = match spec.extent {
        ExtentSpec::None => None,
        ExtentSpec::Point { secs } => Some(emit::Extent::point(ts(secs, 0))),
        ExtentSpec::Range { secs, len_ms } => Some(emit::Extent::range(ts(secs, 0)..ts(secs, len_ms))),
    };

    // values that need a home while borrowed
    let held = match &spec.value {
        ValueSpec::Seq(v) => {
            if v.iter().all(|n| matches!(n, Num::I(_))) {
                Held::I(v.iter().map(|n| if let Num::I(i) = n { *i } else { 0 }).collect())
            } else if v.iter().all(|n| n.is_float()) {
                Held::F(v.iter().map(|n| n.as_f64()).collect())
            } else {
                // mixed ints and floats: a numeric sequence of doubles and integers
                Held::Mixed(
                    v.iter()
                        .map(|n| match n {
                            Num::I(i) => MixedElem::N(*i),
                            f => MixedElem::F(f.as_f64()),
                        })
                        .collect(),
                )
            }
        }
        ValueSpec::Nested(v) => Held::NN(v.clone()),
        ValueSpec::SeqWithText(n) => {
            let mut v: Vec<MixedElem> = (0..*n as i64).map(MixedElem::N).collect();
            v.push(MixedElem::T("x"));
            Held::Mixed(v)
        }
        _ => Held::None,
    };

    let f32_held: f32 = if let ValueSpec::F32(v) = &spec.value { *v as f32 / 8.0 } else { 0.0 };
    let value: Option<emit::Value> = match &spec.value {
        ValueSpec::Missing => None,
        ValueSpec::I64(v) => Some(emit::Value::from(*v)),
        ValueSpec::I32(v) => Some(emit::Value::from(*v)),
        ValueSpec::U8(v) => Some(emit::Value::from(*v)),
        ValueSpec::U64(v) => Some(emit::Value::from(*v)),
        ValueSpec::F64(v) => Some(emit::Value::from(*v as f64 / 1000.0)),
        ValueSpec::F32(_) => Some(emit::Value::from_sval(&f32_held)),
        ValueSpec::NaN => Some(emit::Value::from(f64::NAN)),
        ValueSpec::Inf { neg } => Some(emit::Value::from(if *neg { f64::NEG_INFINITY } else { f64::INFINITY })),
        ValueSpec::Text(s) => Some(emit::Value::from(s.as_str())),
        ValueSpec::Bool(b) => Some(emit::Value::from(*b)),
        ValueSpec::Null => Some(emit::Value::null()),
        ValueSpec::Seq(_) | ValueSpec::Nested(_) | ValueSpec::SeqWithText(_) => Some(match (&held, spec.capture) {
            (Held::I(v), Capture::Sval) => emit::Value::from_sval(v),
            (Held::I(v), Capture::Serde) => emit::Value::from_serde(v),
            (Held::F(v), Capture::Sval) => emit::Value::from_sval(v),
            (Held::F(v), Capture::Serde) => emit::Value::from_serde(v),
            (Held::NN(v), Capture::Sval) => emit::Value::from_sval(v),
            (Held::NN(v), Capture::Serde) => emit::Value::from_serde(v),
            (Held::Mixed(v), _) => emit::Value::from_serde(v),
            (Held::None, _) => unreachable!(),
        }),
    };

    // the kind's text (what the value denotes) and the homes of its representations
    let kind_text: String = match &spec.kind {
        KindSpec::Typed { span: true } => "span".to_string(),
        KindSpec::Typed { span: false } => "metric".to_string(),
        KindSpec::Text(s) => s.clone(),
        _ => String::new(),
    };
    let shown = Shown(kind_text.clone());
    let live: &'static emit::Kind = if matches!(spec.kind, KindSpec::Typed { span: false }) { &emit::Kind::Metric } else { &emit::Kind::Span };
    let kind_args = format_args!("{}", kind_text);
    let kind: Option<emit::Value> = match (&spec.kind, spec.kind_repr) {
        (KindSpec::Absent, _) => None,
        (KindSpec::Int(i), _) => Some(emit::Value::from(*i)),
        (KindSpec::Bool(b), _) => Some(emit::Value::from(*b)),
        (KindSpec::Typed { .. }, KindRepr::Live) => Some(emit::Value::capture_display(live)),
        (KindSpec::Text(_), KindRepr::Live) => Some(emit::Value::from(kind_text.as_str())),
        (_, KindRepr::OwnedString) => Some(emit::Value::from(&kind_text)),
        (KindSpec::Typed { .. }, KindRepr::FromDisplay) => Some(emit::Value::from_display(live)),
        (KindSpec::Text(_), KindRepr::FromDisplay) => Some(emit::Value::from_display(&kind_text)),
        (_, KindRepr::DisplayNewtype) => Some(emit::Value::from_display(&shown)),
        (_, KindRepr::FormatArgs) => Some(emit::Value::from_display(&kind_args)),
    };
    let agg: Option<emit::Value> = match &spec.agg {
        AggSpec::Absent => None,
        AggSpec::Text(s) => Some(emit::Value::from(s.as_str())),
        AggSpec::Int(i) => Some(emit::Value::from(*i)),
    };

    let extra_keys: Vec<String> = (0..spec.extras.len()).map(|i| format!("x{i}")).collect();
    let mut props: Vec<(&str, emit::Value)> = Vec::new();
    if !spec.kind_last {
        if let Some(k) = &kind {
            props.push((emit::well_known::KEY_EVT_KIND, k.by_ref()));
        }
    }
    props.push(("case_id", emit::Value::from(case_id)));
    if let Some(v) = &value {
        props.push((emit::well_known::KEY_METRIC_VALUE, v.by_ref()));
    }
    if let Some(a) = &agg {
        props.push((emit::well_known::KEY_METRIC_AGG, a.by_ref()));
    }
    for (k, v) in extra_keys.iter().zip(&spec.extras) {
        props.push((k.as_str(), emit::Value::from(*v)));
    }
    if spec.kind_last {
        if let Some(k) = &kind {
            props.push((emit::well_known::KEY_EVT_KIND, k.by_ref()));
        }
    }

    let mdl = emit::Path::new_raw("c14::case");
    match spec.buffering {
        Buffering::None => otlp.emit(emit::Event::new(mdl, emit::Template::literal_ref(&name), extent, &props[..])),
        Buffering::ToOwned | Buffering::ToShared | Buffering::OtherThread => {
            // what a deferring / forwarding emitter, a capture or a replay does: keep owned copies of the
            // props and build the event that reaches emit_otlp from those
            let owned: Vec<(String, emit::value::OwnedValue)> = props
                .iter()
                .map(|(k, v)| (k.to_string(), if spec.buffering == Buffering::ToShared { v.to_shared() } else { v.to_owned() }))
                .collect();
            drop(props);
            let replay = |owned: &[(String, emit::value::OwnedValue)], name: &str, extent: Option<emit::Extent>| {
                let again: Vec<(&str, emit::Value)> = owned.iter().map(|(k, v)| (k.as_str(), emit::Value::from(v))).collect();
                otlp.emit(emit::Event::new(emit::Path::new_raw("c14::case"), emit::Template::literal_ref(name), extent, &again[..]));
            };
            if spec.buffering == Buffering::OtherThread {
                let name = name.clone();
                std::thread::scope(|scope| {
                    scope.spawn(move || replay(&owned, &name, extent));
                });
            } else {
                replay(&owned, &name, extent);
            }
        }
    }
}

// ---------------------------------------------------------------------------------------------
// the model (from the property text)

#[derive(Clone, Copy, PartialEq, Eq, Debug, PartialOrd, Ord, Serialize, Deserialize)]
pub enum Route {
    Metrics,
    Traces,
    Logs,
    Dropped,
}

#[derive(Clone, Copy, PartialEq, Eq, Debug)]
enum K {
    None,
    Span,
    Metric,
    /// a text that only matches "span"/"metric" when case and surrounding whitespace are ignored: the
    /// property text does not say whether that *is* the kind, so both readings are accepted
    MaybeSpan,
    MaybeMetric,
}

#[derive(Clone, Copy, PartialEq, Eq, Debug)]
enum V {
    Numeric,
    NotNumeric,
    /// the text leaves it open whether this is a usable "numeric or numeric-sequence value"
    Open,
}

fn kind_of(k: &KindSpec) -> K {
    match k {
        KindSpec::Absent | KindSpec::Int(_) | KindSpec::Bool(_) => K::None,
        KindSpec::Typed { span: true } => K::Span,
        KindSpec::Typed { span: false } => K::Metric,
        KindSpec::Text(s) => {
            if s == "span" {
                K::Span
            } else if s == "metric" {
                K::Metric
            } else if s.trim().eq_ignore_ascii_case("span") {
                K::MaybeSpan
            } else if s.trim().eq_ignore_ascii_case("metric") {
                K::MaybeMetric
            } else {
                K::None
            }
        }
    }
}

fn value_of(v: &ValueSpec) -> V {
    match v {
        ValueSpec::I64(_) | ValueSpec::I32(_) | ValueSpec::U8(_) | ValueSpec::F64(_) | ValueSpec::F32(_) => V::Numeric,
        // representable as a signed 64-bit integer: an ordinary integer; above that OTLP has no
        // integer point type and the text does not say what happens
        ValueSpec::U64(u) => {
            if *u <= i64::MAX as u64 {
                V::Numeric
            } else {
                V::Open
            }
        }
        // "not a number" and the infinities: numeric type, arguably not a numeric value
        ValueSpec::NaN | ValueSpec::Inf { .. } => V::Open,
        ValueSpec::Seq(s) => {
            if s.is_empty() {
                V::Open
            } else {
                V::Numeric
            }
        }
        ValueSpec::Missing
        | ValueSpec::Nested(_)
        | ValueSpec::SeqWithText(_)
        | ValueSpec::Text(_)
        | ValueSpec::Bool(_)
        | ValueSpec::Null => V::NotNumeric,
    }
}

pub struct Expect {
    /// routes the property allows for this event under this configuration (1 = decided, >1 = don't-care)
    pub allowed: Vec<Route>,
    /// the event carries (or may carry) a span/metric kind but its signal is unconfigured or it fails
    /// that kind's qualification
    pub nontrivial: bool,
}

pub fn model(cfg: &Config, e: &EventSpec) -> Expect {
    let k = kind_of(&e.kind);
    let v = value_of(&e.value);
    let is_range = matches!(e.extent, ExtentSpec::Range { .. });
    let fallback = if cfg.logs.is_some() { Route::Logs } else { Route::Dropped };

    let nontrivial = match k {
        K::Metric | K::MaybeMetric => cfg.metrics.is_none() || v != V::Numeric,
        K::Span | K::MaybeSpan => cfg.traces.is_none() || !is_range,
        K::None => false,
    };

    let mut allowed = Vec::new();
    match k {
        K::Metric | K::MaybeMetric => {
            let qualifies = cfg.metrics.is_some() && v != V::NotNumeric;
            let decided = k == K::Metric && v == V::Numeric;
            if qualifies {
                allowed.push(Route::Metrics);
            }
            if !(qualifies && decided) {
                allowed.push(fallback);
            }
        }
        K::Span | K::MaybeSpan => {
            let qualifies = cfg.traces.is_some() && is_range;
            let decided = k == K::Span;
            if qualifies {
                allowed.push(Route::Traces);
            }
            if !(qualifies && decided) {
                allowed.push(fallback);
            }
        }
        K::None => allowed.push(fallback),
    }
    Expect { allowed, nontrivial }
}

// ---------------------------------------------------------------------------------------------
// observation

#[derive(Debug, Clone, Default, PartialEq)]
pub struct Observation {
    /// (signal, number of records carrying this case) over every request the collector received
    pub found: Vec<(Signal, u32)>,
    /// movement of the `event_discarded` metric across this event's `emit` call
    pub discard_delta: usize,
}

pub struct ConfigRun {
    pub obs: Vec<Observation>,
    /// records that belong to none of the emitted cases
    pub stray: Vec<String>,
    pub flush_ok: bool,
    pub discarded_total: usize,
    pub decode_errors: Vec<String>,
    pub wrong_endpoint: Vec<String>,
}

/// Run one emitter against one collector: emit every event (ids `base_id + index`), flush, read the log.
pub fn run_config(cfg: &Config, base_id: u64, events: &[EventSpec]) -> Result<ConfigRun, String> {
    let c = Collector::try_start()?;
    if [cfg.logs, cfg.traces, cfg.metrics].into_iter().flatten().any(|w| matches!(w, Wire::GrpcProto | Wire::GrpcProtoGzip)) {
        c.ensure_grpc()?;
    }
    let otlp = build_otlp(&c, cfg);
    let mut deltas = Vec::with_capacity(events.len());
    let mut flush_ok = true;
    for (i, e) in events.iter().enumerate() {
        let before = otlp.metric_source().event_discarded();
        emit_one(&otlp, base_id + i as u64, e);
        let after = otlp.metric_source().event_discarded();
        deltas.push(after - before);
        // stay far below the 10 000 item channel capacity
        if i % 2000 == 1999 {
            flush_ok &= otlp.blocking_flush(Duration::from_secs(60));
        }
    }
    flush_ok &= otlp.blocking_flush(Duration::from_secs(60));
    let discarded_total = otlp.metric_source().event_discarded();
    let log = c.requests();
    // the collector goes first: closing from the server side keeps the client's ephemeral ports out
    // of TIME_WAIT (tens of thousands of cases per run)
    c.shutdown();
    drop(otlp);
    if std::env::var_os("VERIF_DEBUG").is_some() {
        for r in &log {
            eprintln!(
                "req {} conn {} {:?} {} {:?} gzip={} {:?} {:?} wire={} payload={} records={:?} err={:?} notes={:?}",
                r.seq, r.conn, r.transport, r.path, r.encoding, r.gzip, r.decision, r.outcome, r.wire_len, r.payload_len, r.records, r.decode_error, r.json_notes
            );
        }
        if std::env::var("VERIF_DEBUG").as_deref() == Ok("2") {
            for r in &log {
                if let (collector::Encoding::Json, Some(p)) = (r.encoding, &r.payload) {
                    eprintln!("body {}: {}", r.seq, String::from_utf8_lossy(p));
                }
            }
        }
        eprintln!("flush_ok={flush_ok} discarded={discarded_total}");
    }

    let mut found: BTreeMap<u64, BTreeMap<Signal, u32>> = BTreeMap::new();
    let mut stray = Vec::new();
    let mut decode_errors = Vec::new();
    let mut wrong_endpoint = Vec::new();
    for r in &log {
        if let Some(e) = &r.decode_error {
            decode_errors.push(format!("request {} to {}: {e}", r.seq, r.path));
        }
        for rec in &r.records {
            if Some(rec.signal) != r.signal {
                wrong_endpoint.push(format!("{:?} record at {}", rec.signal, r.path));
            }
            let by_attr = rec.case_id.as_ref().and_then(|s| s.parse::<u64>().ok());
            let by_name = rec.name.strip_prefix('c').and_then(|s| s.parse::<u64>().ok());
            let id = match (by_attr, by_name) {
                (Some(a), Some(b)) if a != b => {
                    stray.push(format!("record name {:?} but case_id {a}", rec.name));
                    continue;
                }
                (Some(a), _) => a,
                (None, Some(b)) => b,
                (None, None) => {
                    stray.push(format!("{:?} record {:?} without case_id", rec.signal, rec.name));
                    continue;
                }
            };
            if id < base_id || id >= base_id + events.len() as u64 {
                stray.push(format!("record for unknown case {id}"));
                continue;
            }
            *found.entry(id).or_default().entry(rec.signal).or_default() += 1;
        }
    }
    let obs = (0..events.len())
        .map(|i| Observation {
            found: found
                .get(&(base_id + i as u64))
                .map(|m| m.iter().map(|(s, n)| (*s, *n)).collect())
                .unwrap_or_default(),
            discard_delta: deltas[i],
        })
        .collect();
    Ok(ConfigRun { obs, stray, flush_ok, discarded_total, decode_errors, wrong_endpoint })
}

fn route_of(s: Signal) -> Route {
    match s {
        Signal::Logs => Route::Logs,
        Signal::Traces => Route::Traces,
        Signal::Metrics => Route::Metrics,
    }
}

pub fn classify(cfg: &Config, e: &EventSpec, cx: &mut Cx) {
    cx.class(&cfg.subset_label());
    cx.class(match &e.kind {
        KindSpec::Absent => "kind:absent",
        KindSpec::Typed { span: true } => "kind:span-typed",
        KindSpec::Typed { span: false } => "kind:metric-typed",
        KindSpec::Text(s) if s == "span" => "kind:span-text",
        KindSpec::Text(s) if s == "metric" => "kind:metric-text",
        KindSpec::Text(s) if s.trim().eq_ignore_ascii_case("span") || s.trim().eq_ignore_ascii_case("metric") => "kind:wrong-case-or-padded",
        KindSpec::Text(_) => "kind:unknown-text",
        KindSpec::Int(_) | KindSpec::Bool(_) => "kind:non-text",
    });
    if !matches!(e.kind, KindSpec::Absent | KindSpec::Int(_) | KindSpec::Bool(_)) {
        let typed = matches!(e.kind, KindSpec::Typed { .. });
        cx.class(match (e.kind_repr, typed) {
            (KindRepr::Live, true) => "kind-repr:live-kind",
            (KindRepr::Live, false) => "kind-repr:str",
            (KindRepr::OwnedString, _) => "kind-repr:string",
            (KindRepr::FromDisplay, _) => "kind-repr:display-captured",
            (KindRepr::DisplayNewtype, _) => "kind-repr:display-newtype",
            (KindRepr::FormatArgs, _) => "kind-repr:format-args",
        });
        match (e.buffering, e.kind_repr, typed) {
            (Buffering::ToOwned, KindRepr::Live, true) => cx.class("kind-repr:owned-kind"),
            (Buffering::ToShared, KindRepr::Live, true) => cx.class("kind-repr:shared-kind"),
            (Buffering::OtherThread, KindRepr::Live, true) => cx.class("kind-repr:owned-kind-on-other-thread"),
            _ => {}
        }
        if e.buffering != Buffering::None {
            cx.class(match e.kind_repr {
                KindRepr::Live if typed => "kind-repr:buffered-kind",
                KindRepr::Live => "kind-repr:buffered-str",
                KindRepr::OwnedString => "kind-repr:buffered-string",
                _ => "kind-repr:buffered-display",
            });
        }
    }
    cx.class(match e.buffering {
        Buffering::None => "buffered:no",
        Buffering::ToOwned => "buffered:to-owned",
        Buffering::ToShared => "buffered:to-shared",
        Buffering::OtherThread => "buffered:replayed-on-other-thread",
    });
    cx.class(match e.extent {
        ExtentSpec::None => "extent:none",
        ExtentSpec::Point { .. } => "extent:point",
        ExtentSpec::Range { len_ms: 0, .. } => "extent:empty-range",
        ExtentSpec::Range { .. } => "extent:range",
    });
    cx.class(match &e.value {
        ValueSpec::Missing => "value:missing",
        ValueSpec::I64(_) | ValueSpec::I32(_) | ValueSpec::U8(_) => "value:int",
        ValueSpec::U64(u) if *u > i64::MAX as u64 => "value:huge-u64",
        ValueSpec::U64(_) => "value:int",
        ValueSpec::F64(_) | ValueSpec::F32(_) => "value:float",
        ValueSpec::NaN | ValueSpec::Inf { .. } => "value:non-finite",
        ValueSpec::Seq(s) if s.is_empty() => "value:empty-seq",
        ValueSpec::Seq(s) if s.iter().all(|n| matches!(n, Num::I(_))) => "value:int-seq",
        ValueSpec::Seq(s) if s.iter().all(|n| n.is_float()) => "value:float-seq",
        ValueSpec::Seq(_) => "value:mixed-num-seq",
        ValueSpec::Nested(_) => "value:nested-seq",
        ValueSpec::SeqWithText(_) => "value:seq-with-text",
        ValueSpec::Text(_) => "value:text",
        ValueSpec::Bool(_) => "value:bool",
        ValueSpec::Null => "value:null",
    });
    if let ValueSpec::Seq(seq) = &e.value {
        // a numeric sequence all the same (the statement says "numeric-sequence value", not "whose total fits")
        cx.class_if(seq_total_overflows(seq), "value:seq-whose-running-total-leaves-i64-or-the-finite-doubles");
    }
    cx.class(match &e.agg {
        AggSpec::Absent => "agg:absent",
        AggSpec::Text(s) if s == "sum" => "agg:sum",
        AggSpec::Text(s) if s == "count" => "agg:count",
        AggSpec::Text(s) if s == "last" => "agg:last",
        AggSpec::Text(s) if s == "min" || s == "max" => "agg:min-max",
        AggSpec::Text(_) => "agg:other-text",
        AggSpec::Int(_) => "agg:non-text",
    });
}

/// Judge one event's observation against the model.
pub fn judge(cfg: &Config, e: &EventSpec, obs: &Observation, cx: &mut Cx) -> Res {
    let exp = model(cfg, e);
    cx.nontrivial(exp.nontrivial);
    cx.class_if(exp.nontrivial, "nontrivial");
    if exp.allowed.len() > 1 {
        cx.dont_care();
        cx.class("dont-care");
    }
    let total: u32 = obs.found.iter().map(|(_, n)| n).sum();
    if total > 1 {
        if obs.found.len() > 1 {
            cx.fail(
                "exported-through-more-than-one-signal",
                format!("{cfg:?} {e:?}: found at {:?}", obs.found),
            )?;
        } else {
            cx.fail("exported-twice", format!("{cfg:?} {e:?}: found at {:?}", obs.found))?;
        }
        return Ok(());
    }
    let route = match obs.found.first() {
        Some((s, _)) => route_of(*s),
        None => Route::Dropped,
    };
    cx.class(match route {
        Route::Metrics => "route:metrics",
        Route::Traces => "route:traces",
        Route::Logs => "route:logs",
        Route::Dropped => "route:dropped",
    });
    if exp.allowed.len() > 1 {
        // which way the implementation went on an open outcome (reported, never asserted)
        cx.class(if route == exp.allowed[0] { "dont-care:took-kind-route" } else { "dont-care:took-fallback" });
    }
    if !exp.allowed.contains(&route) {
        let configured = match route {
            Route::Metrics => cfg.metrics.is_some(),
            Route::Traces => cfg.traces.is_some(),
            Route::Logs => cfg.logs.is_some(),
            Route::Dropped => true,
        };
        let sig = match (exp.allowed[0], route) {
            (_, Route::Dropped) => "event-lost-although-a-signal-can-take-it",
            _ if !configured => "exported-through-unconfigured-signal",
            (Route::Metrics, _) => "metric-sample-not-exported-as-metric",
            (Route::Traces, _) => "span-not-exported-as-span",
            // the fallback (logs, or dropped when logs is not configured) was expected
            (_, _) => "exported-through-signal-that-contradicts-its-kind",
        };
        cx.fail(sig, format!("{cfg:?} {e:?}: expected one of {:?}, observed {route:?} (found {:?})", exp.allowed, obs.found))?;
    }
    let expected_delta = if route == Route::Dropped { 1 } else { 0 };
    if obs.discard_delta != expected_delta {
        cx.fail(
            if route == Route::Dropped { "discard-not-counted" } else { "discard-counted-for-exported-event" },
            format!("{cfg:?} {e:?}: route {route:?}, event_discarded moved by {}", obs.discard_delta),
        )?;
    }
    Ok(())
}

/// Harness-level sanity of a whole run (applies to every case served by it).
pub fn judge_run(run: &ConfigRun, cx: &mut Cx) -> Res {
    if !run.flush_ok {
        cx.fail("flush-failed-with-acknowledging-collector", "blocking_flush(60 s) returned false although every request was acknowledged")?;
    }
    if let Some(e) = run.decode_errors.first() {
        cx.fail("request-body-does-not-decode", e.clone())?;
    }
    if let Some(e) = run.wrong_endpoint.first() {
        cx.fail("record-at-wrong-endpoint", e.clone())?;
    }
    if let Some(e) = run.stray.first() {
        cx.fail("unattributed-record", e.clone())?;
    }
    Ok(())
}

// ---------------------------------------------------------------------------------------------
// concurrent discards: "it is dropped and the discard counter increases by one" holds per event, so after
// any number of threads have emitted and JOINED the counter equals the number of dropped events exactly

/// what one droppable event looks like (all of them are dropped when logs is not configured and their
/// kind's signal cannot take them)
#[derive(Serialize, Deserialize, Debug, Clone, Copy, PartialEq)]
pub enum DropShape {
    /// no kind: only the fallback could take it
    NoKind,
    /// span kind with a point extent: fails the traces qualification
    SpanWithoutRange,
    /// metric kind with a text value: fails the metrics qualification
    MetricWithoutNumber,
    /// unknown kind text
    UnknownKind,
}

impl DropShape {
    pub fn spec(self) -> EventSpec {
        let (kind, extent, value) = match self {
            DropShape::NoKind => (KindSpec::Absent, ExtentSpec::Point { secs: 1 }, ValueSpec::Missing),
            DropShape::SpanWithoutRange => (KindSpec::Typed { span: true }, ExtentSpec::Point { secs: 1 }, ValueSpec::Missing),
            DropShape::MetricWithoutNumber => (KindSpec::Typed { span: false }, ExtentSpec::Point { secs: 1 }, ValueSpec::Text("n/a".into())),
            DropShape::UnknownKind => (KindSpec::Text("custom".into()), ExtentSpec::None, ValueSpec::I64(1)),
        };
        EventSpec {
            kind,
            extent,
            value,
            agg: AggSpec::Absent,
            capture: Capture::Sval,
            extras: vec![],
            kind_last: false,
            kind_repr: KindRepr::Live,
            buffering: Buffering::None,
        }
    }
}

#[derive(Serialize, Deserialize, Debug, Clone, PartialEq)]
pub struct ThreadPlan {
    pub shape: DropShape,
    /// how many events of `shape` this thread emits in a tight loop
    pub drops: u32,
    /// exportable events (a qualified span when `true`, a qualified metric sample when `false`) emitted
    /// before, in the middle of and after the loop
    pub exports: Vec<bool>,
}

#[derive(Serialize, Deserialize, Debug, Clone, PartialEq)]
pub struct ConcurrentCase {
    /// bit 1 traces, bit 2 metrics; logs is never configured here
    pub subset: u8,
    pub wire: Wire,
    pub threads: Vec<ThreadPlan>,
}

fn export_spec(span: bool) -> EventSpec {
    EventSpec {
        kind: KindSpec::Typed { span },
        extent: ExtentSpec::Range { secs: 5, len_ms: 250 },
        value: if span { ValueSpec::Missing } else { ValueSpec::I64(7) },
        agg: AggSpec::Absent,
        capture: Capture::Sval,
        extras: vec![],
        kind_last: false,
        kind_repr: KindRepr::Live,
        buffering: Buffering::None,
    }
}

pub fn check_concurrent(case: &ConcurrentCase, cx: &mut Cx) -> Result<Result<(), String>, vcore::Fail> {
    let cfg = Config::uniform(case.subset & 0b110, case.wire);
    let c = match Collector::try_start() {
        Ok(c) => c,
        Err(e) => return Ok(Err(e)),
    };
    if matches!(case.wire, Wire::GrpcProto | Wire::GrpcProtoGzip) {
        if let Err(e) = c.ensure_grpc() {
            return Ok(Err(e));
        }
    }
    let otlp = build_otlp(&c, &cfg);

    // the reference, per event, BEFORE anything runs: what must be dropped, what must arrive where
    let mut expected_drops = 0usize;
    let mut expected_exports: BTreeMap<u64, Route> = BTreeMap::new();
    let mut dropping_threads = 0;
    for (ti, t) in case.threads.iter().enumerate() {
        let m = model(&cfg, &t.shape.spec());
        if m.allowed != [Route::Dropped] {
            return Ok(Err(format!("harness: drop shape {:?} is not decisively dropped under {cfg:?}", t.shape)));
        }
        expected_drops += t.drops as usize;
        if t.drops > 0 {
            dropping_threads += 1;
        }
        for (i, span) in t.exports.iter().enumerate() {
            let m = model(&cfg, &export_spec(*span));
            if m.allowed.len() != 1 {
                return Ok(Err("harness: export event is not decided".into()));
            }
            match m.allowed[0] {
                Route::Dropped => expected_drops += 1,
                r => {
                    expected_exports.insert((ti as u64 + 1) * 1_000 + i as u64, r);
                }
            }
        }
    }
    cx.class(&cfg.subset_label());
    cx.class(&format!("concurrent-discards:threads-{}", case.threads.len()));
    cx.class_if(dropping_threads >= 2, "concurrent-discards:>=2-threads-dropping");
    cx.class_if(expected_drops >= 100_000, "concurrent-discards:>=100k-drops");
    cx.class_if(!expected_exports.is_empty(), "concurrent-discards:with-exported-events");
    cx.nontrivial(dropping_threads >= 2);

    let before = otlp.metric_source().event_discarded();
    let barrier = std::sync::Barrier::new(case.threads.len());
    std::thread::scope(|scope| {
        for (ti, t) in case.threads.iter().enumerate() {
            let (otlp, barrier) = (&otlp, &barrier);
            scope.spawn(move || {
                let spec = t.shape.spec();
                let exports = t.exports.len();
                let mut next_export = 0;
                let mut export = |n: &mut usize| {
                    if *n < exports {
                        emit_one(otlp, (ti as u64 + 1) * 1_000 + *n as u64, &export_spec(t.exports[*n]));
                        *n += 1;
                    }
                };
                barrier.wait();
                export(&mut next_export);
                // a tight loop over ONE prebuilt event: the drops of different threads really overlap
                let kind = match &spec.kind {
                    KindSpec::Typed { span: true } => Some(emit::Value::capture_display(&emit::Kind::Span)),
                    KindSpec::Typed { span: false } => Some(emit::Value::capture_display(&emit::Kind::Metric)),
                    KindSpec::Text(s) => Some(emit::Value::from(s.as_str())),
                    _ => None,
                };
                let mut props: Vec<(&str, emit::Value)> = vec![("case_id", emit::Value::from(0u64))];
                if let Some(k) = &kind {
                    props.push((emit::well_known::KEY_EVT_KIND, k.by_ref()));
                }
                match &spec.value {
                    ValueSpec::Text(s) => props.push((emit::well_known::KEY_METRIC_VALUE, emit::Value::from(s.as_str()))),
                    ValueSpec::I64(i) => props.push((emit::well_known::KEY_METRIC_VALUE, emit::Value::from(*i))),
                    _ => {}
                }
                let extent = match spec.extent {
                    ExtentSpec::Point { secs } => Some(emit::Extent::point(ts(secs, 0))),
                    _ => None,
                };
                let evt = emit::Event::new(emit::Path::new_raw("c14::drop"), emit::Template::literal("dropped"), extent, &props[..]);
                for i in 0..t.drops {
                    otlp.emit(&evt);
                    if i == t.drops / 2 {
                        export(&mut next_export);
                    }
                }
                while next_export < exports {
                    export(&mut next_export);
                }
            });
        }
    });
    // every thread has joined: the counter is final
    let counted = otlp.metric_source().event_discarded() - before;
    let flush_ok = otlp.blocking_flush(Duration::from_secs(60));
    let log = c.requests();
    c.shutdown();
    drop(otlp);

    if counted != expected_drops {
        cx.fail(
            if counted < expected_drops { "discards-lost-under-concurrency" } else { "discards-overcounted-under-concurrency" },
            format!(
                "{} threads ({} of them dropping) emitted {expected_drops} events that no configured signal can take ({}), all threads have joined, yet event_discarded moved by {counted}; per thread: {:?}",
                case.threads.len(),
                dropping_threads,
                cfg.subset_label(),
                case.threads.iter().map(|t| (t.shape, t.drops, t.exports.len())).collect::<Vec<_>>()
            ),
        )?;
    }
    if !flush_ok {
        cx.fail("flush-failed-with-acknowledging-collector", "blocking_flush(60 s) returned false although every request is acknowledged")?;
    }
    let mut found: BTreeMap<u64, Vec<Signal>> = BTreeMap::new();
    for r in &log {
        if let Some(e) = &r.decode_error {
            cx.fail("request-body-does-not-decode", format!("request {} to {}: {e}", r.seq, r.path))?;
        }
        for rec in &r.records {
            let id = rec.case_id.as_ref().and_then(|s| s.parse::<u64>().ok()).or_else(|| rec.name.strip_prefix('c').and_then(|s| s.parse().ok()));
            match id {
                Some(id) if expected_exports.contains_key(&id) => found.entry(id).or_default().push(rec.signal),
                _ => cx.fail("unattributed-record", format!("{:?} record {:?} (case_id {:?}) belongs to no exported event of this case", rec.signal, rec.name, rec.case_id))?,
            }
        }
    }
    for (id, route) in &expected_exports {
        let at = found.get(id).cloned().unwrap_or_default();
        let ok = at.len() == 1 && route_of(at[0]) == *route;
        if !ok {
            cx.fail(
                if at.is_empty() { "event-lost-although-a-signal-can-take-it" } else if at.len() > 1 { "exported-twice" } else { "exported-through-signal-that-contradicts-its-kind" },
                format!("event {id} emitted concurrently with the drops: expected once at {route:?}, found at {at:?}"),
            )?;
        }
    }
    Ok(Ok(()))
}

// ---------------------------------------------------------------------------------------------
// a saturated signal: an event its signal CLAIMED is not exported through another signal just because that
// signal's queue is full (what happens to the queue itself is C09's business)

#[derive(Serialize, Deserialize, Debug, Clone, PartialEq)]
pub struct SaturatedCase {
    pub wire: Wire,
    /// the saturated signal: traces (qualified spans) when true, metrics (qualified samples) when false
    pub spans: bool,
    /// events emitted beyond the 10 000 the queue holds
    pub beyond: u8,
    /// genuine log events emitted afterwards
    pub logs: u8,
    /// configure the third signal too
    pub third: bool,
}

const OTLP_QUEUE_CAPACITY: u64 = 10_000;

pub fn check_saturated(case: &SaturatedCase, cx: &mut Cx) -> Result<Result<(), String>, vcore::Fail> {
    let victim = if case.spans { Signal::Traces } else { Signal::Metrics };
    let w = Some(case.wire);
    let cfg = Config {
        logs: w,
        traces: if case.spans || case.third { w } else { None },
        metrics: if !case.spans || case.third { w } else { None },
    };
    cx.class(if case.spans { "saturated:traces-queue-full-with-logs-configured" } else { "saturated:metrics-queue-full-with-logs-configured" });
    cx.class(&format!("wire:{:?}", case.wire));
    cx.nontrivial(true);
    let c = match Collector::try_start() {
        Ok(c) => c,
        Err(e) => return Ok(Err(e)),
    };
    if matches!(case.wire, Wire::GrpcProto | Wire::GrpcProtoGzip) {
        if let Err(e) = c.ensure_grpc() {
            return Ok(Err(e));
        }
    }
    c.keep_payloads(false);
    // the victim's endpoint holds every request for good; logs is healthy
    c.set_default(victim, collector::Decision::Hold(99));
    let otlp = build_otlp(&c, &cfg);
    let spec = export_spec(case.spans);
    if model(&cfg, &spec).allowed != [route_of(victim)] {
        return Ok(Err("harness: the saturating event is not decisively routed to the victim signal".into()));
    }
    // one event first: the worker takes it as a batch of its own and is then stuck on the held request,
    // so everything after it stays in the queue
    const VICTIM_BASE: u64 = 100_000;
    emit_one(&otlp, VICTIM_BASE, &spec);
    if !c.wait_until(|log| log.iter().any(|r| r.signal == Some(victim) && r.phase == collector::Phase::Held), Duration::from_secs(30)) {
        c.shutdown();
        return Ok(Err("harness: the request to be held did not arrive within 30 s".into()));
    }
    let n = OTLP_QUEUE_CAPACITY + case.beyond.max(1) as u64;
    for i in 1..=n {
        emit_one(&otlp, VICTIM_BASE + i, &spec);
    }
    // genuine log events (no kind), emitted last: once they are acknowledged everything that entered the
    // logs channel before them has been sent too
    let log_spec = DropShape::NoKind.spec();
    let genuine: Vec<u64> = (1..=case.logs.max(1) as u64).collect();
    for id in &genuine {
        emit_one(&otlp, *id, &log_spec);
    }
    let all_logs_acked = |log: &[collector::RequestLog]| {
        let mut seen = std::collections::BTreeSet::new();
        for r in log.iter().filter(|r| r.signal == Some(Signal::Logs) && r.acked()) {
            for rec in &r.records {
                if let Some(id) = rec.case_id.as_ref().and_then(|s| s.parse::<u64>().ok()) {
                    seen.insert(id);
                }
            }
        }
        genuine.iter().all(|id| seen.contains(id))
    };
    let delivered = c.wait_until(all_logs_acked, Duration::from_secs(60));
    let log = c.requests();
    c.shutdown();
    drop(otlp);
    if !delivered {
        return Ok(Err("harness: the genuine log events were not acknowledged within 60 s although the logs endpoint is healthy".into()));
    }
    let mut counts: BTreeMap<u64, u32> = BTreeMap::new();
    for r in log.iter().filter(|r| r.signal == Some(Signal::Logs)) {
        if let Some(e) = &r.decode_error {
            cx.fail("request-body-does-not-decode", format!("request {} to {}: {e}", r.seq, r.path))?;
        }
        for rec in &r.records {
            let id = rec.case_id.as_ref().and_then(|s| s.parse::<u64>().ok()).or_else(|| rec.name.strip_prefix('c').and_then(|s| s.parse().ok()));
            match id {
                Some(id) if id >= VICTIM_BASE => {
                    cx.fail(
                        "C14/saturated-signal-event-exported-through-logs",
                        format!(
                            "with the {victim:?} queue full ({} events emitted against an endpoint that answers nothing) event {} — a qualified {}, which the {victim:?} signal takes — arrived at the LOGS endpoint as a {:?} record",
                            n + 1,
                            id - VICTIM_BASE,
                            if case.spans { "span" } else { "metric sample" },
                            rec.signal
                        ),
                    )?;
                }
                Some(id) => *counts.entry(id).or_default() += 1,
                None => cx.fail("unattributed-record", format!("log record {:?} without case_id", rec.name))?,
            }
        }
    }
    for id in &genuine {
        let n = counts.get(id).copied().unwrap_or(0);
        if n != 1 {
            cx.fail(if n == 0 { "event-lost-although-a-signal-can-take-it" } else { "exported-twice" }, format!("genuine log event {id} arrived {n} times at the logs endpoint"))?;
        }
    }
    if let Some((id, _)) = counts.iter().find(|(id, _)| !genuine.contains(id)) {
        cx.fail("unattributed-record", format!("log record for unknown case {id}"))?;
    }
    Ok(Ok(()))
}
