// stub: check for C08 not built yet
fn main() {
    eprintln!("C08: check not built yet");
    std::process::exit(2);
}
