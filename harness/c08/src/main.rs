use chan::e2::{self, Prop};
use chan::e7;
use vcore::Level;

const RULE: &str = "same history generator weighted towards failures: outcome sequences over {ok, permanent error, retry(remainder), panic in closure, panic in future}, retry chains up to 14, sender drop at any point, panicking and re-entering callbacks; every history ends with a drain phase under one of five outcome policies (all ok / all error / retry forever / panic in future / panic in closure); small-scope exhaustive mode; E7 workloads with failing/panicking processors and a stalled worker; blocking_flush/blocking_send from a plain thread, a tokio multi-thread worker and a current-thread runtime against live, stalled, never-started and dropped receivers. Oracle: the receiver reaches quiescence within 64*(items+ops+4) rounds, a bounded number of attempts per batch (<=64, the same budget for every batch that is given up), a wait between attempts, retry waits non-decreasing, positive and <=10 min, idle waits <=1 min, every callback fires exactly once, after sender drop everything queued is delivered and exec terminates, blocking calls return without panic/deadlock. Non-trivial = a panic, a retry chain >=3 or sender drop with queued items (blocking cases: any context other than plain-thread/live).";

fn main() {
    vcore::run(
        "C08",
        Level::FaultEnumeration,
        RULE,
        &[
            "E2 drives Receiver::exec, tokio::send/flush futures and all sender calls from one thread; because all state shared by the halves is behind one mutex and the receiver runs at most one critical section between two suspension points, every lock-granularity interleaving of the two-thread system corresponds to a placement of sender operations between receiver steps",
            "the hand-off instant is observed through when_empty callbacks (documented to fire at a point where the current batch is empty) and through the processor invocation",
            "'bounded' is judged against generous absolute bounds (<= 64 attempts per batch, retry waits <= 10 min, idle waits <= 1 min), not against the current constants of emit_batcher::bounded; the retry budget is learned from the run and must be identical for every batch that is given up and at least one retry",
            "E7 samples OS schedules (it does not own them); its oracles are ticket-ordered history invariants that hold for every interleaving; the 30 s watchdogs are the only use of wall-clock time",
            "condvar/oneshot wake-up paths (sync.rs, tokio.rs) are only exercised by E7, i.e. sampled",
        ],
        |s| {
            // the channel promises never to block its callers: a case that does not return is a violation
            s.hang_is_violation(120);
            s.require("self-reported-metrics", 2000);
            s.require("send-inside-receiver-allocation", 1000);
        s.require("panic", 2000);
        s.require("retry-chain>=3", 2000);
        s.require("retries-exhausted", 500);
        s.require("sender-drop-with-queued", 1000);
        s.require("ctx:tokio-multi-thread", 30);
        s.require("ctx:tokio-current-thread", 30);
        s.require("ctx:tokio-multi-thread-root", 20);
        s.require("ctx:same-thread-was-inside-a-different-runtime-before", 30);
        s.require("ctx:multi-thread-root-then-current-thread-on-one-thread", 3);
        s.require("recv:stalled", 20);
            // artifacts of the libFuzzer target `chan_c08` (engine E6 over E2) are replayed through the same entry
            s.manual("fuzz-artifact", Vec::<Vec<u8>>::new(), |bytes, cx| {
                cx.nontrivial(true);
                match chan::fuzz::entry(bytes, Prop::C08) {
                    Ok(()) => Ok(()),
                    Err(f) => cx.fail(f.sig, format!("{}; decoded case: {:?}", f.msg, chan::fuzz::decode(bytes))),
                }
            });
            s.gen("e2-random", s.n(400_000, 12_000_000), || e2::case(e2::W_C08), |c, cx| e2::check(c, Prop::C08, cx));
            let max_len = if s.quick() { 6 } else { 7 };
            s.enumerate("e2-small-scope", e2::small_cases(max_len, &[1, 2]), |c, cx| e2::check(&c.to_case(), Prop::C08, cx));
            // the async send / flush with finite non-zero timeouts on real runtimes (E2 only sees 0 and "never"): this
            // property's oracle over the same workloads C09 uses
            s.gen("e7-async-send-timeouts", s.n(1_200, 30_000), e7::async_case, |c, cx| e7::check_async(c, Prop::C08, cx));
            s.gen("e7-os-threads", s.n(3_000, 150_000), || e7::workload(3), |c, cx| e7::check(c, Prop::C08, cx));
        s.require("timeout:far-end-of-duration", 40);
        // "a blocking send returns within its timeout" also when it is woken before the deadline and finds the queue
        // full again (the same generator C09 uses for "hands it back when the timeout expires")
        s.gen("e7-blocking-send-deadline", s.n(2, 40), e7::deadline_batch, |c, cx| e7::check_deadline(c, cx));
        s.gen("e7-blocking-contexts", s.n(720, 12_000), e7::blocking_case, |c, cx| e7::check_blocking(c, cx));
            // OTLP end-to-end clause of this property (real emit_otlp emitter against the scripted collector; harness/c12/src/e2e.rs)
            c12::e2e::register_c08(s);
        },
    )
}
