//! C12 family `exhaust`: a batch whose retry budget has been used up must not cost the NEXT batch its own.
//!
//! Batch A is failed by the collector on every attempt until emit gives it up (learned from
//! `blocking_flush` returning: the documented give-up releases the flush watchers — the number of attempts
//! is read off the collector log, not assumed). Then batch B: its first request fails once with a
//! retryable fault and must be sent again and acknowledged; a flush after B must not succeed before that.
//! A's events are don't-care once given up; B is judged by the same clauses (and signatures) as every
//! other C12 scenario.

use crate::*;

#[derive(Serialize, Deserialize, Debug, Clone, PartialEq)]
pub struct Exhaust {
    pub wire: Wire,
    pub gzip: bool,
    pub signal: Signal,
    /// configure the other two signals too (idle)
    pub all_signals: bool,
    /// how the collector fails EVERY attempt of batch A (a cheap, retryable kind)
    pub fault_a: Fault,
    pub a_events: u8,
    /// payload sizes (KiB) of batch B
    pub b_sizes_kib: Vec<u16>,
    /// how the first request after the give-up fails, once
    pub fault_b: Fault,
}

pub struct ExhaustObserved {
    pub harness_problem: Option<String>,
    pub base: u64,
    pub a_attempts: usize,
    pub a_acked: bool,
    /// index in the log of the first request that can belong to B
    pub mark: usize,
    pub b_ids: Vec<u64>,
    pub flush: bool,
    pub log_at_flush: Vec<RequestLog>,
    pub log_final: Vec<RequestLog>,
}

pub fn run(sc: &Exhaust) -> ExhaustObserved {
    timing::ensure();
    let _permit = Permit::acquire();
    let mut obs = ExhaustObserved {
        harness_problem: None,
        base: next_base(),
        a_attempts: 0,
        a_acked: false,
        mark: 0,
        b_ids: Vec::new(),
        flush: false,
        log_at_flush: Vec::new(),
        log_final: Vec::new(),
    };
    let c = match start_collector(sc.wire) {
        Ok(c) => c,
        Err(e) => {
            obs.harness_problem = Some(e);
            return obs;
        }
    };
    let sig = sc.signal;
    c.set_default(sig, sc.fault_a.decision());
    let mut signals = [sc.all_signals; 3];
    signals[sig.index()] = true;
    let otlp = build(&c, &config_only(sc.wire, sc.gzip, signals));

    // ---- batch A: every attempt fails until emit gives the batch up
    for i in 0..sc.a_events.max(1) as usize {
        emit_to(&otlp, sig, obs.base + 1_000 + i as u64, 1);
    }
    // unscaled budget ~78 s of back-off; the flush watchers of A fire when it is given up
    let budget = Duration::from_millis(20_000 + 3 * timing::backoff_total_ms(12));
    if !otlp.blocking_flush(budget) {
        obs.harness_problem = Some(format!("batch A was not given up within {budget:?}"));
        c.shutdown();
        drop(otlp);
        return obs;
    }
    let log = c.requests();
    obs.a_attempts = log.iter().filter(|r| r.signal == Some(sig)).count();
    obs.a_acked = log.iter().any(|r| r.signal == Some(sig) && r.outcome == Outcome::Acked);
    obs.mark = log.len();

    // ---- batch B: healthy endpoint again, the first request fails once
    c.set_default(sig, Decision::Ack);
    c.script(sig, vec![sc.fault_b.decision()]);
    for (i, kib) in sc.b_sizes_kib.iter().enumerate() {
        let id = obs.base + 10_000 + i as u64;
        emit_to(&otlp, sig, id, *kib as usize);
        obs.b_ids.push(id);
    }
    let stall = matches!(sc.fault_b, Fault::Stall | Fault::StallAfterHeaders | Fault::StallMidBody | Fault::WedgeReading | Fault::WedgeSilent) as u32;
    let settle = timing::settle(2, stall);
    obs.flush = otlp.blocking_flush(settle);
    obs.log_at_flush = c.requests();
    if !obs.flush {
        let want: BTreeSet<u64> = obs.b_ids.iter().copied().collect();
        c.wait_until(
            |log| {
                let mut acked = BTreeSet::new();
                for r in log {
                    if r.outcome == Outcome::Acked {
                        acked.extend(ids_of(r));
                    }
                }
                want.is_subset(&acked)
            },
            settle,
        );
    }
    obs.log_final = c.requests();
    c.release_stalls();
    c.shutdown();
    drop(otlp);
    obs
}

pub fn judge(sc: &Exhaust, obs: &ExhaustObserved, cx: &mut Cx) -> Result<Result<(), String>, vcore::Fail> {
    cx.class("family:exhaust");
    cx.class(match sc.wire {
        Wire::HttpJson => "transport:http-json",
        Wire::HttpProto => "transport:http-protobuf",
        Wire::Grpc => "transport:grpc",
    });
    cx.class(if sc.gzip { "gzip:on" } else { "gzip:off" });
    if let Some(p) = &obs.harness_problem {
        return Ok(Err(p.clone()));
    }
    if obs.a_acked {
        return Ok(Err("a request of batch A was acknowledged although every attempt was scripted to fail".into()));
    }
    let sig = sc.signal;
    let transport = if sc.wire == Wire::Grpc { Transport::Grpc } else { Transport::Http1 };
    cx.class("retry-budget-exhausted");
    cx.class(&format!("exhaust:attempts-{}", obs.a_attempts));
    cx.class(&format!("exhaust:a-fails-by-{}", decision_label(&sc.fault_a.decision(), transport)));
    cx.class(&format!("exhaust:b-fails-once-by-{}", decision_label(&sc.fault_b.decision(), transport)));
    cx.nontrivial(true);
    // A's events after the documented give-up: don't-care
    cx.dont_care();

    let log = &obs.log_final;
    let b = &log[obs.mark.min(log.len())..];
    for r in b {
        if let Some(e) = &r.decode_error {
            if r.phase != Phase::Head && r.signal.is_some() {
                cx.fail("request-body-does-not-decode", format!("request {} : {e}", r.seq))?;
            }
        }
    }
    let acked_in = |l: &[RequestLog]| {
        let mut m = BTreeSet::new();
        for r in l {
            if r.outcome == Outcome::Acked {
                m.extend(ids_of(r));
            }
        }
        m
    };
    let acked = acked_in(log);
    let acked_then = acked_in(&obs.log_at_flush);
    let mut reported = BTreeSet::new();
    for id in &obs.b_ids {
        if acked.contains(id) {
            continue;
        }
        let carriers: Vec<&RequestLog> = b.iter().filter(|r| ids_of(r).contains(id)).collect();
        let what = match carriers.last() {
            Some(last) => format!("failed-request-not-resent/{}", decision_label(&last.decision, last.transport)),
            None => "event-never-sent".to_string(),
        };
        cx.fail(
            what.clone(),
            format!(
                "after an earlier batch of {sig:?} had used up its retry budget ({} attempts, all failed), event {} of the NEXT batch was accepted by emit but is in no acknowledged request ({}; {what}); requests since the give-up: {}",
                obs.a_attempts,
                rel(*id),
                if obs.flush { "blocking_flush returned true" } else { "blocking_flush timed out and the bounded wait after it expired" },
                describe(b, sig)
            ),
        )?;
        reported.insert(*id);
    }
    if obs.flush {
        for id in &obs.b_ids {
            if !acked_then.contains(id) && acked.contains(id) {
                cx.fail(
                    "flush-reported-success-before-acknowledgement",
                    format!("blocking_flush returned true but event {} was in no acknowledged request at that moment; requests since the give-up: {}", rel(*id), describe(&obs.log_at_flush[obs.mark.min(obs.log_at_flush.len())..], sig)),
                )?;
            }
        }
    }
    for (i, r) in b.iter().enumerate() {
        if !r.failed() {
            continue;
        }
        cx.class("failed-request");
        cx.class(&format!("fault:{}", decision_label(&r.decision, r.transport)));
        let ids = ids_of(r);
        let resent = b.iter().enumerate().any(|(j, q)| j != i && ids_of(q) == ids);
        if !ids.is_empty() && ids.is_disjoint(&reported) && !resent {
            cx.fail(
                "failed-request-resent-with-different-events",
                format!("request {} failed carrying {:?}; requests since the give-up: {}", r.seq, ids.iter().map(|i| rel(*i)).collect::<Vec<_>>(), describe(b, sig)),
            )?;
        }
    }
    Ok(Ok(()))
}

pub fn check(sc: &Exhaust, cx: &mut Cx) -> Result<Result<(), String>, vcore::Fail> {
    let obs = run(sc);
    if std::env::var_os("VERIF_DEBUG").is_some() {
        eprintln!("exhaust: attempts={} mark={} flush={} problem={:?}", obs.a_attempts, obs.mark, obs.flush, obs.harness_problem);
        for r in &obs.log_final {
            eprintln!("  #{} conn{} {:?} {:?}->{:?} ids={:?}", r.seq, r.conn, r.signal, r.decision, r.outcome, ids_of(r));
        }
    }
    judge(sc, &obs, cx)
}
