//! C12 — OTLP export delivers every accepted event however batches are split.
//!
//! A *scenario* is data (`Scenario`): transport, gzip, per-signal event streams (payload sizes),
//! per-signal fault scripts for the collector, optional endpoint outage, and what the application does
//! at the end (flush, or drop the emitter). `run` interprets it against a real `emit_otlp::Otlp` and the
//! scripted collector (engine E4) and returns everything observed; `judge` is the oracle, derived from
//! the property text.
//!
//! Shape of every scenario (so that batch boundaries are owned by the harness, not by timing):
//!   1. one small *plug* event per signal; the collector holds its request open (`Hold` latch),
//!   2. while the plug is unanswered the signal's receiver is busy, so every further event accumulates
//!      in the channel and becomes ONE batch, split by emit into as many requests as its size demands,
//!   3. the collector is scripted for the requests of that batch, the plugs are released,
//!   4. flush (or drop), then the collector log is judged.

use collector::{Abort, Collector, Decision, Outcome, Phase, RequestLog, Signal, Transport};
use emit::Emitter as _;
use serde::{Deserialize, Serialize};
use std::collections::{BTreeMap, BTreeSet};
use std::sync::Mutex;
use std::time::Duration;
use vcore::{Cx, Res};

/// Real-time constants of the code under test, in ONE place. They only size harness deadlines
/// (which never decide pass/fail on their own) and the cost of a case. Hooks H1/H3 in /repo
/// (`emit_batcher::verif::set_delay_divisor`, under `--cfg emit_rs_emit_verif`) divide every receiver
/// delay (retry back-off AND idle poll) and the OTLP request timeout by one process-wide divisor.
pub mod timing {
    use std::time::Duration;

    /// first retry back-off of `emit_batcher::bounded` (700 ms, then x2+700 up to 10 s)
    pub const RETRY_STEP_MS: u64 = 700;
    pub const RETRY_MAX_MS: u64 = 10_000;
    /// `DEFAULT_REQUEST_TIMEOUT` in emitter/otlp/src/client.rs
    pub const REQUEST_TIMEOUT_MS: u64 = 30_000;
    /// idle poll of the receiver grows up to this
    pub const IDLE_MAX_MS: u64 = 500;

    /// Moderate on purpose: with 20 the first back-off is 35 ms, the longest 500 ms, the whole retry
    /// budget ~3.9 s, the request timeout 1.5 s and the idle poll <= 25 ms — collector-side latencies
    /// (a few ms even for 1.4 MiB bodies) stay small against all of them.
    pub const DIVISOR: u32 = 20;

    pub fn divisor() -> u64 {
        emit_batcher::verif::delay_divisor().max(1) as u64
    }

    /// Called once from `main`, before any emitter exists (the divisor is process-wide).
    pub fn init() {
        emit_batcher::verif::set_delay_divisor(DIVISOR);
    }

    /// Called at the start of EVERY OTLP case: other engines living in the same binary (E2 pins the
    /// divisor to 1 per case, E7 to 4000, the file e2e to 1/2000) run before and after these generators.
    pub fn ensure() {
        if emit_batcher::verif::delay_divisor() != DIVISOR {
            emit_batcher::verif::set_delay_divisor(DIVISOR);
        }
    }

    /// total back-off before the `n`-th retry has been sent
    pub fn backoff_total_ms(n: u32) -> u64 {
        let mut cur = 0u64;
        let mut total = 0u64;
        for _ in 0..n {
            cur = (cur * 2 + RETRY_STEP_MS).min(RETRY_MAX_MS);
            total += cur;
        }
        total / divisor()
    }

    pub fn request_timeout_ms() -> u64 {
        REQUEST_TIMEOUT_MS / divisor()
    }

    /// A generous bound for "everything that can be delivered has been delivered" given the number of
    /// failures and stalls scripted for one batch: 6 s (about 100x what a healthy loopback delivery of
    /// the largest batch takes, and 12x the longest scaled back-off) on top of three times the time the
    /// scripted faults legitimately cost. Only ever used as a deadline.
    pub fn settle(failures: u32, stalls: u32) -> Duration {
        Duration::from_millis(6_000 + 3 * backoff_total_ms(failures) + 3 * stalls as u64 * (request_timeout_ms() + 200))
    }
}

// ---------------------------------------------------------------------------------------------
// scenario as data

#[derive(Serialize, Deserialize, Debug, Clone, Copy, PartialEq, Eq, Hash)]
pub enum Wire {
    HttpJson,
    HttpProto,
    Grpc,
}

#[derive(Serialize, Deserialize, Debug, Clone, Copy, PartialEq, Eq, Hash)]
pub enum Fault {
    /// HTTP status (on gRPC: a bare HTTP error status without grpc-status)
    Status(u16),
    /// gRPC: headers, then trailers with this non-zero grpc-status
    GrpcStatus(u8),
    /// gRPC: Trailers-Only response carrying this non-zero grpc-status
    GrpcTrailersOnly(u8),
    CloseBeforeRead,
    ReadThenClose,
    /// hold the request without answering past emit's request timeout
    Stall,
    /// acknowledge, then close the connection: the NEXT request fails on the stale connection
    AckThenClose,
    /// send the response head, then go silent on that response past emit's request timeout (gRPC:
    /// HEADERS without END_STREAM, the connection keeps working; HTTP/1: status 200 + an announced body
    /// that never comes — a control, the status is all emit reads there)
    StallAfterHeaders,
    /// the same after a fragment of the response body
    StallMidBody,
    /// from this request on the collector never answers anything on this CONNECTION (no reset, no FIN,
    /// socket open) while new connections work; it keeps reading what arrives
    WedgeReading,
    /// the same, and it stops reading the connection too
    WedgeSilent,
    /// the response HEAD is sent (gRPC: HEADERS 200), then the response is cut off instead of completed:
    /// RST_STREAM, GOAWAY or the connection dropped — no grpc-status ever arrives (HTTP/1: a 200 whose announced
    /// body never comes because the connection closes: a control, the status line is the acknowledgement)
    AbortAfterHeaders(Abort),
    /// the same after a fragment of the response body
    AbortMidBody(Abort),
}

impl Fault {
    pub fn label(&self) -> &'static str {
        match self {
            Fault::Status(s) if *s < 400 => "status-3xx",
            Fault::Status(s) if *s < 500 => "status-4xx",
            Fault::Status(_) => "status-5xx",
            Fault::GrpcStatus(_) => "grpc-status",
            Fault::GrpcTrailersOnly(_) => "grpc-trailers-only-status",
            Fault::CloseBeforeRead => "close-before-read",
            Fault::ReadThenClose => "read-then-close",
            Fault::Stall => "stall",
            Fault::AckThenClose => "ack-then-close",
            Fault::StallAfterHeaders => "stall-after-headers",
            Fault::StallMidBody => "stall-mid-body",
            Fault::WedgeReading | Fault::WedgeSilent => "wedged-connection",
            Fault::AbortAfterHeaders(_) => "abort-after-headers",
            Fault::AbortMidBody(_) => "abort-mid-body",
        }
    }

    fn decision(&self) -> Decision {
        match self {
            Fault::Status(s) => Decision::Status(*s),
            Fault::GrpcStatus(c) => Decision::GrpcStatus(*c as i32),
            Fault::GrpcTrailersOnly(c) => Decision::GrpcStatusTrailersOnly(*c as i32),
            Fault::CloseBeforeRead => Decision::CloseBeforeRead,
            Fault::ReadThenClose => Decision::ReadThenClose,
            Fault::Stall => Decision::Stall,
            Fault::AckThenClose => Decision::AckThenClose,
            Fault::StallAfterHeaders => Decision::StallAfterHeaders,
            Fault::StallMidBody => Decision::StallMidBody,
            Fault::WedgeReading => Decision::WedgeConnection { keep_reading: true },
            Fault::WedgeSilent => Decision::WedgeConnection { keep_reading: false },
            Fault::AbortAfterHeaders(how) => Decision::AbortAfterHeaders { how: *how },
            Fault::AbortMidBody(how) => Decision::AbortMidBody { how: *how },
        }
    }
}

/// the `pos`-th request (0-based) of the signal's batch after the plug gets `fault`
#[derive(Serialize, Deserialize, Debug, Clone, Copy, PartialEq)]
pub struct FaultAt {
    pub pos: u8,
    pub fault: Fault,
}

#[derive(Serialize, Deserialize, Debug, Clone, PartialEq)]
pub struct Stream {
    /// payload size of each event of the batch in KiB (the `pad` string property)
    pub sizes_kib: Vec<u16>,
    pub faults: Vec<FaultAt>,
}

#[derive(Serialize, Deserialize, Debug, Clone, Copy, PartialEq, Eq)]
pub enum Outage {
    /// nothing listens on the endpoint's port (connection refused)
    Refused,
    /// the endpoint accepts and drops every connection
    Reset,
    /// the endpoint answers 503 to everything
    Unavailable,
}

#[derive(Serialize, Deserialize, Debug, Clone, Copy, PartialEq, Eq)]
pub enum Ending {
    /// `blocking_flush` with a timeout that covers the scripted failures
    Flush,
    /// drop the `Otlp` value while the batches are still queued behind the unanswered plugs
    DropWhileQueued,
    /// drop the `Otlp` value while a failed request is waiting for its back-off
    DropDuringBackoff,
}

#[derive(Serialize, Deserialize, Debug, Clone, PartialEq)]
pub struct Scenario {
    pub wire: Wire,
    pub gzip: bool,
    /// index = Signal::index(); None = signal not configured
    pub streams: [Option<Stream>; 3],
    /// this signal's endpoint is down for the whole case (its stream is emitted but nothing is
    /// expected of it)
    pub outage: Option<(Signal, Outage)>,
    /// try a short flush while the plugs are still unanswered: it must not report success
    pub early_flush: bool,
    pub ending: Ending,
    /// HTTP wires only: bit i flips signal i's encoding (JSON <-> protobuf) relative to `wire`, so one emitter carries
    /// signals in DIFFERENT encodings ("regardless of ... encoding" per signal, with the shared resource)
    #[serde(default)]
    pub flip_encoding: u8,
}

impl Scenario {
    pub fn json(&self, s: Signal) -> bool {
        match self.wire {
            Wire::Grpc => false,
            w => (w == Wire::HttpJson) != (self.flip_encoding >> s.index() & 1 == 1),
        }
    }

    pub fn configured(&self) -> Vec<Signal> {
        Signal::ALL.into_iter().filter(|s| self.streams[s.index()].is_some()).collect()
    }

    pub fn down(&self, s: Signal) -> bool {
        matches!(self.outage, Some((o, _)) if o == s)
    }

    pub fn healthy(&self) -> Vec<Signal> {
        self.configured().into_iter().filter(|s| !self.down(*s)).collect()
    }

    pub fn has_stall(&self) -> bool {
        self.streams.iter().flatten().any(|s| s.faults.iter().any(|f| f.fault == Fault::Stall))
    }

    fn max_failures(&self) -> u32 {
        self.streams
            .iter()
            .flatten()
            .map(|s| {
                s.faults.len() as u32
                    + s.faults.iter().filter(|f| matches!(f.fault, Fault::AckThenClose | Fault::StallAfterHeaders | Fault::StallMidBody | Fault::AbortAfterHeaders(_) | Fault::AbortMidBody(_))).count() as u32
            })
            .max()
            .unwrap_or(0)
    }

    fn max_stalls(&self) -> u32 {
        self.streams
            .iter()
            .flatten()
            .map(|s| s.faults.iter().filter(|f| matches!(f.fault, Fault::Stall | Fault::StallAfterHeaders | Fault::StallMidBody | Fault::WedgeReading | Fault::WedgeSilent)).count() as u32)
            .max()
            .unwrap_or(0)
    }
}

// ---------------------------------------------------------------------------------------------
// driving the real emitter

/// Every run of a scenario gets its own id space (`base`, a multiple of `ID_SPACE`): should a request of
/// another case ever reach this case's collector (an emitter outliving its collector + port reuse; the
/// collector's port quarantine is there to prevent it) it is recognised as foreign instead of being taken
/// for a duplicate.
const ID_SPACE: u64 = 100_000;
static CASE_SEQ: std::sync::atomic::AtomicU64 = std::sync::atomic::AtomicU64::new(1);

fn plug_id(base: u64, s: Signal) -> u64 {
    base + 1_000 + s.index() as u64
}

fn event_id(base: u64, s: Signal, i: usize) -> u64 {
    base + (s.index() as u64 + 1) * 10_000 + i as u64
}

/// id as shown in messages (position inside the case's id space)
fn rel(id: u64) -> u64 {
    id % ID_SPACE
}

fn build(c: &Collector, sc: &Scenario) -> emit_otlp::Otlp {
    let mut b = emit_otlp::new().resource(emit::props! { #[emit::key("service.name")] service_name: "c12" });
    for s in sc.configured() {
        let down = match sc.outage {
            Some((o, kind)) if o == s => Some(kind),
            _ => None,
        };
        let t = match sc.wire {
            Wire::HttpJson | Wire::HttpProto => {
                let url = match down {
                    Some(Outage::Refused) => format!("{}{}", c.refused_base(), s.http_path()),
                    _ => c.http_url(s),
                };
                emit_otlp::http(url)
            }
            Wire::Grpc => {
                let url = match down {
                    Some(Outage::Refused) => c.refused_base(),
                    _ => c.grpc_url(),
                };
                emit_otlp::grpc(url)
            }
        }
        .allow_compression(sc.gzip);
        let json = sc.json(s);
        b = match s {
            Signal::Logs => b.logs(if json { emit_otlp::logs_json(t) } else { emit_otlp::logs_proto(t) }),
            Signal::Traces => b.traces(if json { emit_otlp::traces_json(t) } else { emit_otlp::traces_proto(t) }),
            Signal::Metrics => b.metrics(if json { emit_otlp::metrics_json(t) } else { emit_otlp::metrics_proto(t) }),
        };
    }
    b.spawn()
}

static PAD: std::sync::OnceLock<String> = std::sync::OnceLock::new();
/// High-entropy text (6 bits per byte): gzip cannot shrink it much, so a large event also means a large COMPRESSED
/// chunk (the repetitive `PAD` compresses 300-700 KiB down to a few KiB, which leaves the compressor's own buffering
/// -- 32 KiB in flate2 -- unexercised).
static PAD_DENSE: std::sync::OnceLock<String> = std::sync::OnceLock::new();

fn dense_pad() -> String {
    const ALPHABET: &[u8; 64] = b"ABCDEFGHIJKLMNOPQRSTUVWXYZabcdefghijklmnopqrstuvwxyz0123456789-_";
    let mut x = 0x9E37_79B9_7F4A_7C15u64;
    let mut out = String::with_capacity(32 * 32 * 2048);
    while out.len() < 32 * 32 * 2048 {
        x ^= x << 13;
        x ^= x >> 7;
        x ^= x << 17;
        let mut w = x;
        for _ in 0..10 {
            out.push(ALPHABET[(w & 63) as usize] as char);
            w >>= 6;
        }
    }
    out
}

/// Emit one event that the routing rule (C14) sends to `signal`, carrying `case_id` and a `pad`
/// string of `kib` KiB.
fn emit_to(otlp: &emit_otlp::Otlp, signal: Signal, case_id: u64, kib: usize) {
    // odd sizes carry text gzip cannot compress, even sizes the repetitive one
    let pad_all = if kib % 2 == 1 { PAD_DENSE.get_or_init(dense_pad) } else { PAD.get_or_init(|| "abcdefghijklmnopqrstuvwxyz012345".repeat(32 * 2048)) };
    let pad = &pad_all[..(kib * 1024).min(pad_all.len())];
    let name = format!("c{case_id}");
    let t0 = emit::Timestamp::from_unix(Duration::from_secs(1_700_000_000)).unwrap();
    let t1 = emit::Timestamp::from_unix(Duration::from_secs(1_700_000_001)).unwrap();
    let mut props: Vec<(&str, emit::Value)> = vec![("case_id", emit::Value::from(case_id)), ("pad", emit::Value::from(pad))];
    let extent = match signal {
        Signal::Logs => emit::Extent::point(t1),
        Signal::Traces => {
            props.push((emit::well_known::KEY_EVT_KIND, emit::Value::capture_display(&emit::Kind::Span)));
            emit::Extent::range(t0..t1)
        }
        Signal::Metrics => {
            props.push((emit::well_known::KEY_EVT_KIND, emit::Value::capture_display(&emit::Kind::Metric)));
            props.push((emit::well_known::KEY_METRIC_VALUE, emit::Value::from(1i64)));
            props.push((emit::well_known::KEY_METRIC_AGG, emit::Value::from("count")));
            emit::Extent::point(t1)
        }
    };
    otlp.emit(emit::Event::new(
        emit::Path::new_raw("c12::case"),
        emit::Template::literal_ref(&name),
        extent,
        &props[..],
    ));
}

#[derive(Debug, Clone)]
pub struct Observed {
    /// the harness could not establish its own preconditions (plug never seen, ...): inconclusive
    pub harness_problem: Option<String>,
    /// start of this run's id space
    pub base: u64,
    /// ids emitted per signal (plug first)
    pub emitted: BTreeMap<Signal, Vec<u64>>,
    /// result of the short flush attempted while every plug was still unanswered, and the log as it
    /// was when that flush returned
    pub early_flush: Option<bool>,
    pub log_at_early_flush: Vec<RequestLog>,
    /// result of the final flush (Ending::Flush only) and the log as it was when flush returned
    pub flush: Option<bool>,
    /// result of a short flush attempted while one signal's endpoint was (still) down
    pub outage_flush: Option<bool>,
    pub log_at_flush: Vec<RequestLog>,
    /// log after waiting (bounded) for everything still deliverable
    pub log_final: Vec<RequestLog>,
    /// whether the bounded wait saw every expected event acknowledged
    pub settled: bool,
    /// emit's own count of failed batch attempts per signal (`otlp_<signal>_queue_batch_failed`),
    /// sampled before the emitter is dropped: a request can fail on the client side (its timeout
    /// expiring under load) without the collector having refused anything
    pub client_failed: BTreeMap<Signal, usize>,
    /// requests of stale emitters of earlier cases that the collector turned away (port reuse)
    pub foreign: u64,
}

fn sample_client_failures(otlp: &emit_otlp::Otlp) -> BTreeMap<Signal, usize> {
    use emit::metric::Source as _;
    let out = std::cell::RefCell::new(BTreeMap::new());
    otlp.metric_source().sample_metrics(emit::metric::sampler::from_fn(|m| {
        let name = m.name().to_string();
        for (sig, prefix) in [(Signal::Logs, "otlp_logs_"), (Signal::Traces, "otlp_traces_"), (Signal::Metrics, "otlp_metrics_")] {
            if name.strip_prefix(prefix) == Some("queue_batch_failed") {
                out.borrow_mut().insert(sig, m.value().by_ref().cast::<usize>().unwrap_or(usize::MAX));
            }
        }
    }));
    out.into_inner()
}

fn ids_of(r: &RequestLog) -> BTreeSet<u64> {
    r.records
        .iter()
        .filter_map(|rec| {
            rec.case_id
                .as_ref()
                .and_then(|s| s.parse::<u64>().ok())
                .or_else(|| rec.name.strip_prefix('c').and_then(|s| s.parse::<u64>().ok()))
        })
        .collect()
}

fn all_acked(log: &[RequestLog], want: &BTreeMap<Signal, Vec<u64>>, signals: &[Signal]) -> bool {
    let mut acked: BTreeSet<u64> = BTreeSet::new();
    for r in log {
        if r.outcome == Outcome::Acked {
            acked.extend(ids_of(r));
        }
    }
    signals.iter().all(|s| want.get(s).map(|v| v.iter().all(|id| acked.contains(id))).unwrap_or(true))
}

/// At most this many scenarios run at once in the process: each one is mostly asleep, but its busy
/// phases (encoding and shipping megabytes through two single-threaded runtimes) must not be starved past
/// emit's scaled request timeout by hundreds of sibling cases (thorough tier: 33 generators x 16 shards).
const MAX_CONCURRENT: usize = 64;
static RUNNING: (Mutex<usize>, std::sync::Condvar) = (Mutex::new(0), std::sync::Condvar::new());

struct Permit;

impl Permit {
    fn acquire() -> Permit {
        let mut n = RUNNING.0.lock().unwrap();
        while *n >= MAX_CONCURRENT {
            n = RUNNING.1.wait(n).unwrap();
        }
        *n += 1;
        Permit
    }
}

impl Drop for Permit {
    fn drop(&mut self) {
        *RUNNING.0.lock().unwrap() -= 1;
        RUNNING.1.notify_one();
    }
}

/// A `Scenario` that only says what `build` needs: wire, gzip, which signals.
fn config_only(wire: Wire, gzip: bool, signals: [bool; 3]) -> Scenario {
    let stream = |on: bool| on.then(|| Stream { sizes_kib: vec![], faults: vec![] });
    Scenario {
        wire,
        gzip,
        streams: [stream(signals[0]), stream(signals[1]), stream(signals[2])],
        outage: None,
        early_flush: false,
        ending: Ending::Flush,
        flip_encoding: 0,
    }
}

fn start_collector(wire: Wire) -> Result<Collector, String> {
    let c = Collector::try_start()?;
    if wire == Wire::Grpc {
        c.ensure_grpc()?;
    }
    c.keep_payloads(false);
    Ok(c)
}

fn next_base() -> u64 {
    CASE_SEQ.fetch_add(1, std::sync::atomic::Ordering::SeqCst) * ID_SPACE
}

pub mod e2e;
pub mod exhaust;

/// Bounds what proptest may spend shrinking a failure of one generator: every evaluation of an end-to-end
/// case costs real seconds (a failing one the whole settle bound). After the first failure at most `max_runs`
/// further evaluations / `max_secs` seconds are spent; past that candidates are reported as passing, so the
/// smallest failing case found so far is kept.
pub struct ShrinkGuard {
    failed: std::sync::atomic::AtomicBool,
    runs: std::sync::atomic::AtomicU32,
    started: Mutex<Option<std::time::Instant>>,
    max_runs: u32,
    max_secs: u64,
}

impl ShrinkGuard {
    pub fn new(max_runs: u32, max_secs: u64) -> ShrinkGuard {
        ShrinkGuard { failed: Default::default(), runs: Default::default(), started: Mutex::new(None), max_runs, max_secs }
    }

    pub fn run(&self, s: &vcore::Session, cx: &mut Cx, check: impl FnOnce(&mut Cx) -> Res) -> Res {
        use std::sync::atomic::Ordering::SeqCst;
        if cx.replaying && !s.is_replay() && self.failed.load(SeqCst) {
            let n = self.runs.fetch_add(1, SeqCst);
            let started = *self.started.lock().unwrap().get_or_insert_with(std::time::Instant::now);
            if n >= self.max_runs || started.elapsed().as_secs() > self.max_secs {
                return Ok(());
            }
        }
        let r = check(cx);
        if r.is_err() && !cx.replaying {
            self.failed.store(true, SeqCst);
        }
        r
    }
}

pub fn run(sc: &Scenario) -> Observed {
    timing::ensure();
    let _permit = Permit::acquire();
    let case_started = std::time::Instant::now();
    let started = Collector::try_start().and_then(|c| {
        if sc.wire == Wire::Grpc {
            c.ensure_grpc()?;
        }
        Ok(c)
    });
    let c = match started {
        Ok(c) => c,
        Err(e) => {
            return Observed {
                harness_problem: Some(e),
                base: 0,
                emitted: BTreeMap::new(),
                early_flush: None,
                log_at_early_flush: Vec::new(),
                flush: None,
                outage_flush: None,
                log_at_flush: Vec::new(),
                log_final: Vec::new(),
                settled: false,
                client_failed: BTreeMap::new(),
                foreign: 0,
            }
        }
    };
    c.keep_payloads(false);
    let healthy = sc.healthy();
    for s in sc.configured() {
        if sc.down(s) {
            match sc.outage.unwrap().1 {
                Outage::Refused => {}
                Outage::Reset => c.set_default(s, Decision::CloseBeforeRead),
                Outage::Unavailable => c.set_default(s, Decision::Status(503)),
            }
        } else {
            c.script(s, vec![Decision::Hold(s.index() as u32)]);
        }
    }
    let otlp = build(&c, sc);
    let base = CASE_SEQ.fetch_add(1, std::sync::atomic::Ordering::SeqCst) * ID_SPACE;
    let mut obs = Observed {
        harness_problem: None,
        base,
        emitted: BTreeMap::new(),
        early_flush: None,
        log_at_early_flush: Vec::new(),
        flush: None,
        outage_flush: None,
        log_at_flush: Vec::new(),
        log_final: Vec::new(),
        settled: false,
        client_failed: BTreeMap::new(),
        foreign: 0,
    };

    // 1. plugs
    for s in sc.configured() {
        emit_to(&otlp, s, plug_id(base, s), 1);
        obs.emitted.entry(s).or_default().push(plug_id(base, s));
    }
    let plugs_held = |log: &[RequestLog]| {
        healthy
            .iter()
            .all(|s| log.iter().any(|r| r.signal == Some(*s) && r.phase == Phase::Held))
    };
    if !c.wait_until(plugs_held, Duration::from_secs(30)) {
        obs.harness_problem = Some("the plug requests did not all arrive within 30 s".into());
        obs.log_final = c.requests();
        drop(otlp);
        c.shutdown();
        return obs;
    }

    // 2. a flush attempted now cannot have anything acknowledged
    if sc.early_flush && !healthy.is_empty() {
        obs.early_flush = Some(otlp.blocking_flush(Duration::from_millis(30)));
        obs.log_at_early_flush = c.requests();
    }

    // 3. the batch (events of the signals interleaved round-robin, as an application would emit them)
    let longest = sc.streams.iter().flatten().map(|s| s.sizes_kib.len()).max().unwrap_or(0);
    for i in 0..longest {
        for s in sc.configured() {
            let st = sc.streams[s.index()].as_ref().unwrap();
            if let Some(kib) = st.sizes_kib.get(i) {
                emit_to(&otlp, s, event_id(base, s, i), *kib as usize);
                obs.emitted.entry(s).or_default().push(event_id(base, s, i));
            }
        }
    }

    // 4. script the batch's requests
    for s in &healthy {
        let st = sc.streams[s.index()].as_ref().unwrap();
        let len = st.faults.iter().map(|f| f.pos as usize + 1).max().unwrap_or(0);
        let mut script = vec![Decision::Ack; len];
        for f in &st.faults {
            script[f.pos as usize] = f.fault.decision();
        }
        c.script(*s, script);
    }

    let settle = match sc.ending {
        Ending::Flush => timing::settle(sc.max_failures(), sc.max_stalls()),
        // after a drop nothing but the already scripted back-off stands between the queue and the collector
        _ => timing::settle(sc.max_failures(), 0),
    };
    match sc.ending {
        Ending::Flush => {
            for s in &healthy {
                c.release(s.index() as u32);
            }
            if sc.outage.is_none() {
                let ok = otlp.blocking_flush(settle);
                obs.flush = Some(ok);
                obs.log_at_flush = c.requests();
            }
            if obs.flush == Some(true) {
                // emit says everything is done: nothing more will arrive, judge what is there
                obs.settled = all_acked(&obs.log_at_flush, &obs.emitted, &healthy);
            } else {
                obs.settled = c.wait_until(|log| all_acked(log, &obs.emitted, &healthy), settle);
            }
            if sc.outage.is_some() && case_started.elapsed() < Duration::from_millis(timing::backoff_total_ms(6)) {
                // the dead endpoint's first batch (the plug) is still far from exhausting its retry
                // budget (10 retries, ~78 s of back-off unscaled; the window used here ends before the
                // 7th) and a second batch is queued behind it: a flush cannot truthfully succeed now
                obs.outage_flush = Some(otlp.blocking_flush(Duration::from_millis(100)));
            }
            obs.client_failed = sample_client_failures(&otlp);
            obs.log_final = c.requests();
            // the collector goes first (see collector/NOTES.md: no TIME_WAIT left behind)
            c.release_stalls();
            c.shutdown();
            drop(otlp);
        }
        Ending::DropWhileQueued => {
            drop(otlp);
            // Give a worker that (wrongly) winds down at drop the time to do so: it shows as the plug
            // connection being closed by the client. A healthy worker keeps the plug request open.
            let _ = c.wait_until(
                |log| log.iter().any(|r| matches!(r.decision, Decision::Hold(_)) && r.phase == Phase::Done),
                Duration::from_millis(2 * timing::IDLE_MAX_MS / timing::divisor() + 300),
            );
            for s in &healthy {
                c.release(s.index() as u32);
            }
            obs.settled = c.wait_until(|log| all_acked(log, &obs.emitted, &healthy), settle);
            obs.log_final = c.requests();
        }
        Ending::DropDuringBackoff => {
            for s in &healthy {
                c.release(s.index() as u32);
            }
            // wait until every scripted failure has been served, i.e. the batches sit in their back-off
            let failing: Vec<Signal> = healthy
                .iter()
                .copied()
                .filter(|s| !sc.streams[s.index()].as_ref().unwrap().faults.is_empty())
                .collect();
            let _ = c.wait_until(
                |log| failing.iter().all(|s| log.iter().any(|r| r.signal == Some(*s) && r.phase == Phase::Done && r.failed())),
                Duration::from_secs(20),
            );
            drop(otlp);
            obs.settled = c.wait_until(|log| all_acked(log, &obs.emitted, &healthy), settle);
            obs.log_final = c.requests();
        }
    }
    obs.foreign = c.foreign_requests();
    c.release_stalls();
    c.shutdown();
    obs
}

// ---------------------------------------------------------------------------------------------
// the oracle

fn decision_label(d: &Decision, transport: Transport) -> &'static str {
    match d {
        Decision::Ack => "ack",
        Decision::AckThenClose => "ack-then-close",
        Decision::Status(_) if transport == Transport::Grpc => "grpc-http-status",
        Decision::Status(s) if *s < 400 => "status-3xx",
        Decision::Status(s) if *s < 500 => "status-4xx",
        Decision::Status(_) => "status-5xx",
        Decision::GrpcStatus(_) => "grpc-status",
        Decision::GrpcStatusTrailersOnly(_) => "grpc-trailers-only-status",
        Decision::CloseBeforeRead => "close-before-read",
        Decision::ReadThenClose => "read-then-close",
        Decision::Stall => "stall",
        Decision::StallAfterHeaders if transport == Transport::Grpc => "grpc-stall-after-headers",
        Decision::StallAfterHeaders => "http1-stall-after-headers",
        Decision::StallMidBody if transport == Transport::Grpc => "grpc-stall-mid-body",
        Decision::StallMidBody => "http1-stall-mid-body",
        Decision::WedgeConnection { .. } if transport == Transport::Grpc => "grpc-wedged-connection",
        Decision::WedgeConnection { .. } => "http1-wedged-connection",
        Decision::AbortAfterHeaders { how } if transport == Transport::Grpc => match how {
            Abort::RstStream => "grpc-abort-after-headers/rst",
            Abort::Goaway => "grpc-abort-after-headers/goaway",
            Abort::DropConnection => "grpc-abort-after-headers/drop",
        },
        Decision::AbortMidBody { how } if transport == Transport::Grpc => match how {
            Abort::RstStream => "grpc-abort-mid-body/rst",
            Abort::Goaway => "grpc-abort-mid-body/goaway",
            Abort::DropConnection => "grpc-abort-mid-body/drop",
        },
        Decision::AbortAfterHeaders { .. } => "http1-abort-after-headers",
        Decision::AbortMidBody { .. } => "http1-abort-mid-body",
        Decision::Hold(_) => "hold",
    }
}

pub fn judge(sc: &Scenario, obs: &Observed, cx: &mut Cx) -> Result<Result<(), String>, vcore::Fail> {
    // ---- classification
    cx.class(match sc.wire {
        Wire::HttpJson => "transport:http-json",
        Wire::HttpProto => "transport:http-protobuf",
        Wire::Grpc => "transport:grpc",
    });
    cx.class(if sc.gzip { "gzip:on" } else { "gzip:off" });
    {
        let conf = sc.configured();
        let mixed = conf.iter().any(|s| sc.json(*s)) && conf.iter().any(|s| !sc.json(*s));
        cx.class_if(mixed, "encodings:signals-of-one-emitter-in-different-encodings");
    }
    cx.class(&format!("signals:{}", sc.configured().len()));
    cx.class(match sc.ending {
        Ending::Flush => "ending:flush",
        Ending::DropWhileQueued => "ending:drop-while-queued",
        Ending::DropDuringBackoff => "ending:drop-during-backoff",
    });
    if let Some((_, o)) = sc.outage {
        cx.class(match o {
            Outage::Refused => "outage:refused",
            Outage::Reset => "outage:reset",
            Outage::Unavailable => "outage:503",
        });
    }
    if let Some(p) = &obs.harness_problem {
        return Ok(Err(p.clone()));
    }
    cx.class_if(obs.foreign > 0, "stale-emitter-request-turned-away");
    let healthy = sc.healthy();
    let log = &obs.log_final;
    for r in log.iter().chain(obs.log_at_flush.iter()) {
        if let Some(id) = ids_of(r).into_iter().find(|id| id / ID_SPACE != obs.base / ID_SPACE) {
            return Ok(Err(format!(
                "a request of another case (event {id}, this case's id space starts at {}) reached this case's collector: port reuse",
                obs.base
            )));
        }
    }

    // requests of each signal after its plug = the batch
    let mut multi = false;
    let mut any_failed = false;
    for s in &healthy {
        let batch: Vec<&RequestLog> = log.iter().filter(|r| r.signal == Some(*s) && !matches!(r.decision, Decision::Hold(_))).collect();
        let n = batch.len();
        multi |= n >= 2;
        cx.class(match n {
            0 => "batch-requests:0",
            1 => "batch-requests:1",
            2 => "batch-requests:2",
            3 => "batch-requests:3",
            4 => "batch-requests:4",
            _ => "batch-requests:5+",
        });
        for r in &batch {
            if r.failed() {
                any_failed = true;
                cx.class(&format!("fault:{}", decision_label(&r.decision, r.transport)));
                if matches!(r.decision, Decision::Status(s) if s < 400) && r.transport == Transport::Grpc {
                    cx.class("fault:grpc-http-status-3xx");
                }
                if let Decision::GrpcStatus(c) | Decision::GrpcStatusTrailersOnly(c) = r.decision {
                    // the collector picks the grpc-message text by status code (collector/src/grpc.rs grpc_message)
                    cx.class_if(matches!(c.rem_euclid(9), 2 | 7), "fault:grpc-message-ends-with-a-raw-percent-sign");
                    cx.class_if(matches!(c.rem_euclid(9), 4 | 5 | 6 | 8), "fault:grpc-message-with-percent-escapes");
                }
                if let Decision::WedgeConnection { keep_reading } = r.decision {
                    cx.class(if keep_reading { "wedge:still-reading" } else { "wedge:not-reading" });
                }
            } else if r.decision == Decision::AckThenClose {
                any_failed = true;
                cx.class("fault:ack-then-close");
            } else if matches!(r.decision, Decision::StallAfterHeaders | Decision::StallMidBody | Decision::AbortAfterHeaders { .. } | Decision::AbortMidBody { .. }) {
                // HTTP/1 control: acknowledged by its status line, the connection is useless afterwards
                any_failed = true;
                cx.class(&format!("fault:{}", decision_label(&r.decision, r.transport)));
            }
        }
    }
    cx.class_if(multi, "multi-request-batch");
    cx.class_if(any_failed, "failed-request");
    cx.nontrivial(multi || any_failed);

    // ---- every request body must be well-formed for its declared encoding / compression / framing
    for r in log {
        if let Some(e) = &r.decode_error {
            if r.phase != Phase::Head && r.signal.is_some() {
                cx.fail(
                    "request-body-does-not-decode",
                    format!("request {} ({:?} {} gzip={}) : {e}", r.seq, r.transport, r.path, r.gzip),
                )?;
            }
        }
        if r.phase != Phase::Head {
            cx.class(if r.gzip { "request:gzip" } else { "request:identity" });
            cx.class_if(r.gzip && r.wire_len > 64 * 1024, "request:gzip-body-still>64KiB-compressed");
        }
        for rec in &r.records {
            if Some(rec.signal) != r.signal {
                cx.fail("record-at-wrong-endpoint", format!("{:?} record in request to {}", rec.signal, r.path))?;
            }
        }
    }

    // ---- a flush attempted while a plug is unanswered must not report success. (Under heavy load emit's
    //      scaled request timeout can expire on the held plug; the plug is then sent again and answered by
    //      the next scripted decision — so "unanswered" is judged from the log, not assumed.)
    if obs.early_flush == Some(true) {
        let mut acked_then: BTreeSet<u64> = BTreeSet::new();
        for r in &obs.log_at_early_flush {
            if r.outcome == Outcome::Acked {
                acked_then.extend(ids_of(r));
            }
        }
        let unanswered: Vec<Signal> = healthy.iter().copied().filter(|s| !acked_then.contains(&plug_id(obs.base, *s))).collect();
        if !unanswered.is_empty() {
            cx.fail(
                "flush-reported-success-while-request-unanswered",
                format!("blocking_flush returned true while the first event of {unanswered:?} was in no acknowledged request (its request was being held by the collector)"),
            )?;
        }
    }

    if obs.outage_flush == Some(true) {
        // On gRPC an endpoint that answers a bare HTTP 503 is the "HTTP error status on the gRPC
        // transport" failure class: emit taking it for success is that finding, not a new one.
        let sig = if sc.wire == Wire::Grpc && matches!(sc.outage, Some((_, Outage::Unavailable))) {
            "failed-request-not-resent/grpc-http-status"
        } else {
            "flush-reported-success-during-outage"
        };
        cx.fail(
            sig,
            format!("blocking_flush returned true although the endpoint of {:?} is down, its events are unacknowledged and its retry budget is far from exhausted", sc.outage),
        )?;
    }

    // ---- delivery
    let acked_in = |l: &[RequestLog]| {
        let mut m: BTreeMap<u64, u32> = BTreeMap::new();
        for r in l {
            if r.outcome == Outcome::Acked {
                for id in ids_of(r) {
                    *m.entry(id).or_default() += 1;
                }
            }
        }
        m
    };
    let acked = acked_in(log);
    let mut seen: BTreeMap<u64, u32> = BTreeMap::new();
    for r in log {
        // count occurrences of each record, not just membership
        for rec in &r.records {
            if let Some(id) = rec.case_id.as_ref().and_then(|s| s.parse::<u64>().ok()).or_else(|| rec.name.strip_prefix('c').and_then(|s| s.parse().ok())) {
                *seen.entry(id).or_default() += 1;
            }
        }
    }

    let after_drop = sc.ending != Ending::Flush;
    // events already reported as undelivered (only reachable past a listed known finding): later
    // clauses do not report the same loss again under another name
    let mut reported: BTreeSet<u64> = BTreeSet::new();
    for s in &healthy {
        for id in obs.emitted.get(s).into_iter().flatten() {
            if acked.contains_key(id) {
                continue;
            }
            // not acknowledged within the settle bound: say how far it got
            let carriers: Vec<&RequestLog> = log.iter().filter(|r| ids_of(r).contains(id)).collect();
            let what = if let Some(last) = carriers.last() {
                format!(
                    "failed-request-not-resent/{}",
                    decision_label(&last.decision, last.transport)
                )
            } else {
                // no request the collector could read ever carried it (requests dropped before their
                // body was read cannot be attributed)
                "event-never-sent".to_string()
            };
            // one signature for everything abandoned at drop, whatever state it was in
            let sig = if after_drop { format!("accepted-event-abandoned-after-emitter-dropped") } else { what.clone() };
            let outage = if sc.outage.is_some() { " while another signal's endpoint is down" } else { "" };
            cx.fail(
                sig,
                format!(
                    "{s:?} event {} was accepted by emit but is in no acknowledged request{outage} ({}; {what}); requests of this signal: {}",
                    rel(*id),
                    match obs.flush {
                        Some(true) => "blocking_flush returned true".to_string(),
                        Some(false) => "blocking_flush timed out and the bounded wait after it expired".to_string(),
                        None => "the bounded wait expired".to_string(),
                    },
                    describe(log, *s)
                ),
            )?;
            reported.insert(*id);
        }
    }

    // ---- flush == true => everything emitted before it was acknowledged when it returned
    if obs.flush == Some(true) {
        let acked_then = acked_in(&obs.log_at_flush);
        for s in &healthy {
            for id in obs.emitted.get(s).into_iter().flatten() {
                // (events that are never acknowledged at all are reported above)
                if !acked_then.contains_key(id) && acked.contains_key(id) {
                    cx.fail(
                        "flush-reported-success-before-acknowledgement",
                        format!("blocking_flush returned true but {s:?} event {} was in no acknowledged request at that moment; requests of this signal: {}", rel(*id), describe(&obs.log_at_flush, *s)),
                    )?;
                }
            }
        }
    }

    // ---- exactly once when no request failed
    for s in &healthy {
        let no_failure = log
            .iter()
            .filter(|r| r.signal == Some(*s))
            .all(|r| r.outcome == Outcome::Acked && !matches!(r.decision, Decision::AckThenClose | Decision::StallAfterHeaders | Decision::StallMidBody | Decision::AbortAfterHeaders { .. } | Decision::AbortMidBody { .. }));
        // ... and none failed on the client side either (by emit's own count; only known when the
        // emitter was still alive at the end)
        let client_failures = if after_drop { None } else { obs.client_failed.get(s).copied() };
        if no_failure && client_failures.map(|n| n > 0).unwrap_or(false) {
            cx.class("unscripted-client-side-failure");
        }
        if no_failure && client_failures == Some(0) {
            for id in obs.emitted.get(s).into_iter().flatten() {
                let n = seen.get(id).copied().unwrap_or(0);
                if n > 1 {
                    cx.fail(
                        "event-sent-twice-without-any-failure",
                        format!("{s:?} event {} appears {n} times although every request of the signal was acknowledged: {}", rel(*id), describe(log, *s)),
                    )?;
                }
            }
        }
    }

    // ---- a failed request is sent again with the same events; after a dropped connection the next
    //      request uses a new connection
    for (i, r) in log.iter().enumerate() {
        if !r.failed() || r.signal.map(|s| sc.down(s)).unwrap_or(true) {
            continue;
        }
        let sig = r.signal.unwrap();
        let later: Vec<&RequestLog> = log[i + 1..].iter().filter(|q| q.signal == Some(sig)).collect();
        let ids = ids_of(r);
        // "sent again with the same events": another request of the signal carries exactly this set. Its
        // position in the log is not required to be later: requests on different connections are logged
        // when their serving threads get to run, which under load need not be the order they were sent in.
        let resent = log.iter().enumerate().any(|(j, q)| j != i && q.signal == Some(sig) && ids_of(q) == ids);
        if !ids.is_empty() && !after_drop && ids.is_disjoint(&reported) && !resent {
            // (when the events then stay undelivered this has already been reported above; reaching
            // this point means they were delivered, but not by sending the failed request again)
            cx.fail(
                "failed-request-resent-with-different-events",
                format!("request {} ({}) failed carrying {:?}; requests of the signal: {}", r.seq, decision_label(&r.decision, r.transport), ids.iter().map(|i| rel(*i)).collect::<Vec<_>>(), describe(log, sig)),
            )?;
        }
        // a connection on which a request went unanswered past the timeout is broken: what is sent
        // afterwards must not come in on it again (the collector keeps logging streams of a wedged
        // connection that it still reads)
        if matches!(r.decision, Decision::WedgeConnection { .. }) {
            if let Some(again) = later.iter().find(|q| q.conn == r.conn) {
                cx.fail(
                    "request-resent-on-wedged-connection",
                    format!(
                        "request {} got no answer on connection {} (wedged: open, silent), yet request {} of the signal arrived on that same connection; requests of the signal: {}",
                        r.seq, r.conn, again.seq, describe(log, sig)
                    ),
                )?;
            }
        }
        // (only faults that take the whole connection down; a stalled gRPC response loses its stream only)
        if r.outcome == Outcome::Dropped && matches!(r.decision, Decision::CloseBeforeRead | Decision::ReadThenClose | Decision::Stall) {
            if let Some(next) = later.first() {
                if next.conn == r.conn {
                    cx.fail("request-on-dropped-connection", format!("connection {} was dropped at request {} but request {} used it again", r.conn, r.seq, next.seq))?;
                }
            }
        }
    }

    if !obs.settled {
        // everything above passed although the bounded wait expired: can only be a known-finding
        // step-over (the failures were recorded) — nothing more to say
    }
    Ok(Ok(()))
}

fn describe(log: &[RequestLog], s: Signal) -> String {
    let mut out = String::new();
    for r in log.iter().filter(|r| r.signal == Some(s)) {
        let ids: Vec<u64> = ids_of(r).into_iter().map(rel).collect();
        out.push_str(&format!("[#{} conn{} {:?}->{:?} ids={:?}] ", r.seq, r.conn, r.decision, r.outcome, ids));
    }
    out
}

/// `check` entry: run + judge; harness problems are returned so `main` can mark the run inconclusive.
pub fn check(sc: &Scenario, cx: &mut Cx) -> Result<Result<(), String>, vcore::Fail> {
    let obs = run(sc);
    if std::env::var_os("VERIF_DEBUG").is_some() {
        eprintln!("early_flush={:?} flush={:?} settled={} client_failed={:?}", obs.early_flush, obs.flush, obs.settled, obs.client_failed);
        for r in &obs.log_final {
            eprintln!(
                "  #{} conn{} {:?} {:?} gzip={} {:?} {:?}->{:?} wire={} payload={} ids={:?} err={:?}",
                r.seq, r.conn, r.transport, r.signal, r.gzip, r.phase, r.decision, r.outcome, r.wire_len, r.payload_len, ids_of(r), r.decode_error
            );
        }
    }
    judge(sc, &obs, cx)
}

pub fn res(r: Result<Result<(), String>, vcore::Fail>, on_harness_problem: impl FnOnce(String)) -> Res {
    match r {
        Ok(Ok(())) => Ok(()),
        Ok(Err(p)) => {
            on_harness_problem(p);
            Ok(())
        }
        Err(f) => Err(f),
    }
}
