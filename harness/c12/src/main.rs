use c12::*;
use collector::{Abort, Signal};
use std::sync::atomic::{AtomicBool, AtomicU32, Ordering};
use vcore::proptest::prelude::*;
use vcore::{Cx, Level, Res, Session};

const RULE: &str = "a case is a scenario interpreted against a real emit_otlp emitter and the scripted local collector: transport {HTTP/JSON, HTTP/protobuf, gRPC} x gzip on/off x any non-empty subset of the three signals; per signal one small 'plug' event whose request the collector holds open, then 2-9 events with 300-700 KiB (sometimes tiny or >1 MiB) string payloads that accumulate into ONE batch which emit splits into 1..5+ size-limited requests; the collector answers the n-th request of that batch by script {ack, any non-2xx final status (3xx redirects, 4xx, 5xx), non-zero grpc-status in trailers or in a Trailers-Only response, bare HTTP error on gRPC, close before reading, read then close, stall past the request timeout (30 s, scaled by hook H3) without answering / after the response HEADERS / after a fragment of the response body, wedge the whole connection (open, never answering again, reading or not, while new connections work), abort the response after its HEADERS or mid body (RST_STREAM / GOAWAY / connection dropped), ack then close}; optionally one signal's endpoint is down (refused / reset / 503) for the whole case; the application ends with blocking_flush or by dropping the emitter (while batches are queued, or while a failed request waits for its back-off). Families: split (no fault), fault (1-2 scripted failures), stall, outage, drop, exhaust (batch A fails on every attempt until emit gives it up, then batch B whose first request fails once and must be re-sent and acknowledged). Non-trivial = some signal's batch needed >= 2 requests, or >= 1 request failed.";

/// Bounds shrinking cost: every evaluation of a scenario costs 0.1-30 s of real time.
struct Guard {
    failed: AtomicBool,
    shrink_runs: AtomicU32,
    shrink_started: std::sync::Mutex<Option<std::time::Instant>>,
}

impl Guard {
    fn new() -> Guard {
        Guard { failed: AtomicBool::new(false), shrink_runs: AtomicU32::new(0), shrink_started: std::sync::Mutex::new(None) }
    }

    fn check(&self, s: &Session, sc: &Scenario, cx: &mut Cx) -> Res {
        if cx.replaying && !s.is_replay() && self.failed.load(Ordering::SeqCst) {
            // proptest is shrinking a failure of this generator: allow a bounded number of further
            // evaluations (none for stall scenarios), then report "passes" so the current candidate stays
            let n = self.shrink_runs.fetch_add(1, Ordering::SeqCst);
            let started = *self.shrink_started.lock().unwrap().get_or_insert_with(std::time::Instant::now);
            if n >= 40 || sc.has_stall() || started.elapsed() > std::time::Duration::from_secs(60) {
                return Ok(());
            }
        }
        let r = res(check(sc, cx), |p| s.inconclusive(format!("harness: {p}")));
        if r.is_err() && !cx.replaying {
            self.failed.store(true, Ordering::SeqCst);
        }
        r
    }
}

// ---------------------------------------------------------------------------------------------
// strategies

fn size() -> impl Strategy<Value = u16> {
    prop_oneof![
        10 => 300u16..=700,
        1 => 1u16..=64,
        1 => Just(1024u16),
        1 => 1025u16..=1400,
    ]
}

fn subset(min: usize) -> impl Strategy<Value = [bool; 3]> {
    let all: Vec<[bool; 3]> = (1u8..8)
        .map(|m| [m & 1 != 0, m & 2 != 0, m & 4 != 0])
        .filter(|s| s.iter().filter(|b| **b).count() >= min)
        .collect();
    prop::sample::select(all)
}

fn abort_how() -> impl Strategy<Value = Abort> {
    prop_oneof![Just(Abort::RstStream), Just(Abort::Goaway), Just(Abort::DropConnection)]
}

fn fault_kind(wire: Wire, stall: bool) -> BoxedStrategy<Fault> {
    if stall {
        return prop_oneof![
            Just(Fault::Stall),
            Just(Fault::StallAfterHeaders),
            Just(Fault::StallMidBody),
            Just(Fault::WedgeReading),
            Just(Fault::WedgeSilent)
        ]
        .boxed();
    }
    match wire {
        Wire::HttpJson | Wire::HttpProto => prop_oneof![
            // any non-2xx final status: redirects (a client at this level does not follow them) as well as errors
            4 => prop::sample::select(vec![301u16, 302, 303, 304, 307, 308, 400, 404, 429, 500, 502, 503]).prop_map(Fault::Status),
            2 => Just(Fault::CloseBeforeRead),
            2 => Just(Fault::ReadThenClose),
            1 => Just(Fault::AckThenClose),
            1 => Just(Fault::Stall),
            1 => Just(Fault::StallAfterHeaders),
            1 => Just(Fault::StallMidBody),
            1 => Just(Fault::WedgeReading),
            1 => Just(Fault::WedgeSilent),
            1 => abort_how().prop_map(Fault::AbortAfterHeaders),
            1 => abort_how().prop_map(Fault::AbortMidBody),
        ]
        .boxed(),
        Wire::Grpc => prop_oneof![
            3 => grpc_code().prop_map(Fault::GrpcStatus),
            2 => grpc_code().prop_map(Fault::GrpcTrailersOnly),
            2 => prop::sample::select(vec![301u16, 302, 307, 308, 429, 502, 503]).prop_map(Fault::Status),
            2 => Just(Fault::CloseBeforeRead),
            2 => Just(Fault::ReadThenClose),
            1 => Just(Fault::AckThenClose),
            1 => Just(Fault::Stall),
            2 => Just(Fault::StallAfterHeaders),
            2 => Just(Fault::StallMidBody),
            2 => Just(Fault::WedgeReading),
            2 => Just(Fault::WedgeSilent),
            6 => abort_how().prop_map(Fault::AbortAfterHeaders),
            3 => abort_how().prop_map(Fault::AbortMidBody),
        ]
        .boxed(),
    }
}

#[derive(Clone, Copy, PartialEq, Debug)]
enum Family {
    Split,
    Fault,
    Stall,
    Outage,
    Drop,
}

fn stream(wire: Wire, family: Family, thorough: bool) -> BoxedStrategy<Stream> {
    let events = match family {
        Family::Split => 2usize..=9,
        Family::Fault | Family::Stall => 4usize..=8,
        Family::Outage => 2usize..=6,
        Family::Drop => 1usize..=5,
    };
    let sizes = prop::collection::vec(size(), events);
    match family {
        Family::Split => sizes.prop_map(|sizes_kib| Stream { sizes_kib, faults: vec![] }).boxed(),
        Family::Fault | Family::Stall => {
            let stall = family == Family::Stall;
            let max_pos = if thorough { 3u8 } else { 1u8 };
            let first = (0..=max_pos, fault_kind(wire, stall)).prop_map(|(pos, fault)| FaultAt { pos, fault });
            let second = if thorough && !stall {
                prop_oneof![2 => Just(None), 1 => (0..=max_pos, fault_kind(wire, false)).prop_map(|(pos, fault)| Some(FaultAt { pos, fault }))].boxed()
            } else {
                Just(None).boxed()
            };
            (sizes, first, second)
                .prop_map(|(sizes_kib, a, b)| {
                    // a wedge belongs on the connection the acknowledged plug used: request 0 or 1
                    let early = |mut f: FaultAt| {
                        if matches!(f.fault, Fault::WedgeReading | Fault::WedgeSilent | Fault::AbortAfterHeaders(_) | Fault::AbortMidBody(_)) {
                            f.pos = f.pos.min(1);
                        }
                        f
                    };
                    let (a, b) = (early(a), b.map(early));
                    let mut faults = vec![a];
                    if let Some(b) = b {
                        if b.pos != a.pos {
                            faults.push(b);
                        }
                    }
                    Stream { sizes_kib, faults }
                })
                .boxed()
        }
        Family::Outage => (sizes, prop_oneof![3 => Just(None), 1 => fault_kind(wire, false).prop_map(Some)])
            .prop_map(|(sizes_kib, f)| Stream { sizes_kib, faults: f.map(|fault| vec![FaultAt { pos: 0, fault }]).unwrap_or_default() })
            .boxed(),
        Family::Drop => sizes.prop_map(|sizes_kib| Stream { sizes_kib, faults: vec![] }).boxed(),
    }
}

/// a non-zero gRPC status; the collector derives the grpc-message text from it (2, 7, 11, 16: text ending in a raw `%`)
fn grpc_code() -> impl Strategy<Value = u8> {
    prop_oneof![3 => 1u8..=16, 1 => Just(2u8), 1 => Just(7u8), 1 => Just(8u8)]
}

fn scenario(wire: Wire, family: Family, thorough: bool) -> BoxedStrategy<Scenario> {
    let st = move || stream(wire, family, thorough);
    let streams = (st(), st(), st());
    match family {
        Family::Split | Family::Fault | Family::Stall => (subset(1), streams, any::<bool>(), prop::bool::weighted(0.3), 0u8..3, prop_oneof![2 => Just(0u8), 1 => 1u8..8])
            .prop_map(move |(sub, (a, b, c), gzip, early_flush, only, flip_encoding)| {
                let mut all = [Some(a), Some(b), Some(c)];
                for i in 0..3 {
                    if !sub[i] {
                        all[i] = None;
                    }
                }
                // faults on one signal only keeps a case to one back-off wait
                if family != Family::Split {
                    let configured: Vec<usize> = (0..3).filter(|i| all[*i].is_some()).collect();
                    let keep = configured[only as usize % configured.len()];
                    for i in 0..3 {
                        if i != keep {
                            if let Some(s) = all[i].as_mut() {
                                s.faults.clear();
                            }
                        }
                    }
                }
                Scenario { wire, gzip, streams: all, outage: None, early_flush, ending: Ending::Flush, flip_encoding: if wire == Wire::Grpc { 0 } else { flip_encoding } }
            })
            .boxed(),
        Family::Outage => (
            subset(2),
            streams,
            any::<bool>(),
            0u8..3,
            prop_oneof![Just(Outage::Refused), Just(Outage::Reset), Just(Outage::Unavailable)],
        )
            .prop_map(move |(sub, (a, b, c), gzip, which, kind)| {
                let mut all = [Some(a), Some(b), Some(c)];
                for i in 0..3 {
                    if !sub[i] {
                        all[i] = None;
                    }
                }
                let configured: Vec<usize> = (0..3).filter(|i| all[*i].is_some()).collect();
                let down = Signal::ALL[configured[which as usize % configured.len()]];
                // at most one healthy signal carries a scripted fault
                let mut seen_fault = false;
                for i in 0..3 {
                    if let Some(s) = all[i].as_mut() {
                        if i == down.index() || seen_fault {
                            s.faults.clear();
                        } else if !s.faults.is_empty() {
                            seen_fault = true;
                        }
                    }
                }
                Scenario { wire, gzip, streams: all, outage: Some((down, kind)), early_flush: false, ending: Ending::Flush, flip_encoding: 0 }
            })
            .boxed(),
        Family::Drop => (subset(1), streams, any::<bool>(), any::<bool>(), prop::sample::select(vec![500u16, 503, 429]), 0u8..3)
            .prop_map(move |(sub, (a, b, c), gzip, backoff, status, only)| {
                let mut all = [Some(a), Some(b), Some(c)];
                for i in 0..3 {
                    if !sub[i] {
                        all[i] = None;
                    }
                }
                let ending = if backoff { Ending::DropDuringBackoff } else { Ending::DropWhileQueued };
                if backoff {
                    let configured: Vec<usize> = (0..3).filter(|i| all[*i].is_some()).collect();
                    let keep = configured[only as usize % configured.len()];
                    let fault = if wire == Wire::Grpc { Fault::GrpcStatus(14) } else { Fault::Status(status) };
                    all[keep].as_mut().unwrap().faults = vec![FaultAt { pos: 0, fault }];
                }
                Scenario { wire, gzip, streams: all, outage: None, early_flush: false, ending, flip_encoding: 0 }
            })
            .boxed(),
    }
}

fn exhaust_case(wire: Wire) -> BoxedStrategy<c12::exhaust::Exhaust> {
    // every attempt of batch A fails the same cheap way (11 attempts: no stalls here)
    let fault_a = match wire {
        Wire::Grpc => prop_oneof![
            grpc_code().prop_map(Fault::GrpcStatus),
            grpc_code().prop_map(Fault::GrpcTrailersOnly),
            prop::sample::select(vec![429u16, 503]).prop_map(Fault::Status),
            Just(Fault::CloseBeforeRead),
            Just(Fault::ReadThenClose),
        ]
        .boxed(),
        _ => prop_oneof![
            2 => prop::sample::select(vec![429u16, 500, 503]).prop_map(Fault::Status),
            1 => Just(Fault::CloseBeforeRead),
            1 => Just(Fault::ReadThenClose),
        ]
        .boxed(),
    };
    // batch B's first request fails once, any retryable way except the ones that only hurt the NEXT request
    let fault_b = fault_kind(wire, false).prop_map(|f| if f == Fault::AckThenClose { Fault::ReadThenClose } else { f });
    (
        any::<bool>(),
        prop::sample::select(Signal::ALL.to_vec()),
        any::<bool>(),
        fault_a,
        1u8..=3,
        prop::collection::vec(size(), 1..=5),
        fault_b,
    )
        .prop_map(move |(gzip, signal, all_signals, fault_a, a_events, b_sizes_kib, fault_b)| c12::exhaust::Exhaust {
            wire,
            gzip,
            signal,
            all_signals,
            fault_a,
            a_events,
            b_sizes_kib,
            fault_b,
        })
        .boxed()
}

fn main() {
    timing::init();



    vcore::run(
        "C12",
        Level::FaultEnumeration,
        RULE,
        &[
            "the scripted collector (harness/collector) is the network: it decides per request whether to acknowledge, reject, stall or drop, logs every request with its connection id and decodes bodies with the prost types generated in the repository (JSON through a lenient proto3-JSON reader); an event is identified by its `case_id` attribute / its message `c<case_id>`; a request counts as acknowledged once the collector has written the complete success response",
            "streams stay far below the 10 000 item channel capacity, so nothing emit accepts is truncated; retry budgets (10 retries) are never exhausted on healthy endpoints by construction (at most 2 scripted failures per batch)",
            "real-time constants of emit (700 ms first back-off, 30 s request timeout, 500 ms idle poll) only size harness deadlines: 'never acknowledged' means 'not acknowledged although blocking_flush returned true', or 'not acknowledged within 20 s + 3x the scripted back-off (+32 s per stall)' (10 s + back-off after the emitter was dropped); an expired deadline alone (the plug request not arriving within 30 s) makes the run inconclusive, not failed",
            "an endpoint that is down is one of: a reserved port nothing listens on (refused), accept-then-close (reset), 503 to everything; its own events are not expected anywhere",
            "dropping the emitter: per the receiver contract ('the future resolves once the Sender is dropped', after 'a chance to emit any last batch') events accepted before the drop are still owed to the collector",
            "TLS is not exercised (no certificates offline); HTTP bodies use content-length framing as emit writes them",
        ],
        |s| {
            let quick = s.quick();
            let thorough = !quick;
            s.require("multi-request-batch", if quick { 200 } else { 8000 });
            s.require("failed-request", if quick { 150 } else { 6000 });
            s.require("transport:http-json", if quick { 100 } else { 4000 });
            s.require("transport:http-protobuf", if quick { 100 } else { 4000 });
            s.require("transport:grpc", if quick { 100 } else { 4000 });
            s.require("gzip:on", if quick { 100 } else { 4000 });
            s.require("gzip:off", if quick { 100 } else { 4000 });
            s.require("request:gzip-body-still>64KiB-compressed", if quick { 50 } else { 2000 });
            s.require("encodings:signals-of-one-emitter-in-different-encodings", if quick { 20 } else { 800 });
            s.require("fault:grpc-message-ends-with-a-raw-percent-sign", if quick { 2 } else { 100 });
            for f in ["status-5xx", "status-4xx", "close-before-read", "read-then-close", "grpc-status", "grpc-trailers-only-status", "grpc-http-status", "ack-then-close"] {
                s.require(&format!("fault:{f}"), if quick { 4 } else { 200 });
            }
            s.require("fault:stall", if quick { 8 } else { 300 });
            // response head sent, then silence: the request timeout has to cover reading the response too
            s.require("fault:grpc-stall-after-headers", if quick { 4 } else { 200 });
            s.require("fault:grpc-stall-mid-body", if quick { 4 } else { 200 });
            s.require("fault:http1-stall-after-headers", if quick { 4 } else { 200 });
            s.require("fault:http1-stall-mid-body", if quick { 4 } else { 200 });
            s.require("fault:status-3xx", if quick { 8 } else { 300 });
            s.require("fault:grpc-http-status-3xx", if quick { 4 } else { 150 });
            // the response is cut off after its HEADERS: no grpc-status ever arrived, that is a failed request
            for how in ["rst", "goaway", "drop"] {
                s.require(&format!("fault:grpc-abort-after-headers/{how}"), if quick { 4 } else { 150 });
            }
            s.require("fault:http1-abort-after-headers", if quick { 4 } else { 150 });
            // the whole connection silent but open, new connections fine: it has to be replaced
            s.require("fault:grpc-wedged-connection", if quick { 6 } else { 300 });
            s.require("fault:http1-wedged-connection", if quick { 6 } else { 300 });
            s.require("wedge:still-reading", if quick { 4 } else { 200 });
            s.require("wedge:not-reading", if quick { 4 } else { 200 });
            s.require("outage:refused", if quick { 4 } else { 200 });
            s.require("outage:reset", if quick { 4 } else { 200 });
            s.require("outage:503", if quick { 4 } else { 200 });
            s.require("ending:drop-while-queued", if quick { 8 } else { 200 });
            s.require("ending:drop-during-backoff", if quick { 8 } else { 200 });
            // a batch that used up its retry budget, then a batch that needs one retry
            s.require("retry-budget-exhausted", if quick { 6 } else { 120 });

            // (family, cases quick, cases thorough, parallel generator instances)
            let plan: [(Family, &str, u64, u64, usize); 5] = [
                (Family::Split, "split", 20, 1200, 2),
                (Family::Fault, "fault", 20, 800, 6),
                (Family::Outage, "outage", 8, 400, 2),
                (Family::Drop, "drop", 10, 320, 2),
                (Family::Stall, "stall", 12, 400, 1),
            ];
            let wires = [(Wire::HttpJson, "http-json"), (Wire::HttpProto, "http-protobuf"), (Wire::Grpc, "grpc")];
            // Cases mostly sleep (back-off, timeouts): every generator runs in its own thread at once.
            std::thread::scope(|scope| {
                // family `exhaust` (its own scenario type): each case sleeps through a whole retry budget
                for (wire, wname) in wires {
                    for inst in 0..2 {
                        let name = format!("exhaust-{wname}-{inst}");
                        let cases = s.n(2, 40);
                        std::thread::Builder::new()
                            .stack_size(16 << 20)
                            .spawn_scoped(scope, move || {
                                let guard = ShrinkGuard::new(8, 45);
                                s.gen(&name, cases, || exhaust_case(wire), |sc, cx| {
                                    guard.run(s, cx, |cx| res(c12::exhaust::check(sc, cx), |p| s.inconclusive(format!("harness: {p}"))))
                                });
                            })
                            .unwrap();
                    }
                }
                // gRPC responses cut off after their HEADERS, one generator per way of cutting (so that each
                // required class is reached by construction, not by the fault-kind lottery)
                for (how, hname) in [(Abort::RstStream, "rst"), (Abort::Goaway, "goaway"), (Abort::DropConnection, "drop")] {
                    let name = format!("abort-grpc-{hname}");
                    let cases = s.n(8, 300);
                    std::thread::Builder::new()
                        .stack_size(16 << 20)
                        .spawn_scoped(scope, move || {
                            let guard = Guard::new();
                            let strat = move || {
                                (scenario(Wire::Grpc, Family::Fault, thorough), prop::bool::weighted(0.25)).prop_map(move |(mut sc, mid)| {
                                    for st in sc.streams.iter_mut().flatten() {
                                        for f in st.faults.iter_mut() {
                                            f.fault = if mid { Fault::AbortMidBody(how) } else { Fault::AbortAfterHeaders(how) };
                                            f.pos = f.pos.min(1);
                                        }
                                    }
                                    sc
                                })
                            };
                            s.gen(&name, cases, strat, |sc, cx| guard.check(s, sc, cx));
                        })
                        .unwrap();
                }
                // a redirect is a non-2xx status too: one generator per wire, so the classes are reached by construction
                for (wire, wname) in wires {
                    let name = format!("status-3xx-{wname}");
                    let cases = s.n(6, 200);
                    std::thread::Builder::new()
                        .stack_size(16 << 20)
                        .spawn_scoped(scope, move || {
                            let guard = Guard::new();
                            let strat = move || {
                                (scenario(wire, Family::Fault, thorough), prop::sample::select(vec![301u16, 302, 303, 304, 307, 308])).prop_map(move |(mut sc, code)| {
                                    for st in sc.streams.iter_mut().flatten() {
                                        for f in st.faults.iter_mut() {
                                            f.fault = Fault::Status(code);
                                        }
                                    }
                                    sc
                                })
                            };
                            s.gen(&name, cases, strat, |sc, cx| guard.check(s, sc, cx));
                        })
                        .unwrap();
                }
                for (family, fname, q, t, instances) in plan {
                    for (wire, wname) in wires {
                        for inst in 0..instances {
                            let name = if instances > 1 { format!("{fname}-{wname}-{inst}") } else { format!("{fname}-{wname}") };
                            let cases = s.n(q, t);
                            std::thread::Builder::new()
                                .stack_size(16 << 20)
                                .spawn_scoped(scope, move || {
                                    let guard = Guard::new();
                                    s.gen(&name, cases, || scenario(wire, family, thorough), |sc, cx| guard.check(s, sc, cx));
                                })
                                .unwrap();
                        }
                    }
                }
            });
        },
    )
}
