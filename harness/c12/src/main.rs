// stub: check for C12 not built yet
fn main() {
    eprintln!("C12: check not built yet");
    std::process::exit(2);
}
