//! OTLP end-to-end clauses of C07 and C08, registered by the c07 / c08 binaries as their own generators
//! (`register_c07`, `register_c08`). Same machinery as C12 (real `emit_otlp::Otlp`, scripted collector,
//! hook-scaled timing), but each judges ONLY its own property.
//!
//! These binaries also run E2 (divisor 1 per case), E7 (4000) and the file e2e (1 / 2000) one generator
//! after another, so every case here starts by putting the process-wide divisor back to 20.

use crate::*;
use vcore::proptest::prelude::*;
use vcore::Session;

fn subset_label(sub: [bool; 3]) -> &'static str {
    match sub {
        [true, false, false] => "signals:logs-only",
        [false, true, false] => "signals:traces-only",
        [false, false, true] => "signals:metrics-only",
        [true, true, false] => "signals:logs+traces",
        [true, false, true] => "signals:logs+metrics",
        [false, true, true] => "signals:traces+metrics",
        [true, true, true] => "signals:all",
        [false, false, false] => "signals:none",
    }
}

fn wire_label(w: Wire) -> &'static str {
    match w {
        Wire::HttpJson => "otlp:http-json",
        Wire::HttpProto => "otlp:http-protobuf",
        Wire::Grpc => "otlp:grpc",
    }
}

fn subsets() -> impl Strategy<Value = [bool; 3]> {
    prop::sample::select((1u8..8).map(|m| [m & 1 != 0, m & 2 != 0, m & 4 != 0]).collect::<Vec<_>>())
}

fn wires() -> impl Strategy<Value = Wire> {
    prop::sample::select(vec![Wire::HttpJson, Wire::HttpProto, Wire::Grpc])
}

// ---------------------------------------------------------------------------------------------
// C07: a successful flush means every OTLP request for what was emitted before it has been answered

#[derive(Serialize, Deserialize, Debug, Clone, PartialEq)]
pub struct FlushCase {
    pub wire: Wire,
    pub gzip: bool,
    pub subset: [bool; 3],
    /// events emitted per signal before the flush
    pub events: [u8; 3],
    pub kib: u16,
    /// the collector answers the (first / re-sent) request of each signal this late, well inside the
    /// scaled request timeout; 0 = at once
    pub answer_after_ms: [u16; 3],
    /// one retryable failure on the first request of the n-th configured signal
    pub fault: Option<(u8, Fault)>,
}

fn flush_case() -> impl Strategy<Value = FlushCase> {
    let cheap = prop_oneof![
        prop::sample::select(vec![429u16, 500, 503]).prop_map(Fault::Status),
        Just(Fault::CloseBeforeRead),
        Just(Fault::ReadThenClose),
    ];
    let late = || prop_oneof![1 => Just(0u16), 4 => 20u16..=250];
    (
        wires(),
        any::<bool>(),
        subsets(),
        [1u8..=3, 1u8..=3, 1u8..=3],
        prop_oneof![3 => 1u16..=8, 1 => 100u16..=400],
        [late(), late(), late()],
        prop_oneof![2 => Just(None), 1 => (0u8..3, cheap).prop_map(Some)],
    )
        .prop_map(|(wire, gzip, subset, events, kib, answer_after_ms, fault)| FlushCase { wire, gzip, subset, events, kib, answer_after_ms, fault })
}

pub fn check_c07(sc: &FlushCase, cx: &mut Cx) -> Result<Result<(), String>, vcore::Fail> {
    timing::ensure();
    let _permit = Permit::acquire();
    let base = next_base();
    let c = match start_collector(sc.wire) {
        Ok(c) => c,
        Err(e) => return Ok(Err(e)),
    };
    let configured: Vec<Signal> = Signal::ALL.into_iter().filter(|s| sc.subset[s.index()]).collect();
    let faulty = sc.fault.map(|(n, f)| (configured[n as usize % configured.len()], f));
    for s in &configured {
        let mut script = Vec::new();
        if let Some((fs, f)) = faulty {
            if fs == *s {
                script.push(f.decision());
            }
        }
        if sc.answer_after_ms[s.index()] > 0 {
            script.push(Decision::Hold(s.index() as u32));
        }
        c.script(*s, script);
    }
    let otlp = build(&c, &config_only(sc.wire, sc.gzip, sc.subset));
    let mut emitted: Vec<(Signal, u64)> = Vec::new();
    for s in &configured {
        for i in 0..sc.events[s.index()] as usize {
            let id = event_id(base, *s, i);
            emit_to(&otlp, *s, id, sc.kib as usize);
            emitted.push((*s, id));
        }
    }
    // the late answers, released by the clock while the flush below is waiting
    let t0 = std::time::Instant::now();
    let (flush, snapshot) = std::thread::scope(|scope| {
        scope.spawn(|| {
            let mut order: Vec<(u16, Signal)> = configured.iter().map(|s| (sc.answer_after_ms[s.index()], *s)).collect();
            order.sort();
            for (ms, s) in order {
                let due = Duration::from_millis(ms as u64);
                if let Some(wait) = due.checked_sub(t0.elapsed()) {
                    std::thread::sleep(wait);
                }
                c.release(s.index() as u32);
            }
        });
        let ok = otlp.blocking_flush(Duration::from_secs(20));
        (ok, c.requests())
    });
    c.shutdown();
    drop(otlp);

    cx.class(subset_label(sc.subset));
    cx.class(wire_label(sc.wire));
    cx.class(if flush { "otlp:flush-true" } else { "otlp:flush-false" });
    cx.class_if(sc.answer_after_ms.iter().zip(sc.subset).any(|(ms, on)| on && *ms > 0), "otlp:late-answer");
    cx.class_if(faulty.is_some(), "otlp:failed-request-before-flush");
    cx.nontrivial(!sc.subset[0] || faulty.is_some() || configured.len() > 1);
    for r in &snapshot {
        if let Some(id) = ids_of(r).into_iter().find(|id| id / ID_SPACE != base / ID_SPACE) {
            return Ok(Err(format!("a request of another case (event {id}) reached this case's collector")));
        }
    }
    if flush {
        let mut acked = BTreeSet::new();
        for r in &snapshot {
            if r.outcome == Outcome::Acked {
                acked.extend(ids_of(r));
            }
        }
        for (s, id) in &emitted {
            if !acked.contains(id) {
                cx.fail(
                    "C07/otlp-flush-true-before-answered",
                    format!(
                        "blocking_flush returned true but {s:?} event {} (emitted before the call, {}) was in no acknowledged request at that moment; requests of the signal then: {}",
                        rel(*id),
                        subset_label(sc.subset),
                        describe(&snapshot, *s)
                    ),
                )?;
            }
        }
    }
    Ok(Ok(()))
}

/// Registers the OTLP clause of C07 (`otlp-e2e-flush-<n>`): call from the c07 binary's session body.
pub fn register_c07(s: &Session) {
    for shape in ["logs-only", "traces-only", "metrics-only", "logs+traces", "logs+metrics", "traces+metrics", "all"] {
        s.require(&format!("signals:{shape}"), if s.quick() { 5 } else { 200 });
    }
    for w in ["otlp:http-json", "otlp:http-protobuf", "otlp:grpc"] {
        s.require(w, if s.quick() { 15 } else { 600 });
    }
    s.require("otlp:late-answer", if s.quick() { 30 } else { 1500 });
    s.require("otlp:flush-true", if s.quick() { 50 } else { 2000 });
    let cases = s.n(40, 1500);
    // cases mostly wait for the late answer: several generator instances at once
    std::thread::scope(|scope| {
        for inst in 0..4 {
            scope.spawn(move || {
                let guard = ShrinkGuard::new(40, 45);
                s.gen(&format!("otlp-e2e-flush-{inst}"), cases, flush_case, |c, cx| {
                    guard.run(s, cx, |cx| res(check_c07(c, cx), |p| s.inconclusive(format!("harness: {p}"))))
                });
            });
        }
    });
}

// ---------------------------------------------------------------------------------------------
// C08: a request that is never (completely) answered does not wedge the worker

#[derive(Serialize, Deserialize, Debug, Clone, PartialEq)]
pub struct ProgressCase {
    pub wire: Wire,
    pub gzip: bool,
    pub subset: [bool; 3],
    /// which configured signal gets the stall
    pub victim: u8,
    pub stall: Fault,
    /// events of the LATER batch of the victim signal
    pub later_events: u8,
    pub kib: u16,
}

/// `fixed`: the generator instance's own (wire, stall kind) stratum — with 48 cases in the quick tier the
/// required classes are reached by construction, not by luck.
fn progress_case(fixed: (Option<Wire>, Option<Fault>)) -> BoxedStrategy<ProgressCase> {
    let stall = match fixed.1 {
        Some(f) => Just(f).boxed(),
        None => prop_oneof![
            Just(Fault::Stall),
            Just(Fault::StallAfterHeaders),
            Just(Fault::StallMidBody),
            Just(Fault::WedgeReading),
            Just(Fault::WedgeSilent),
        ]
        .boxed(),
    };
    let wire = match fixed.0 {
        Some(w) => Just(w).boxed(),
        None => wires().boxed(),
    };
    (wire, any::<bool>(), subsets(), 0u8..3, stall, 1u8..=3, prop_oneof![3 => 1u16..=8, 1 => 100u16..=700])
        .prop_map(|(wire, gzip, subset, victim, stall, later_events, kib)| ProgressCase { wire, gzip, subset, victim, stall, later_events, kib })
        .boxed()
}

pub fn check_c08(sc: &ProgressCase, cx: &mut Cx) -> Result<Result<(), String>, vcore::Fail> {
    timing::ensure();
    let _permit = Permit::acquire();
    let base = next_base();
    let c = match start_collector(sc.wire) {
        Ok(c) => c,
        Err(e) => return Ok(Err(e)),
    };
    let configured: Vec<Signal> = Signal::ALL.into_iter().filter(|s| sc.subset[s.index()]).collect();
    let victim = configured[sc.victim as usize % configured.len()];
    c.script(victim, vec![sc.stall.decision()]);
    let otlp = build(&c, &config_only(sc.wire, sc.gzip, sc.subset));
    let transport = if sc.wire == Wire::Grpc { Transport::Grpc } else { Transport::Http1 };
    cx.class(wire_label(sc.wire));
    cx.class(&format!("otlp-stall:{}", decision_label(&sc.stall.decision(), transport)));
    cx.class(&format!("signals:{}", configured.len()));
    cx.nontrivial(true);

    // batch 1: one event per signal; the victim's request is stalled by the collector
    for s in &configured {
        emit_to(&otlp, *s, plug_id(base, *s), 1);
    }
    // (on HTTP/1 a withheld body is over as soon as the client hangs up, so `Stalled` can already be `Done`)
    let decision = sc.stall.decision();
    let stalled = |log: &[RequestLog]| log.iter().any(|r| r.signal == Some(victim) && r.decision == decision && matches!(r.phase, Phase::Stalled | Phase::Done));
    if !c.wait_until(stalled, Duration::from_secs(30)) {
        c.shutdown();
        drop(otlp);
        return Ok(Err("the request to be stalled did not arrive within 30 s".into()));
    }

    // (b) a flush attempted now comes back within its timeout (it may well say false)
    let t = Duration::from_millis(200);
    let slack = Duration::from_secs(5);
    let started = std::time::Instant::now();
    let flushed = otlp.blocking_flush(t);
    let took = started.elapsed();
    cx.class(if flushed { "otlp:flush-true" } else { "otlp:flush-false" });
    if took > t + slack {
        c.release_stalls();
        c.shutdown();
        drop(otlp);
        cx.fail(
            "C08/otlp-flush-overran-timeout",
            format!("blocking_flush({t:?}) took {took:?} while a request of {victim:?} was being stalled ({})", decision_label(&sc.stall.decision(), transport)),
        )?;
        return Ok(Ok(()));
    }

    // (a) a LATER batch of the same signal still gets through: the worker is not wedged
    let mut later = BTreeSet::new();
    for i in 0..sc.later_events as usize {
        let id = event_id(base, victim, i);
        emit_to(&otlp, victim, id, sc.kib as usize);
        later.insert(id);
    }
    let settle = timing::settle(1, 1);
    let delivered = c.wait_until(
        |log| {
            let mut acked = BTreeSet::new();
            for r in log {
                if r.outcome == Outcome::Acked {
                    acked.extend(ids_of(r));
                }
            }
            later.is_subset(&acked)
        },
        settle,
    );
    let log = c.requests();
    c.release_stalls();
    c.shutdown();
    // (c) dropping the emitter returns (a hang here is caught by the binary's hang monitor)
    drop(otlp);
    for r in &log {
        if let Some(id) = ids_of(r).into_iter().find(|id| id / ID_SPACE != base / ID_SPACE) {
            return Ok(Err(format!("a request of another case (event {id}) reached this case's collector")));
        }
    }
    if !delivered {
        cx.fail(
            "C08/otlp-worker-wedged",
            format!(
                "after a request of {victim:?} was stalled by the collector ({}), events emitted later on the same signal were in no acknowledged request within {settle:?} (request timeout {} ms, first back-off {} ms): the signal's worker makes no progress; requests of the signal: {}",
                decision_label(&sc.stall.decision(), transport),
                timing::request_timeout_ms(),
                timing::backoff_total_ms(1),
                describe(&log, victim)
            ),
        )?;
    }
    Ok(Ok(()))
}

// ---- C08, stratum "asymmetric three signals": blocking_flush(T) returns within T however the signals differ

#[derive(Serialize, Deserialize, Debug, Clone, PartialEq)]
pub struct AsymCase {
    pub wire: Wire,
    pub gzip: bool,
    /// acknowledged late: its first `stalls` attempts are stalled past the (scaled) request timeout
    pub slow: Signal,
    /// never acknowledged: every attempt is stalled
    pub stuck: Signal,
    pub stalls: u8,
    /// the flush timeout in ms (NOT scaled by the hook divisor)
    pub t_ms: u32,
}

fn asym_case(fixed: Option<(Signal, Signal)>) -> BoxedStrategy<AsymCase> {
    let roles = match fixed {
        Some(r) => Just(r).boxed(),
        None => prop::sample::select(vec![
            (Signal::Logs, Signal::Traces),
            (Signal::Logs, Signal::Metrics),
            (Signal::Traces, Signal::Logs),
            (Signal::Traces, Signal::Metrics),
            (Signal::Metrics, Signal::Logs),
            (Signal::Metrics, Signal::Traces),
        ])
        .boxed(),
    };
    (wires(), any::<bool>(), roles, 6_000u32..=7_000)
        .prop_map(|(wire, gzip, (slow, stuck), t_ms)| AsymCase { wire, gzip, slow, stuck, stalls: 3, t_ms })
        .boxed()
}

/// One measurement: how long `blocking_flush(T)` took, and what it said.
fn asym_measure(sc: &AsymCase) -> Result<(Duration, bool), String> {
    timing::ensure();
    let c = start_collector(sc.wire)?;
    c.script(sc.slow, vec![Decision::Stall; sc.stalls as usize]);
    c.set_default(sc.stuck, Decision::Stall);
    let otlp = build(&c, &config_only(sc.wire, sc.gzip, [true; 3]));
    let base = next_base();
    for s in Signal::ALL {
        emit_to(&otlp, s, plug_id(base, s), 1);
    }
    let t = Duration::from_millis(sc.t_ms as u64);
    let started = std::time::Instant::now();
    let ok = otlp.blocking_flush(t);
    let took = started.elapsed();
    c.release_stalls();
    c.shutdown();
    drop(otlp);
    Ok((took, ok))
}

pub fn check_c08_asym(sc: &AsymCase, cx: &mut Cx, note: impl Fn(String)) -> Result<Result<(), String>, vcore::Fail> {
    let _permit = Permit::acquire();
    cx.class("otlp-progress:three-signals-asymmetric");
    cx.class(wire_label(sc.wire));
    // flush order is logs, traces, metrics: "a slow one, then a quick one, then the stuck one" is the shape in
    // which a budget that is not carried across signals shows
    let fast = Signal::ALL.into_iter().find(|s| *s != sc.slow && *s != sc.stuck).unwrap();
    cx.class_if(sc.slow < fast && fast < sc.stuck, "otlp-progress:slow-then-quick-then-stuck");
    cx.nontrivial(true);
    let t = Duration::from_millis(sc.t_ms as u64);
    // slack: large against scheduling noise, small against an overrun by the slow signal's ~4.9 s
    let limit = t + Duration::from_millis(2_500);
    let mut took_all = Vec::new();
    for attempt in 0..3 {
        let (took, ok) = match asym_measure(sc) {
            Ok(m) => m,
            Err(e) => return Ok(Err(e)),
        };
        took_all.push(took);
        if attempt == 0 {
            cx.class(if ok { "otlp:flush-true" } else { "otlp:flush-false" });
        }
        if took <= limit {
            if attempt > 0 {
                // an overrun that does not repeat is the machine, not emit
                note(format!("otlp-e2e-progress: blocking_flush({t:?}) overran once ({:?}) and then did not ({took:?}): ignored", took_all[0]));
                cx.dont_care();
            }
            return Ok(Ok(()));
        }
    }
    cx.fail(
        "C08/otlp-flush-overran-timeout",
        format!(
            "blocking_flush({t:?}) took {took_all:?} in three runs of the same case (limit {limit:?}) with all three signals configured: {:?} acknowledged only after {} stalled attempts (~{} ms), {fast:?} at once, {:?} never",
            sc.slow,
            sc.stalls,
            sc.stalls as u64 * timing::request_timeout_ms() + timing::backoff_total_ms(sc.stalls as u32),
            sc.stuck
        ),
    )?;
    Ok(Ok(()))
}

/// Registers the OTLP clause of C08 (`otlp-e2e-progress-<n>`): call from the c08 binary's session body.
pub fn register_c08(s: &Session) {
    for k in ["grpc-stall-after-headers", "grpc-stall-mid-body", "grpc-wedged-connection", "stall"] {
        s.require(&format!("otlp-stall:{k}"), if s.quick() { 5 } else { 250 });
    }
    for w in ["otlp:http-json", "otlp:http-protobuf", "otlp:grpc"] {
        s.require(w, if s.quick() { 5 } else { 250 });
    }
    let cases = s.n(6, 300);
    let strata: [(Option<Wire>, Option<Fault>); 8] = [
        (Some(Wire::Grpc), Some(Fault::StallAfterHeaders)),
        (Some(Wire::Grpc), Some(Fault::StallMidBody)),
        (Some(Wire::Grpc), Some(Fault::WedgeReading)),
        (Some(Wire::Grpc), Some(Fault::WedgeSilent)),
        (Some(Wire::Grpc), Some(Fault::Stall)),
        (Some(Wire::HttpJson), None),
        (Some(Wire::HttpProto), None),
        (None, None),
    ];
    // every case costs about one scaled request timeout (1.5 s) of sleeping: run instances side by side
    s.require("otlp-progress:three-signals-asymmetric", if s.quick() { 3 } else { 60 });
    s.require("otlp-progress:slow-then-quick-then-stuck", if s.quick() { 2 } else { 40 });
    let asym_cases = s.n(1, 20);
    std::thread::scope(|scope| {
        // each of these sleeps through one whole flush timeout (6-7 s, not scaled): one case per instance
        for (inst, fixed) in [Some((Signal::Logs, Signal::Metrics)), Some((Signal::Logs, Signal::Metrics)), None].into_iter().enumerate() {
            scope.spawn(move || {
                let guard = ShrinkGuard::new(0, 0);
                s.gen(&format!("otlp-e2e-progress-asym-{inst}"), asym_cases, move || asym_case(fixed), |c, cx| {
                    guard.run(s, cx, |cx| res(check_c08_asym(c, cx, |n| s.note(n)), |p| s.inconclusive(format!("harness: {p}"))))
                });
            });
        }
        for (inst, fixed) in strata.into_iter().enumerate() {
            scope.spawn(move || {
                let guard = ShrinkGuard::new(12, 45);
                s.gen(&format!("otlp-e2e-progress-{inst}"), cases, move || progress_case(fixed), |c, cx| {
                    guard.run(s, cx, |cx| res(check_c08(c, cx), |p| s.inconclusive(format!("harness: {p}"))))
                });
            });
        }
    });
}

// ---------------------------------------------------------------------------------------------
// C09: emitting never waits on the destination, pending work stays bounded, overflow is counted

/// capacity of each signal's channel (`emit_batcher::bounded(10_000)` in `OtlpBuilder::spawn_inner`)
const OTLP_CHANNEL_CAPACITY: usize = 10_000;

#[derive(Serialize, Deserialize, Debug, Clone, Copy, PartialEq)]
pub enum DeadEnd {
    /// every request is read and then held unanswered
    HoldsEverything,
    /// nothing listens: connection refused
    Refuses,
    /// connections are accepted, the request is never read (nor answered, nor closed)
    NeverReads,
}

#[derive(Serialize, Deserialize, Debug, Clone, PartialEq)]
pub struct StalledDestCase {
    pub wire: Wire,
    pub gzip: bool,
    pub signal: Signal,
    pub endpoint: DeadEnd,
    /// events emitted by each thread on the stalled signal
    pub threads: Vec<u16>,
    /// a healthy second signal that gets this many events from the first thread, interleaved
    pub healthy: Option<(u8, u8)>,
}

fn stalled_dest_case(signal: Signal, endpoint: DeadEnd) -> impl Strategy<Value = StalledDestCase> {
    let per_thread = || prop_oneof![2 => 0u16..2_000, 2 => 3_000u16..7_000, 3 => 9_000u16..13_000];
    let threads = prop_oneof![
        2 => prop::collection::vec(per_thread(), 1..=3),
        1 => prop::collection::vec(9_000u16..13_000, 3..=3),
    ];
    (wires(), any::<bool>(), threads, prop_oneof![1 => Just(None), 1 => (0u8..2, 1u8..=20).prop_map(Some)])
        .prop_map(move |(wire, gzip, threads, healthy)| StalledDestCase { wire, gzip, signal, endpoint, threads, healthy })
}

fn sample_all(otlp: &emit_otlp::Otlp) -> BTreeMap<String, usize> {
    use emit::metric::Source as _;
    let out = std::cell::RefCell::new(BTreeMap::new());
    otlp.metric_source().sample_metrics(emit::metric::sampler::from_fn(|m| {
        out.borrow_mut().insert(m.name().to_string(), m.value().by_ref().cast::<usize>().unwrap_or(usize::MAX));
    }));
    out.into_inner()
}

pub fn check_c09(sc: &StalledDestCase, cx: &mut Cx) -> Result<Result<(), String>, vcore::Fail> {
    timing::ensure();
    let _permit = Permit::acquire();
    let base = next_base();
    let c = match start_collector(sc.wire) {
        Ok(c) => c,
        Err(e) => return Ok(Err(e)),
    };
    let sig = sc.signal;
    let total: usize = sc.threads.iter().map(|n| *n as usize).sum();
    cx.class("otlp-e2e-stalled-destination");
    cx.class(wire_label(sc.wire));
    cx.class(match sc.endpoint {
        DeadEnd::HoldsEverything => "otlp-stall:endpoint-holds-every-request",
        DeadEnd::Refuses => "otlp-stall:endpoint-refuses-connections",
        DeadEnd::NeverReads => "otlp-stall:endpoint-never-reads",
    });
    cx.class_if(total > OTLP_CHANNEL_CAPACITY, "otlp-stall:more-events-than-capacity");
    cx.class_if(total > 2 * OTLP_CHANNEL_CAPACITY, "otlp-stall:overflow-certain");
    cx.class(&format!("otlp-stall:threads-{}", sc.threads.len()));
    cx.nontrivial(total > OTLP_CHANNEL_CAPACITY || sc.threads.len() > 1);

    let healthy = sc.healthy.map(|(n, count)| {
        let others: Vec<Signal> = Signal::ALL.into_iter().filter(|s| *s != sig).collect();
        (others[n as usize % others.len()], count)
    });
    cx.class_if(healthy.is_some(), "otlp-stall:healthy-second-signal");
    let mut subset = [false; 3];
    subset[sig.index()] = true;
    if let Some((h, _)) = healthy {
        subset[h.index()] = true;
    }
    let mut cfg = config_only(sc.wire, sc.gzip, subset);
    match sc.endpoint {
        DeadEnd::HoldsEverything => c.set_default(sig, Decision::Stall),
        DeadEnd::NeverReads => c.set_default(sig, Decision::WedgeConnection { keep_reading: false }),
        DeadEnd::Refuses => cfg.outage = Some((sig, Outage::Refused)),
    }
    let otlp = std::sync::Arc::new(build(&c, &cfg));

    let (tx, rx) = std::sync::mpsc::channel::<usize>();
    for (ti, n) in sc.threads.iter().enumerate() {
        let (otlp, tx, n) = (otlp.clone(), tx.clone(), *n as usize);
        let _ = std::thread::Builder::new().name(format!("c09-emit-{ti}")).spawn(move || {
            for i in 0..n {
                emit_to(&otlp, sig, base + (i % 90_000) as u64, 0);
                if ti == 0 {
                    if let Some((h, count)) = healthy {
                        if i < count as usize {
                            emit_to(&otlp, h, base + 90_000 + i as u64, 0);
                        }
                    }
                }
            }
            let _ = tx.send(ti);
        });
    }
    drop(tx);
    let mut done = 0;
    let deadline = std::time::Instant::now() + Duration::from_secs(30);
    while done < sc.threads.len() {
        match rx.recv_timeout(deadline.saturating_duration_since(std::time::Instant::now())) {
            Ok(_) => done += 1,
            Err(_) => break,
        }
    }
    if done < sc.threads.len() {
        // let the stuck threads (and the worker) get somewhere: the endpoint turns healthy where it can
        c.set_default(sig, Decision::Ack);
        c.release_stalls();
        let m = sample_all(&otlp);
        // the collector is left to the detached threads for a moment, then torn down
        std::thread::sleep(Duration::from_millis(200));
        c.shutdown();
        cx.fail(
            "C09/otlp-emit-blocked-by-stalled-destination",
            format!(
                "{} of {} emitting threads had not returned from `emit` after 30 s while the {sig:?} endpoint was stalled ({:?}, events per thread {:?}); emitter metrics: {:?}",
                sc.threads.len() - done,
                sc.threads.len(),
                sc.endpoint,
                sc.threads,
                m.iter().filter(|(k, _)| k.contains("queue")).collect::<Vec<_>>()
            ),
        )?;
        return Ok(Ok(()));
    }

    // everything was emitted while the destination made no progress: what is pending is bounded, what
    // was thrown away is counted
    let m = sample_all(&otlp);
    c.release_stalls();
    c.shutdown();
    drop(otlp);
    let word = match sig {
        Signal::Logs => "logs",
        Signal::Traces => "traces",
        Signal::Metrics => "metrics",
    };
    let by_suffix = |suffix: &str| m.iter().find(|(k, _)| k.ends_with(suffix) && k.contains(word)).map(|(_, v)| *v);
    let (Some(pending), Some(truncated)) = (by_suffix("queue_length"), by_suffix("queue_full_truncated")) else {
        return Ok(Err(format!("the emitter's metric source has no queue_length / queue_full_truncated for {word}: {:?}", m.keys().collect::<Vec<_>>())));
    };
    if pending > OTLP_CHANNEL_CAPACITY {
        cx.fail(
            "C09/otlp-pending-exceeds-capacity",
            format!("{pending} events pending on {sig:?} after {total} were emitted against a stalled endpoint ({:?}); the channel's capacity is {OTLP_CHANNEL_CAPACITY}", sc.endpoint),
        )?;
    }
    // More than twice the capacity on a worker that is still busy with its FIRST batch (it has taken the
    // queue at most once, at most `capacity` items): the queue was full at some send. When emit reports
    // that the worker got further than its first batch the claim is not made.
    let attempts_failed = by_suffix("queue_batch_failed").unwrap_or(0);
    let processed = by_suffix("queue_batch_processed").unwrap_or(0);
    if total > 2 * OTLP_CHANNEL_CAPACITY {
        if processed == 0 && attempts_failed <= 10 {
            if truncated >= 1 {
                cx.class("otlp-stall:truncation-counted");
            } else {
                cx.fail(
                    "C09/otlp-overflow-not-counted",
                    format!("{total} events were emitted on {sig:?} against a stalled endpoint ({:?}), {pending} are pending, yet queue_full_truncated is {truncated}", sc.endpoint),
                )?;
            }
        } else {
            cx.dont_care();
        }
    } else if truncated >= 1 {
        cx.class("otlp-stall:truncation-counted");
    }
    Ok(Ok(()))
}

/// Registers the OTLP clause of C09 (`otlp-e2e-stalled-destination-<n>`): call from the c09 binary's session body.
pub fn register_c09(s: &Session) {
    let q = s.quick();
    s.require("otlp-stall:more-events-than-capacity", if q { 40 } else { 1200 });
    s.require("otlp-stall:overflow-certain", if q { 12 } else { 400 });
    s.require("otlp-stall:truncation-counted", if q { 12 } else { 400 });
    for k in ["endpoint-holds-every-request", "endpoint-refuses-connections", "endpoint-never-reads"] {
        s.require(&format!("otlp-stall:{k}"), if q { 50 } else { 1500 });
    }
    let cases = s.n(20, 600);
    // strata: every signal x every endpoint behaviour
    std::thread::scope(|scope| {
        let mut inst = 0;
        for signal in Signal::ALL {
            for endpoint in [DeadEnd::HoldsEverything, DeadEnd::Refuses, DeadEnd::NeverReads] {
                let name = format!("otlp-e2e-stalled-destination-{inst}");
                inst += 1;
                scope.spawn(move || {
                    let guard = ShrinkGuard::new(3, 45);
                    s.gen(&name, cases, move || stalled_dest_case(signal, endpoint), |c, cx| {
                        guard.run(s, cx, |cx| res(check_c09(c, cx), |p| s.inconclusive(format!("harness: {p}"))))
                    });
                });
            }
        }
    });
}
