// stub: check for C06 not built yet
fn main() {
    eprintln!("C06: check not built yet");
    std::process::exit(2);
}
