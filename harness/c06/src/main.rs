use chan::e2::{self, Prop};
use chan::e7;
use vcore::Level;

const RULE: &str = "histories are Vec<Op> over {send, try_send, async send(timeout 0|inf), when_flushed/when_empty (plain, panicking, re-entering callbacks), async flush, receiver step, resolve batch (ok / error / retry with remainder same|suffix|subset|empty|foreign / panic in future), resolve wait, poll task, arm closure panic, drop sender} with capacity 1-8, followed by a drain phase with a scripted outcome policy; small-scope mode enumerates ALL histories up to length 6 (quick) / 7 (thorough) over a 13-op alphabet with capacity 1 and 2; E7 runs generated multi-thread workloads against the real sync/tokio receivers. Oracle: first-attempt batches are non-empty FIFO prefixes of the accepted-and-not-truncated sequence (partition, order, exactly once), retries are exactly the returned remainder, nothing accepted is left undelivered once the receiver ran to completion, every truncation is counted. Non-trivial = a send between a hand-off and its resolution, or a retry, or a truncation (E7: >=2 sender threads and >=2 batches).";

fn main() {
    vcore::run(
        "C06",
        Level::Exploration,
        RULE,
        &[
            "E2 drives Receiver::exec, tokio::send/flush futures and all sender calls from one thread; because all state shared by the halves is behind one mutex and the receiver runs at most one critical section between two suspension points, every lock-granularity interleaving of the two-thread system corresponds to a placement of sender operations between receiver steps",
            "the hand-off instant is observed through when_empty callbacks (documented to fire at a point where the current batch is empty) and through the processor invocation",
            "'bounded' is judged against generous absolute bounds (<= 64 attempts per batch, retry waits <= 10 min, idle waits <= 1 min), not against the current constants of emit_batcher::bounded; the retry budget is learned from the run and must be identical for every batch that is given up and at least one retry",
            "E7 samples OS schedules (it does not own them); its oracles are ticket-ordered history invariants that hold for every interleaving; the 30 s watchdogs are the only use of wall-clock time",
            "condvar/oneshot wake-up paths (sync.rs, tokio.rs) are only exercised by E7, i.e. sampled",
        ],
        |s| {
            // the channel promises never to block its callers: a case that does not return is a violation
            s.hang_is_violation(120);
            s.require("self-reported-metrics", 2000);
            s.require("send-inside-receiver-allocation", 1000);
        s.require("send-between-handoff-and-resolution", 2000);
        s.require("retry", 2000);
        s.require("truncation", 2000);
        s.require("foreign-remainder", 100);
        s.require("e7:truncation", 20);
        s.require("e7:multi-item-batch", 100);
            // artifacts of the libFuzzer target `chan_c06` (engine E6 over E2) are replayed through the same entry
            s.manual("fuzz-artifact", Vec::<Vec<u8>>::new(), |bytes, cx| {
                cx.nontrivial(true);
                match chan::fuzz::entry(bytes, Prop::C06) {
                    Ok(()) => Ok(()),
                    Err(f) => cx.fail(f.sig, format!("{}; decoded case: {:?}", f.msg, chan::fuzz::decode(bytes))),
                }
            });
            s.gen("e2-random", s.n(400_000, 12_000_000), || e2::case(e2::W_C06), |c, cx| e2::check(c, Prop::C06, cx));
            let max_len = if s.quick() { 6 } else { 7 };
            s.enumerate("e2-small-scope", e2::small_cases(max_len, &[1, 2]), |c, cx| e2::check(&c.to_case(), Prop::C06, cx));
            s.gen("e7-os-threads", s.n(3_000, 150_000), || e7::workload(1), |c, cx| e7::check(c, Prop::C06, cx));
        },
    )
}
