#!/usr/bin/env bash
# libFuzzer campaign for C07 (target chan_c07: engine E6 over E2 -- channel histories decoded from bytes by chan::fuzz,
# run against the real emit_batcher channel under the deterministic scheduler, judged by C07's oracle in the target).
# ~1-2 k exec/s under ASan on one core: quick 20 k runs, thorough 360 k runs over 12 jobs.
exec "$(dirname "$0")/../../tools/fuzz_campaign.sh" C07 chan_c07 "$1" "$2" 20000 360000 160 chan_history
