// stub: check for C07 not built yet
fn main() {
    eprintln!("C07: check not built yet");
    std::process::exit(2);
}
