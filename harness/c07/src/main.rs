use chan::e2::{self, Prop};
use chan::e7;
use vcore::Level;

const RULE: &str = "same history generator as C06 with flush requests (callback, async with timeout 0|inf, nested from inside callbacks) at arbitrary points and several concurrent flushers; small-scope exhaustive mode; E7 with blocking_flush (sync and tokio entry points) racing senders. Oracle: at the instant a flush completes (callback runs / future resolves true / blocking call returns true) every item whose send returned before the flush was requested is truncated or finalised (the attempt that contained it has returned and it is not part of a remainder that will be retried) - never queued, in flight or awaiting retry. Non-trivial = flush requested while a batch is in flight, during a retry wait, or with pending items (E7: a flush that returned true with >=1 batch).";

fn main() {
    vcore::run(
        "C07",
        Level::Exploration,
        RULE,
        &[
            "E2 drives Receiver::exec, tokio::send/flush futures and all sender calls from one thread; because all state shared by the halves is behind one mutex and the receiver runs at most one critical section between two suspension points, every lock-granularity interleaving of the two-thread system corresponds to a placement of sender operations between receiver steps",
            "the hand-off instant is observed through when_empty callbacks (documented to fire at a point where the current batch is empty) and through the processor invocation",
            "'bounded' is judged against generous absolute bounds (<= 64 attempts per batch, retry waits <= 10 min, idle waits <= 1 min), not against the current constants of emit_batcher::bounded; the retry budget is learned from the run and must be identical for every batch that is given up and at least one retry",
            "E7 samples OS schedules (it does not own them); its oracles are ticket-ordered history invariants that hold for every interleaving; the 30 s watchdogs are the only use of wall-clock time",
            "condvar/oneshot wake-up paths (sync.rs, tokio.rs) are only exercised by E7, i.e. sampled",
        ],
        |s| {
            // the channel promises never to block its callers: a case that does not return is a violation
            s.hang_is_violation(120);
            s.require("self-reported-metrics", 2000);
            s.require("send-inside-receiver-allocation", 1000);
        s.require("flush-while-in-batch", 2000);
        s.require("flush-during-retry-wait", 500);
        s.require("flush-with-pending", 2000);
        s.require("flush-completed", 5000);
        s.require("e7:flush-true", 100);
            // artifacts of the libFuzzer target `chan_c07` (engine E6 over E2) are replayed through the same entry
            s.manual("fuzz-artifact", Vec::<Vec<u8>>::new(), |bytes, cx| {
                cx.nontrivial(true);
                match chan::fuzz::entry(bytes, Prop::C07) {
                    Ok(()) => Ok(()),
                    Err(f) => cx.fail(f.sig, format!("{}; decoded case: {:?}", f.msg, chan::fuzz::decode(bytes))),
                }
            });
            s.gen("e2-random", s.n(400_000, 12_000_000), || e2::case(e2::W_C07), |c, cx| e2::check(c, Prop::C07, cx));
            let max_len = if s.quick() { 6 } else { 7 };
            s.enumerate("e2-small-scope", e2::small_cases(max_len, &[1, 2]), |c, cx| e2::check(&c.to_case(), Prop::C07, cx));
            s.gen("file-e2e-flush", s.n(3_000, 100_000), fsim::e2e::flush_case, |c, cx| fsim::e2e::check_flush(c, cx));
            // OTLP end-to-end clause of this property (real emit_otlp emitter against the scripted collector; harness/c12/src/e2e.rs)
            c12::e2e::register_c07(s);
            // the async send / flush with finite non-zero timeouts on real runtimes (E2 only sees 0 and "never"): this
            // property's oracle over the same workloads C09 uses
            s.gen("e7-async-send-timeouts", s.n(1_200, 30_000), e7::async_case, |c, cx| e7::check_async(c, Prop::C07, cx));
            s.gen("e7-os-threads", s.n(3_000, 150_000), || e7::workload(1), |c, cx| e7::check(c, Prop::C07, cx));
        },
    )
}
