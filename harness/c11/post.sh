#!/usr/bin/env bash
# libFuzzer campaign for C11 (target file_c11: engine E6 over E3 -- file-worker histories decoded from bytes by
# fsim::fuzz, run with the real emit_file worker over the model filesystem, judged by C11's oracle in the target).
# quick 20 k runs, thorough 1.2 M runs over 12 jobs.
exec "$(dirname "$0")/../../tools/fuzz_campaign.sh" C11 file_c11 "$1" "$2" 20000 1200000 192 file_history
