use fsim::gen::{self, Focus, Prop};
use vcore::Level;

const RULE: &str = "same history type as C10, weighted towards configuration variety: roll by day/hour/minute, max_files 1-5, size limits from 0 to 1 GiB, reuse on/off, prefixes {log, app, my.app, 'l og', 'lög', log2} x extensions, clock trajectories with zero, backward and period-crossing steps starting near period boundaries, restarts, sender-side overflow, and up to 5 pre-existing directory entries drawn from 12 name shapes (own-looking files of earlier/future periods, the template file itself, sibling sets whose prefix or extension extends ours, unrelated files); usually fault free (1 in 7 histories carries IO faults). Oracle from the op log: one file per batch; created names are prefix.period.counter.id.ext with the period/counter of the clock reading; after an acknowledged batch in the same process the next batch uses the same file iff period unchanged and size+batch <= limit, else a new file; reuse only with reuse on; own-set file count <= max_files after every acknowledged batch (unless a delete/listing faulted); deletions take the smallest name; names created later sort later while the clock never steps back; every opened/created/deleted path is an own-set name by the strict grammar and foreign files are byte-identical at the end; no panic. Non-trivial = at least one roll and (restart or foreign sibling present or backward clock).";

fn main() {
    vcore::run(
        "C11",
        Level::FaultEnumeration,
        RULE,
        &[
            "filesystem model: written bytes are visible at once and durable up to the length at the last successful sync_all; a crash keeps each file's synced prefix plus a generated prefix of its unsynced suffix (the crash model the property states); directory-entry durability (sync_parent) is recorded but not judged",
            "the worker is driven directly through hook H2 (emit_file::verif::Worker::on_batch) with the retry policy of emit_batcher re-implemented by the harness; the end-to-end path through the real channel is covered by C07",
            "batches that fail in flush/sync are not acknowledged and not retried (documented); nothing is claimed about them",
            "event bodies never contain separator bytes (emit's writers guarantee this for the default JSON writer)",
            "non-repeating pseudo-random file ids; a virtual clock under harness control",
        ],
        |s| {
            s.require("directory-over-limit-at-start/reuse-finds-a-current-file", 50);
            s.require("size-roll", 5000);
            s.require("time-roll", 5000);
            s.require("max_files=1", 5000);
            s.require("prefix-related-sibling", 5000);
            s.require("backward-clock", 3000);
            s.require("restart", 5000);
            s.require("sender-overflow", 2000);
            // artifacts of the libFuzzer target `file_c11` (engine E6 over E3) are replayed through the same entry
            s.manual("fuzz-artifact", Vec::<Vec<u8>>::new(), |bytes, cx| {
                cx.nontrivial(true);
                match fsim::fuzz::entry(bytes, Prop::C11) {
                    Ok(()) => Ok(()),
                    Err(f) => cx.fail(f.sig, format!("{}; decoded case: {:?}", f.msg, fsim::fuzz::decode(bytes))),
                }
            });
            s.gen("histories", s.n(400_000, 12_000_000), || gen::hist(Focus::Config), |h, cx| gen::check(h, Prop::C11, cx));
            let bases = s.sample("single-fault-bases", gen::hist(Focus::Config), s.n(400, 12_000) as usize);
            s.enumerate("single-fault-exhaustive", bases.into_iter().flat_map(gen::single_fault_placements), |h, cx| gen::check(h, Prop::C11, cx));
        },
    )
}
