// stub: check for C11 not built yet
fn main() {
    eprintln!("C11: check not built yet");
    std::process::exit(2);
}
