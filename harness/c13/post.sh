#!/usr/bin/env bash
# libFuzzer campaign for C13 (target value_to_sinks, semantic oracle in the target: c13::fuzz_entry).
# Every execution emits through the real file + OTLP emitters over an in-process loopback pipeline and waits for
# their flushes (roughly 50-130 exec/s depending on machine load): quick 3 k runs, thorough 200 k runs over 12 jobs.
# The pipeline's worker threads and sockets live for the whole process: no -fork; leak detection is switched off in
# the target (__asan_default_options); libFuzzer's default -rss_limit_mb=2048 holds (peak ~0.5 GB).
V="${VERIF_DIR:-$(cd "$(dirname "$0")/../.." && pwd)}"
"$(dirname "$0")/../../tools/fuzz_campaign.sh" C13 value_to_sinks "$1" "$2" 1000 200000 512
rc=$?
# libFuzzer exits without running the harness' shutdown: remove the file-sink scratch directories of dead processes
for d in "$V"/harness/target/c13-files/*/; do
  [ -d "$d" ] || continue
  pid="$(basename "$d")"
  kill -0 "$pid" 2>/dev/null || rm -rf "$d"
done
rmdir "$V/harness/target/c13-files" 2>/dev/null
exit $rc
